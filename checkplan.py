"""Per-property job plans for ./check (what runs in the quick and thorough tiers).

A job: {"mode": worker --mode, "cases": cases per worker, "workers": n, "secs": per-worker time
budget (stops early, never a verdict), "build": strict|plain|rustflate|asan|memcheck,
"kind": vh|miri, "wall_cap": supervisor watchdog (inconclusive when it fires)}.
"""

N = 16


def vh(mode, cases, secs, workers=N, **kw):
    d = {"kind": "vh", "mode": mode, "cases": cases, "secs": secs, "workers": workers,
         "build": "strict", "wall_cap": secs * 3 + 600}
    d.update(kw)
    return d


def miri(mode, cases, workers=N, wall_cap=2400):
    return {"kind": "miri", "mode": mode, "cases": cases, "workers": workers, "wall_cap": wall_cap}


VALGRIND = ["valgrind", "--error-exitcode=97", "--quiet", "--leak-check=no"]

PLAN = {
    "C01": {
        "quick": [vh("", 2500, 70)],
        "thorough": [vh("", 150000, 900)],
    },
    "C14": {
        "quick": [
            vh("ops", 40000, 60),
            vh("parse", 250, 60),
            miri("ops", 60, workers=N, wall_cap=900),
        ],
        "thorough": [
            vh("ops", 1500000, 400),
            vh("parse", 6000, 400),
            vh("ops", 300000, 200, build="plain"),
            vh("ops", 60000, 300, build="asan", no_limits=True,
               env={"ASAN_OPTIONS": "detect_leaks=0:abort_on_error=1:max_allocation_size_mb=2048"}),
            vh("ops", 1500, 600, build="memcheck", wrap=VALGRIND, no_limits=True),
            miri("ops", 900, workers=N, wall_cap=3000),
            miri("parse", 3, workers=N, wall_cap=3000),
        ],
    },
}

RULES = {
    "C01": "A case is a seed font from /repo/tests (93 fonts + 206 AOTS fonts; TrueType, CFF, CFF2, variable, "
           "sbix, SVG, WOFF, WOFF2, TTC) with 1-4 structure-aware faults (byte/field overwrites with boundary "
           "values, truncation at table boundaries, directory surgery, targeted header fields of hot tables, table "
           "removal/duplication/swap/splice) driven through every public entry point (load, tables, cmap, names, "
           "metrics, images, outlines, shaping smoke, subset, prince::subset, whole_font, instance), each call "
           "under panic / allocation / CPU-time monitors; supervisor attributes aborts, stack overflows and hangs. "
           "Non-trivial = the faulted font was accepted by FontData::read and at least one deeper parser returned "
           "Ok; distinct by hash of the faulted bytes.",
    "C14": "A case is a random program of 1-200 reader operations (typed reads of every ReadUnchecked "
           "type, array/stride/dep/upto reads with lengths up to usize::MAX, sub-scopes, slices, "
           "nibble scans, iteration, indexing, binary search, Cow wrappers) over a random 0-300 byte "
           "window embedded in a poisoned allocation, checked step by step against a shadow model on "
           "&[u8] with checked arithmetic; or (mode parse) one real or byte-faulted font driven through "
           "loading, mapping, outlines and subsetting under the read-window hook. Non-trivial = window "
           "non-empty and at least two operations executed (ops) / at least one hooked primitive read "
           "(parse); distinct by hash of (window bytes, program seed) or of the font bytes.",
}

REQUIRED_CLASSES = {
    "C01": {"quick": ["faulted-font-got-past-front-door", "ep:subset:ok", "ep:instance:ok", "ep:glyf.visit:ok",
                      "ep:cff.visit:ok", "fault:truncate", "fault:dir"],
            "thorough": ["faulted-font-got-past-front-door", "ep:subset:ok", "ep:instance:ok", "ep:cff2.visit:ok"]},
    "C14": {
        "quick": ["read:u8:ok", "read:u64:eof", "read_array:err:max", "read_array_stride:ok",
                  "array:bsearch-sorted", "array:cow", "scope.offset:out", "read_until_nibble:ok",
                  "parse:hooked-reads"],
        "thorough": ["read:u8:ok", "read_array:err:max", "parse:hooked-reads"],
    },
}

ASSUMPTIONS = {
    "C01": [
        "thresholds: single allocation request > 1 GiB refused; peak live memory per call > 256 MiB + 512 B/input byte; CPU time per call > 4 s + 40 us/input byte; 120 s CPU per case; 8 MiB stack",
        "strict build profile (opt-level 2, overflow-checks and debug-assertions on): arithmetic wrap-around that cargo test would trip is observed as a panic",
        "only the generated faults are covered; nothing is claimed about inputs outside the fault operators' reach",
    ],
    "C14": [
        "the shadow model (safe Rust on &[u8], checked arithmetic) is the specification of the reader",
        "the verif-hooks read-window assertion sees every primitive read (all ReadUnchecked impls delegate to the four hooked primitives)",
        "Miri/ASan/memcheck see only the executions this run produced",
    ],
}
