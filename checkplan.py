"""Per-property job plans for ./check, loaded from plan.d/<Cxx>.json (one file per property).

plan.d/<Cxx>.json:
  {"prop": "Cxx",
   "plan": {"quick": [job, ...], "thorough": [job, ...]},
   "rule": "how cases are generated and what makes one non-trivial / distinct (goes into the evidence file)",
   "required": {"quick": [class, ...], "thorough": [...]},   # event classes the tier promises to observe
   "assumptions": ["..."],
   "level": "exploration" | "fault_enumeration",            # evidence level (default exploration)
   "manifest": {"cat": ..., "text": ..., "ref": ..., "note": ..., "technique": ...}}

A job: {"kind": "vh"|"miri", "mode": worker --mode, "cases": cases per worker, "workers": n,
"secs": per-worker time budget (stops early, never a verdict), "build": strict|plain|rustflate|asan|memcheck,
"wall_cap": supervisor watchdog in seconds (inconclusive when it fires), optional "env", "wrap",
"no_limits", "seed_offset"}. Missing keys get defaults (workers 16, build strict, wall_cap 3*secs+600).
"""
import glob
import json
import os

ROOT = os.path.dirname(os.path.abspath(__file__))
N = 16

PLAN, RULES, REQUIRED_CLASSES, ASSUMPTIONS, MANIFEST_TEXT, LEVELS = {}, {}, {}, {}, {}, {}


def _norm_job(j):
    d = {"kind": "vh", "mode": "", "workers": N}
    d.update(j)
    if d["kind"] == "vh":
        d.setdefault("build", "strict")
        d.setdefault("secs", 60)
        d.setdefault("wall_cap", d["secs"] * 3 + 600)
    else:
        d.setdefault("wall_cap", 2400)
    return d


for _p in sorted(glob.glob(os.path.join(ROOT, "plan.d", "C*.json"))):
    with open(_p) as _f:
        _d = json.load(_f)
    _id = _d["prop"]
    PLAN[_id] = {t: [_norm_job(j) for j in js] for t, js in _d["plan"].items()}
    RULES[_id] = _d.get("rule", "")
    REQUIRED_CLASSES[_id] = _d.get("required", {})
    ASSUMPTIONS[_id] = _d.get("assumptions", [])
    LEVELS[_id] = _d.get("level") or (_d.get("manifest") or {}).get("cat") or "exploration"
    if _d.get("manifest"):
        MANIFEST_TEXT[_id] = _d["manifest"]
