"""Per-property job plans for ./check (what runs in the quick and thorough tiers).

A job: {"mode": worker --mode, "cases": cases per worker, "workers": n, "secs": per-worker time
budget (stops early, never a verdict), "build": strict|plain|rustflate|asan|memcheck,
"kind": vh|miri, "wall_cap": supervisor watchdog (inconclusive when it fires)}.
"""

N = 16


def vh(mode, cases, secs, workers=N, **kw):
    d = {"kind": "vh", "mode": mode, "cases": cases, "secs": secs, "workers": workers,
         "build": "strict", "wall_cap": secs * 3 + 600}
    d.update(kw)
    return d


def miri(mode, cases, workers=N, wall_cap=2400):
    return {"kind": "miri", "mode": mode, "cases": cases, "workers": workers, "wall_cap": wall_cap}


VALGRIND = ["valgrind", "--error-exitcode=97", "--quiet", "--leak-check=no"]

PLAN = {
    "C14": {
        "quick": [
            vh("ops", 40000, 60),
            vh("parse", 250, 60),
            miri("ops", 60, workers=N, wall_cap=900),
        ],
        "thorough": [
            vh("ops", 1500000, 400),
            vh("parse", 6000, 400),
            vh("ops", 300000, 200, build="plain"),
            vh("ops", 60000, 300, build="asan", no_limits=True,
               env={"ASAN_OPTIONS": "detect_leaks=0:abort_on_error=1:max_allocation_size_mb=2048"}),
            vh("ops", 1500, 600, build="memcheck", wrap=VALGRIND, no_limits=True),
            miri("ops", 900, workers=N, wall_cap=3000),
            miri("parse", 3, workers=N, wall_cap=3000),
        ],
    },
}

RULES = {
    "C14": "A case is a random program of 1-200 reader operations (typed reads of every ReadUnchecked "
           "type, array/stride/dep/upto reads with lengths up to usize::MAX, sub-scopes, slices, "
           "nibble scans, iteration, indexing, binary search, Cow wrappers) over a random 0-300 byte "
           "window embedded in a poisoned allocation, checked step by step against a shadow model on "
           "&[u8] with checked arithmetic; or (mode parse) one real or byte-faulted font driven through "
           "loading, mapping, outlines and subsetting under the read-window hook. Non-trivial = window "
           "non-empty and at least two operations executed (ops) / at least one hooked primitive read "
           "(parse); distinct by hash of (window bytes, program seed) or of the font bytes.",
}

REQUIRED_CLASSES = {
    "C14": {
        "quick": ["read:u8:ok", "read:u64:eof", "read_array:err:max", "read_array_stride:ok",
                  "array:bsearch-sorted", "array:cow", "scope.offset:out", "read_until_nibble:ok",
                  "parse:hooked-reads"],
        "thorough": ["read:u8:ok", "read_array:err:max", "parse:hooked-reads"],
    },
}

ASSUMPTIONS = {
    "C14": [
        "the shadow model (safe Rust on &[u8], checked arithmetic) is the specification of the reader",
        "the verif-hooks read-window assertion sees every primitive read (all ReadUnchecked impls delegate to the four hooked primitives)",
        "Miri/ASan/memcheck see only the executions this run produced",
    ],
}
