#!/usr/bin/env python3
"""Resolve a merge conflict in known_findings.json by taking the union of both sides, then
re-deriving the fixed list from /repo's history (tools/sync_fixed.py)."""
import json, os, re, subprocess, sys
ROOT = os.path.dirname(os.path.dirname(os.path.abspath(__file__)))
def side(n):
    out = subprocess.run(["git", "-C", ROOT, "show", f":{n}:known_findings.json"], capture_output=True, text=True)
    return json.loads(out.stdout) if out.returncode == 0 else {"open": [], "fixed": []}
ours, theirs = side(2), side(3)
res = dict(ours)
seen = {(tuple(e.get("properties", [])), e.get("rule"), e.get("sig")) for e in ours.get("open", [])}
for e in theirs.get("open", []):
    k = (tuple(e.get("properties", [])), e.get("rule"), e.get("sig"))
    if k not in seen:
        res["open"].append(e); seen.add(k)
subj = lambda l: re.sub(r"^fixed: property=C\d\d \S+ ", "", l)
have = {subj(l) for l in ours.get("fixed", [])}
res["fixed"] = list(ours.get("fixed", [])) + [l for l in theirs.get("fixed", []) if subj(l) not in have]
json.dump(res, open(os.path.join(ROOT, "known_findings.json"), "w"), indent=1)
sys.exit(subprocess.run([sys.executable, os.path.join(ROOT, "tools", "sync_fixed.py")]).returncode)
