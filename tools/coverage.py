#!/usr/bin/env python3
"""Reach evidence (DESIGN §2.3): run a slice of every property's workload on a coverage-instrumented
build of the harness + allsorts and report, for the property's anchor files, region / line coverage
and the functions never entered. Evidence only - never part of a verdict.

  tools/coverage.py [--secs 45] [--props C01,C02]

Writes evidence/coverage/<Cxx>.json and prints a markdown table. Needs the nightly toolchain
(llvm-tools); builds into harness/target-cov (git-ignored)."""
import glob
import json
import os
import shutil
import subprocess
import sys

ROOT = os.path.dirname(os.path.dirname(os.path.abspath(__file__)))
HARNESS = os.path.join(ROOT, "harness")
LLVM = os.path.expanduser("~/.rustup/toolchains/nightly-x86_64-unknown-linux-gnu/lib/rustlib/x86_64-unknown-linux-gnu/bin")
ENV = dict(os.environ, CARGO_NET_OFFLINE="true")
MODES = {"C14": ["ops", "parse"]}


def main():
    args = sys.argv[1:]
    secs, props = 45, None
    i = 0
    while i < len(args):
        if args[i] == "--secs":
            secs = int(args[i + 1]); i += 2
        elif args[i] == "--props":
            props = args[i + 1].split(","); i += 2
        else:
            i += 1
    anchors = {}
    for l in open(os.path.join(ROOT, "properties.jsonl")):
        p = json.loads(l)
        anchors[p["id"]] = p.get("anchors", {}).get("files", [])
    props = props or sorted(anchors)
    r = subprocess.run(["cargo", "+nightly", "build", "--release", "--offline", "--target-dir", "target-cov"], cwd=HARNESS,
                       env=dict(ENV, RUSTFLAGS="-Cinstrument-coverage"), stdout=subprocess.PIPE, stderr=subprocess.STDOUT, text=True)
    if r.returncode != 0:
        print(r.stdout[-3000:])
        return 2
    exe = os.path.join(HARNESS, "target-cov", "release", "vh")
    outdir = os.path.join(ROOT, "evidence", "coverage")
    os.makedirs(outdir, exist_ok=True)
    rows = []
    for pid in props:
        work = f"/tmp/cov-{pid}"
        shutil.rmtree(work, ignore_errors=True)
        os.makedirs(work)
        procs = []
        modes = MODES.get(pid, [""])
        nshards = 8
        for m in modes:
            for sh in range(nshards):
                cmd = [exe, "run", pid, "--seed", "1", "--shard", str(sh), "--of", str(nshards), "--tier", "quick",
                       "--cases", "100000000", "--secs", str(secs), "--out", os.path.join(work, f"{m}{sh}.jsonl")]
                if m:
                    cmd += ["--mode", m]
                procs.append(subprocess.Popen(cmd, cwd=HARNESS, env=dict(ENV, LLVM_PROFILE_FILE=os.path.join(work, f"{m}{sh}-%p.profraw")),
                                              stdout=subprocess.DEVNULL, stderr=subprocess.DEVNULL))
        for p in procs:
            p.wait()
        raws = glob.glob(os.path.join(work, "*.profraw"))
        prof = os.path.join(work, "merged.profdata")
        subprocess.run([os.path.join(LLVM, "llvm-profdata"), "merge", "-sparse", "-o", prof] + raws, check=False)
        files = [os.path.join("/repo", f) for f in anchors[pid] if os.path.exists(os.path.join("/repo", f))]
        rep = subprocess.run([os.path.join(LLVM, "llvm-cov"), "export", "--summary-only", "--instr-profile", prof, exe] + files,
                             stdout=subprocess.PIPE, stderr=subprocess.DEVNULL, text=True)
        try:
            data = json.loads(rep.stdout)["data"][0]
        except Exception:
            print(pid, "coverage export failed")
            continue
        per_file = []
        for f in data["files"]:
            s = f["summary"]
            per_file.append({"file": f["filename"].replace("/repo/", ""), "regions_pct": round(s["regions"]["percent"], 1),
                             "lines_pct": round(s["lines"]["percent"], 1), "functions": s["functions"]["count"],
                             "functions_entered": s["functions"]["covered"]})
        # functions never entered (names) in the anchor files
        fn = subprocess.run([os.path.join(LLVM, "llvm-cov"), "export", "--instr-profile", prof, exe] + files,
                            stdout=subprocess.PIPE, stderr=subprocess.DEVNULL, text=True)
        never = []
        try:
            for f in json.loads(fn.stdout)["data"][0]["functions"]:
                if f["count"] == 0 and any(x in files for x in f["filenames"]):
                    never.append(f["name"])
        except Exception:
            pass
        dem = shutil.which("llvm-cxxfilt") or shutil.which("llvm-cxxfilt-14")
        if dem and never:
            out = subprocess.run([dem], input="\n".join(never), stdout=subprocess.PIPE, text=True).stdout.split("\n")
            never_d = sorted(set(x for x in out if x))
        else:
            never_d = sorted(set(never))
        tot = data["totals"]
        ev = {"property_id": pid, "what": "coverage of the property's anchor files by a slice of the quick workload (8 workers x %d s) on a coverage-instrumented build; evidence of reach only" % secs,
              "totals": {"regions_pct": round(tot["regions"]["percent"], 1), "lines_pct": round(tot["lines"]["percent"], 1),
                         "functions": tot["functions"]["count"], "functions_entered": tot["functions"]["covered"]},
              "files": per_file, "functions_never_entered_sample": never_d[:60], "functions_never_entered_count": len(never_d)}
        json.dump(ev, open(os.path.join(outdir, pid + ".json"), "w"), indent=1)
        rows.append((pid, ev["totals"], len(files)))
        shutil.rmtree(work, ignore_errors=True)
        print(pid, ev["totals"], flush=True)
    print("\n| property | anchor files | regions covered | lines covered | functions entered |")
    print("|---|---|---|---|---|")
    for pid, t, nf in rows:
        print(f"| {pid} | {nf} | {t['regions_pct']} % | {t['lines_pct']} % | {t['functions_entered']} / {t['functions']} |")
    return 0


if __name__ == "__main__":
    sys.exit(main())
