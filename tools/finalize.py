#!/usr/bin/env python3
"""Refresh the generated parts of the deliverable: evidence/thorough copies, known_findings fixed list,
MANIFEST.json, and the generated tables inside DESIGN.md (between the BEGIN/END markers)."""
import glob, json, os, re, shutil, subprocess, sys
ROOT = os.path.dirname(os.path.dirname(os.path.abspath(__file__)))
os.makedirs(os.path.join(ROOT, "evidence", "thorough"), exist_ok=True)
for f in glob.glob("/tmp/evidence_thorough_C*.json"):
    try:
        e = json.load(open(f))
        if e.get("tier") == "thorough":
            shutil.copy(f, os.path.join(ROOT, "evidence", "thorough", os.path.basename(f).replace("evidence_thorough_", "")))
    except Exception:
        pass
subprocess.run([sys.executable, os.path.join(ROOT, "tools", "sync_fixed.py")])
subprocess.run([sys.executable, os.path.join(ROOT, "tools_gen_manifest.py")])
def out(script):
    return subprocess.run([sys.executable, os.path.join(ROOT, "tools", script)], capture_output=True, text=True).stdout.strip()
cov_rows = ["| property | anchor files | regions covered | lines covered | functions entered |", "|---|---|---|---|---|"]
for i in range(1, 19):
    p = os.path.join(ROOT, "evidence", "coverage", "C%02d.json" % i)
    if os.path.exists(p):
        e = json.load(open(p)); t = e["totals"]
        cov_rows.append(f"| C{i:02d} | {len(e['files'])} | {t['regions_pct']} % | {t['lines_pct']} % | {t['functions_entered']} / {t['functions']} |")
tables = {"SEED_TABLE": out("seed_table.py"), "VOLUME_TABLE": out("volume_table.py"), "COVERAGE_TABLE": "\n".join(cov_rows)}
p = os.path.join(ROOT, "DESIGN.md")
s = open(p).read()
for k, v in tables.items():
    s = re.sub(rf"<!-- {k}_BEGIN -->.*?<!-- {k}_END -->", lambda m: f"<!-- {k}_BEGIN -->\n{v}\n<!-- {k}_END -->", s, flags=re.S)
open(p, "w").write(s)
print("finalized")
