#!/usr/bin/env python3
"""Rebuild the "fixed" list of known_findings.json so that it has exactly one line per `fix:` commit
of /repo, in commit order:  "fixed: property=<id> <short hash> <what failed>".

The text and property of a line are taken, in this order, from: an existing line (in
known_findings.json here or on any wip-* builder branch) that names the same commit hash; an existing
line whose text equals the commit subject; tools/fix_attribution.json (commit subject -> property; the
text is then the commit subject). A fix commit with no attribution is reported (exit 1)."""
import json
import os
import re
import subprocess
import sys

ROOT = os.path.dirname(os.path.dirname(os.path.abspath(__file__)))
KF = os.path.join(ROOT, "known_findings.json")
ATTR = os.path.join(ROOT, "tools", "fix_attribution.json")
LINE = re.compile(r"fixed: property=(C\d\d) (\S+) (.*)$")


def git(*a):
    return subprocess.run(["git"] + list(a), capture_output=True, text=True).stdout


def main():
    k = json.load(open(KF))
    attr = json.load(open(ATTR)) if os.path.exists(ATTR) else {}
    lines = list(k.get("fixed", []))
    for b in git("-C", ROOT, "branch", "--format=%(refname:short)").split():
        if b.startswith("wip-"):
            try:
                lines += json.loads(git("-C", ROOT, "show", f"{b}:known_findings.json")).get("fixed", [])
            except Exception:
                pass
    by_hash, by_text = {}, {}
    for l in lines:
        m = LINE.match(l)
        if m:
            by_hash.setdefault(m.group(2)[:7], (m.group(1), m.group(3)))
            by_text.setdefault(m.group(3), m.group(1))
    fixed, missing = [], []
    for l in git("-C", "/repo", "log", "--reverse", "--format=%h %s").splitlines():
        h, s = l.split(" ", 1)
        if not s.startswith("fix: "):
            continue
        subj = s[5:]
        if h[:7] in by_hash:
            p, text = by_hash[h[:7]]
        elif subj in by_text:
            p, text = by_text[subj], subj
        elif subj in attr:
            p, text = attr[subj], subj
        else:
            missing.append(l)
            continue
        fixed.append(f"fixed: property={p} {h} {text}")
    k["fixed"] = fixed
    json.dump(k, open(KF, "w"), indent=1)
    print(f"{len(fixed)} fixed entries written")
    for m in missing:
        print("NO-ATTRIBUTION:", m)
    return 1 if missing else 0


if __name__ == "__main__":
    sys.exit(main())
