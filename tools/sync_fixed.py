#!/usr/bin/env python3
"""Rebuild the "fixed" list of known_findings.json from /repo's `fix:` commits.

Property attribution per commit subject is kept in tools/fix_attribution.json (subject -> property);
entries already present in known_findings.json (matched by subject text) keep their property. A fix
commit without an attribution is reported so that it can be added by hand.
"""
import json
import os
import re
import subprocess
import sys

ROOT = os.path.dirname(os.path.dirname(os.path.abspath(__file__)))
KF = os.path.join(ROOT, "known_findings.json")
ATTR = os.path.join(ROOT, "tools", "fix_attribution.json")


def main():
    k = json.load(open(KF))
    attr = json.load(open(ATTR)) if os.path.exists(ATTR) else {}
    for line in k.get("fixed", []):
        m = re.match(r"fixed: property=(C\d\d) (\S+) (.*)$", line)
        if m:
            attr.setdefault(m.group(3), m.group(1))
    log = subprocess.run(["git", "-C", "/repo", "log", "--reverse", "--format=%h %s"], capture_output=True, text=True).stdout.splitlines()
    fixed, missing = [], []
    for l in log:
        h, s = l.split(" ", 1)
        if not s.startswith("fix: "):
            continue
        subj = s[5:]
        p = attr.get(subj)
        if not p:
            # subjects recorded by builders may be paraphrased; try a prefix match
            cands = [v for kk, v in attr.items() if kk[:40] == subj[:40]]
            p = cands[0] if cands else None
        if not p:
            missing.append(l)
            continue
        attr[subj] = p
        fixed.append(f"fixed: property={p} {h} {subj}")
    k["fixed"] = fixed
    json.dump(k, open(KF, "w"), indent=1)
    json.dump(dict(sorted(attr.items())), open(ATTR, "w"), indent=1)
    print(f"{len(fixed)} fixed entries written")
    for m in missing:
        print("NO-ATTRIBUTION:", m)
    return 1 if missing else 0


if __name__ == "__main__":
    sys.exit(main())
