#!/usr/bin/env python3
"""Copy confirmed seeded changes from /tmp/seedout/<Cxx>/<a|b>/ into /verif/seeded/<Cxx>-<a|b>/.

Only changes whose confirm.json says confirmed=true are kept. meta.json is rewritten to carry the
author's description plus what was run here (confirmation and check results)."""
import json
import os
import shutil
import sys

SRC = "/tmp/seedout"
DST = os.path.join(os.path.dirname(os.path.dirname(os.path.abspath(__file__))), "seeded")


def main():
    os.makedirs(DST, exist_ok=True)
    for prop in sorted(os.listdir(SRC)):
        for v in sorted(os.listdir(os.path.join(SRC, prop))):
            d = os.path.join(SRC, prop, v)
            if not os.path.isdir(d) or not os.path.exists(os.path.join(d, "confirm.json")):
                continue
            conf = json.load(open(os.path.join(d, "confirm.json")))
            if not conf.get("confirmed"):
                print(f"{prop}-{v}: not confirmed, skipped")
                continue
            out = os.path.join(DST, f"{prop}-{v}")
            os.makedirs(out, exist_ok=True)
            shutil.copy(os.path.join(d, "patch.diff"), os.path.join(out, "patch.diff"))
            shutil.copy(os.path.join(d, "demo.rs"), os.path.join(out, "demo.rs"))
            meta = json.load(open(os.path.join(d, "meta.json")))
            res = {}
            # keep earlier check results unless a newer result.json exists in the source dir
            if os.path.exists(os.path.join(out, "meta.json")):
                try:
                    res = json.load(open(os.path.join(out, "meta.json"))).get("checks_run", {})
                except Exception:
                    res = {}
            if os.path.exists(os.path.join(d, "result.json")):
                r = json.load(open(os.path.join(d, "result.json")))
                for pid, x in r.get("results", {}).items():
                    res[f"{pid}:{r.get('tier')}:seed{r.get('seed')}"] = {"verdict": x["verdict"], "signatures": x.get("signatures", []), "wall_s": x.get("wall_s"), "repo_head": r.get("repo_head")}
            old_hist = None
            if os.path.exists(os.path.join(out, "meta.json")):
                try:
                    old_hist = json.load(open(os.path.join(out, "meta.json"))).get("history")
                except Exception:
                    pass
            new = {
                "property": meta.get("property", prop),
                "summary": meta.get("summary"),
                "needs_to_manifest": meta.get("needs_to_manifest"),
                "origin": "written by an independent sub-agent that was given only the property text and a scratch worktree of /repo",
                "demo": "demo.rs is an integration test (copy to tests/ of a scratch worktree): passes on the unchanged tree, fails with patch.diff applied",
                "confirmed_here": {
                    "how": "tools/confirm_seed.py in a scratch worktree of /repo HEAD: demo without patch, demo with patch, whole pinned suite with patch",
                    "repo_head": conf.get("repo_head"),
                    "demo_without_patch": conf.get("demo_without_patch"),
                    "demo_with_patch": conf.get("demo_with_patch"),
                    "suite_with_patch_unexpected_failures": conf.get("suite_with_patch", {}).get("unexpected_failures"),
                    "suite_with_patch_passed": conf.get("suite_with_patch", {}).get("passed_incl_doctests"),
                },
                "checks_run": res,
            }
            if old_hist:
                new["history"] = old_hist
            json.dump(new, open(os.path.join(out, "meta.json"), "w"), indent=1)
            print(f"{prop}-{v}: imported; checks: " + ", ".join(f"{k}={v['verdict']}" for k, v in res.items()))


if __name__ == "__main__":
    sys.exit(main())
