#!/usr/bin/env python3
"""Run registered checks against seeded changes without touching /repo.

  tools/mutant_eval.py [--tier quick] [--props C06,C01] [--seed N] <seeded-dir> [<seeded-dir> ...]

For every <seeded-dir> (containing patch.diff and meta.json with "property"), a scratch worktree of
/repo HEAD gets the patch applied, a scratch worktree of /verif HEAD (plus uncommitted harness/plan
files copied over) is pointed at it, and ./check <property> is run there. Prints one line per
(seeded change, property): CAUGHT (exit 1 + VIOLATION line), MISSED (exit 0), BROKEN (other).
Writes <seeded-dir>/result.json. Scratch directories live under /tmp and are removed at the end.
"""
import json
import os
import shutil
import subprocess
import sys
import time

VERIF = os.path.dirname(os.path.dirname(os.path.abspath(__file__)))
REPO = "/repo"
SCR_REPO = "/tmp/mut-repo"
SCR_VERIF = "/tmp/mut-verif"


def sh(cmd, **kw):
    return subprocess.run(cmd, shell=True, text=True, stdout=subprocess.PIPE, stderr=subprocess.STDOUT, **kw)


def prepare():
    sh(f"git -C {REPO} worktree remove --force {SCR_REPO}")
    shutil.rmtree(SCR_REPO, ignore_errors=True)
    r = sh(f"git -C {REPO} worktree prune; git -C {REPO} worktree add --detach {SCR_REPO} HEAD")
    if r.returncode != 0:
        print(r.stdout)
        sys.exit(2)
    if not os.path.isdir(SCR_VERIF):
        os.makedirs(SCR_VERIF)
    # copy the working tree of /verif (without build output / evidence work) so uncommitted edits count
    sh(f"rsync -a --delete --exclude '.git' --exclude 'harness/target*' --exclude 'evidence/work' "
       f"--exclude 'evidence/replays' --exclude seeded {VERIF}/ {SCR_VERIF}/")
    p = os.path.join(SCR_VERIF, "harness", "Cargo.toml")
    s = open(p).read().replace('path = "/repo"', f'path = "{SCR_REPO}"')
    open(p, "w").write(s)


def main():
    global SCR_REPO, SCR_VERIF
    args = sys.argv[1:]
    tier, props, seed, dirs = "quick", None, None, []
    i = 0
    while i < len(args):
        if args[i] == "--suffix":
            SCR_REPO += args[i + 1]; SCR_VERIF += args[i + 1]; i += 2
        elif args[i] == "--tier":
            tier = args[i + 1]; i += 2
        elif args[i] == "--props":
            props = args[i + 1].split(","); i += 2
        elif args[i] == "--seed":
            seed = args[i + 1]; i += 2
        else:
            dirs.append(os.path.abspath(args[i])); i += 1
    prepare()
    summary = []
    for d in dirs:
        meta = json.load(open(os.path.join(d, "meta.json")))
        plist = props or ([meta["property"]] + [p for p in meta.get("also_check", []) if p != meta["property"]])
        sh(f"git -C {SCR_REPO} checkout -- . && git -C {SCR_REPO} clean -fdq -e target")
        r = sh(f"git -C {SCR_REPO} apply --whitespace=nowarn {os.path.join(d, 'patch.diff')}")
        if r.returncode != 0:
            print(f"{os.path.basename(d)}: PATCH-DOES-NOT-APPLY {r.stdout[-300:]}")
            summary.append((d, "patch", "NOAPPLY"))
            continue
        res = {}
        for pid in plist:
            env = dict(os.environ)
            env["VERIF_EARLY_EXIT"] = "1"   # stop the workers as soon as one of them reports a violation
            if seed:
                env["VERIF_SEED"] = seed
            t0 = time.time()
            p = subprocess.run(["./check", pid, "--tier", tier], cwd=SCR_VERIF, env=env, text=True,
                               stdout=subprocess.PIPE, stderr=subprocess.PIPE)
            viol = [l for l in p.stdout.splitlines() if l.startswith("VIOLATION")]
            if p.returncode == 1 and viol:
                verdict = "CAUGHT"
            elif p.returncode == 0:
                verdict = "MISSED"
            else:
                verdict = f"BROKEN(exit {p.returncode})"
            sigs = []
            try:
                ev = json.load(open(os.path.join(SCR_VERIF, "evidence", f"{pid}.json")))
                sigs = ev["coverage"].get("violation_signatures_new", [])
            except Exception:
                pass
            res[pid] = {"verdict": verdict, "exit": p.returncode, "wall_s": round(time.time() - t0, 1),
                        "signatures": sigs[:12], "stderr_tail": p.stderr[-600:] if verdict.startswith("BROKEN") else ""}
            print(f"{os.path.basename(d)} {pid} {tier}: {verdict} {sigs[:4]}", flush=True)
            if verdict.startswith("BROKEN"):
                print("   stderr tail:", p.stderr[-1200:].replace("\n", " | "), flush=True)
            summary.append((d, pid, verdict))
        head = sh(f"git -C {REPO} rev-parse --short HEAD").stdout.strip()
        if "checks_run" in meta:
            # a directory under /verif/seeded: fold the verdicts into its meta.json
            for pid, x in res.items():
                meta["checks_run"][f"{pid}:{tier}:seed{seed or '1'}"] = {"verdict": x["verdict"], "signatures": x.get("signatures", []), "wall_s": x.get("wall_s"), "repo_head": head}
            json.dump(meta, open(os.path.join(d, "meta.json"), "w"), indent=1)
        else:
            json.dump({"tier": tier, "seed": seed or "1", "repo_head": head, "results": res}, open(os.path.join(d, "result.json"), "w"), indent=1)
    sh(f"git -C {REPO} worktree remove --force {SCR_REPO}")
    shutil.rmtree(SCR_VERIF, ignore_errors=True)
    return 0


if __name__ == "__main__":
    sys.exit(main())
