#!/bin/sh
# Build a private copy of the harness with other builders' in-progress modules replaced by the committed stubs.
set -e
mkdir -p /tmp/me-harness
rsync -a --delete --exclude target --exclude 'target-*' /verif/harness/ /tmp/me-harness/ --exclude 'src/props/c15*' --exclude 'src/props/c18*'
for f in "$@"; do :; done
cd /verif && for n in 15 18; do git show baa5af2:harness/src/props/c$n.rs > /tmp/me-harness/src/props/c$n.rs; done
cd /tmp/me-harness && cargo build --release --offline 2>&1 | grep -E "^(error|warning: unused)" -A14 | head -${LINES_MAX:-80}
ls -la /tmp/me-harness/target/release/vh | awk '{print $6,$7,$8}'
