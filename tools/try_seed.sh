#!/bin/bash
# tools/try_seed.sh <seed-id|none> <Cxx> [cases] [extra vh args]: single-worker trial of the working-tree harness
# against a seeded change, in scratch copies (/tmp/mt-repo, /tmp/mt-verif) - never touches /repo.
set -e
S=$1; P=$2; N=${3:-3000}; shift; shift; shift || true
if [ ! -d /tmp/mt-repo ]; then git -C /repo worktree add --detach /tmp/mt-repo HEAD >/dev/null 2>&1; fi
git -C /tmp/mt-repo checkout -q --detach $(git -C /repo rev-parse HEAD)
git -C /tmp/mt-repo checkout -- . 
if [ -f "$S" ]; then git -C /tmp/mt-repo apply --whitespace=nowarn "$S"; elif [ "$S" != none ]; then git -C /tmp/mt-repo apply --whitespace=nowarn /verif/seeded/$S/patch.diff; fi
mkdir -p /tmp/mt-verif
rsync -a --delete --exclude '.git' --exclude 'harness/target*' --exclude evidence --exclude seeded /verif/ /tmp/mt-verif/
sed -i 's|path = "/repo"|path = "/tmp/mt-repo"|' /tmp/mt-verif/harness/Cargo.toml
cd /tmp/mt-verif/harness
cargo build --release --offline 2>&1 | grep -E "^error" -A8 || true
timeout 240 ./target/release/vh run $P --cases $N "$@" > /tmp/mt-run.out 2>&1 || true
grep -v '^{"t"' /tmp/mt-run.out | cut -c1-220 | sort | uniq -c | sort -rn | head -4
tail -1 /tmp/mt-run.out | python3 -c "
import sys,json
d=json.loads(sys.stdin.read().strip().splitlines()[-1]); print('$S $P violations:', d.get('violations'), 'inconclusive:', d.get('inconclusive'))"
git -C /tmp/mt-repo checkout -- .
