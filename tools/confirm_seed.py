#!/usr/bin/env python3
"""Confirm seeded changes independently (scratch worktree of /repo HEAD, never /repo itself).

  tools/confirm_seed.py <dir> [<dir> ...]     each dir holds patch.diff, demo.rs, meta.json

For each: (1) demo passes on the unchanged tree, (2) patch applies and compiles, (3) demo fails with
the patch, (4) the whole pinned suite gives exactly the expected result with the patch (only the 10
fixture-dependent tests fail). Writes confirm.json next to the patch and prints one line per seed.
"""
import json
import os
import re
import shutil
import subprocess
import sys

REPO = "/repo"
WT = "/tmp/confirm-repo"
EXPECTED_FAIL = {
    "bitmap::cbdt::tests::test_lookup_cblc", "font::tests::test_glyph_names", "test_shape_emoji_flag",
    "test_shape_emoji_hair_component", "test_shape_emoji_sequence", "test_shape_emoji_zwj_sequence",
    "tables::cmap::tests::test_mappings_format0", "tables::cmap::tests::test_mappings_format12",
    "tables::cmap::tests::test_mappings_format4", "tables::svg::tests::test_read_svg",
}
ENV = dict(os.environ, CARGO_NET_OFFLINE="true")


def sh(cmd, cwd=None, timeout=3600):
    p = subprocess.run(cmd, shell=True, cwd=cwd, env=ENV, text=True, stdout=subprocess.PIPE,
                       stderr=subprocess.STDOUT, timeout=timeout)
    return p.returncode, p.stdout


def main():
    global WT
    args = sys.argv[1:]
    if args and args[0] == "--wt":
        WT = args[1]
        args = args[2:]
    dirs = [os.path.abspath(d) for d in args]
    sh(f"git -C {REPO} worktree remove --force {WT}")
    shutil.rmtree(WT, ignore_errors=True)
    rc, out = sh(f"git -C {REPO} worktree prune; git -C {REPO} worktree add --detach {WT} HEAD")
    if rc:
        print(out)
        return 2
    for d in dirs:
        name = "/".join(d.split("/")[-2:])
        res = {"repo_head": sh(f"git -C {REPO} rev-parse --short HEAD")[1].strip()}
        sh("git checkout -- . && git clean -fdq -e target", cwd=WT)
        demo = "seed_demo"
        shutil.copy(os.path.join(d, "demo.rs"), os.path.join(WT, "tests", demo + ".rs"))
        rc, out = sh(f"cargo test --offline --test {demo} 2>&1 | tail -15", cwd=WT)
        res["demo_without_patch"] = "pass" if re.search(r"test result: ok\. [1-9]", out) and "FAILED" not in out else "FAIL"
        rc, out2 = sh(f"git apply --whitespace=nowarn {os.path.join(d, 'patch.diff')}", cwd=WT)
        if rc:
            res["patch"] = "does-not-apply: " + out2[-300:]
            json.dump(res, open(os.path.join(d, "confirm.json"), "w"), indent=1)
            print(name, "PATCH-DOES-NOT-APPLY")
            continue
        rc, out = sh(f"cargo test --offline --test {demo} 2>&1 | tail -40", cwd=WT)
        compiled = "error: could not compile" not in out and "error[E" not in out
        res["compiles"] = compiled
        demo_ok = bool(re.search(r"test result: ok\. [1-9]", out)) and "FAILED" not in out and "error: test failed" not in out
        res["demo_with_patch"] = "fail" if compiled and not demo_ok else "PASS"
        res["demo_with_patch_tail"] = out[-600:]
        os.remove(os.path.join(WT, "tests", demo + ".rs"))
        rc, out = sh("cargo test --workspace --no-fail-fast --offline 2>&1", cwd=WT, timeout=5400)
        failed = set(re.findall(r"^test (\S+) \.\.\. FAILED", out, re.M))
        passed = len(re.findall(r"^test \S+ \.\.\. ok", out, re.M))
        res["suite_with_patch"] = {"passed_incl_doctests": passed, "failed": sorted(failed),
                                   "unexpected_failures": sorted(failed - EXPECTED_FAIL),
                                   "compiled": "error: could not compile" not in out}
        ok = (res["demo_without_patch"] == "pass" and res["demo_with_patch"] == "fail" and
              res["suite_with_patch"]["compiled"] and not (failed - EXPECTED_FAIL) and passed >= 688)
        res["confirmed"] = ok
        json.dump(res, open(os.path.join(d, "confirm.json"), "w"), indent=1)
        print(name, "CONFIRMED" if ok else "NOT-CONFIRMED", {k: v for k, v in res.items() if k in ("demo_without_patch", "demo_with_patch")},
              "unexpected:", sorted(failed - EXPECTED_FAIL), "passed:", passed, flush=True)
    sh(f"git -C {REPO} worktree remove --force {WT}")
    return 0


if __name__ == "__main__":
    sys.exit(main())
