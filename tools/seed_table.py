#!/usr/bin/env python3
"""Print the markdown table of DESIGN.md §11 from /verif/seeded/*/meta.json."""
import glob
import json
import os

ROOT = os.path.dirname(os.path.dirname(os.path.abspath(__file__)))
rows = []
for d in sorted(glob.glob(os.path.join(ROOT, "seeded", "*"))):
    mp = os.path.join(d, "meta.json")
    if not os.path.exists(mp):
        continue
    m = json.load(open(mp))
    sid = os.path.basename(d)
    summ = " ".join(str(m.get("summary") or "").split())
    summ = summ.replace("|", "\\|")
    if len(summ) > 150:
        summ = summ[:147] + "..."
    checks = []
    for k, v in sorted(m.get("checks_run", {}).items()):
        pid, tier = k.split(":")[0], k.split(":")[1]
        sig = ""
        if v.get("signatures"):
            s0 = v["signatures"][0]
            sig = f" ({s0[0]}: {s0[1]})".replace("|", "\\|")
        checks.append(f"{pid} {tier}: **{v['verdict']}**{sig}")
    hist = " — first MISSED, check strengthened" if m.get("history") else ""
    rows.append(f"| {sid} | {summ} | {'; '.join(checks) or 'not run'}{hist} |")
print("| seeded change | what it changes | verdict of the property's check |")
print("|---|---|---|")
print("\n".join(rows))
