#!/usr/bin/env python3
"""Markdown table of what the last quick run (evidence/Cxx.json) and the last recorded thorough run
(evidence/thorough/Cxx.json, copied there after a `./check Cxx --tier thorough`) of every property
observed: cases, distinct non-trivial cases, event classes, wall time, known findings, violations."""
import json
import os

ROOT = os.path.dirname(os.path.dirname(os.path.abspath(__file__)))


def row(path):
    try:
        e = json.load(open(path))
    except Exception:
        return None
    c = e["coverage"]
    return (c.get("evaluations", 0), c.get("distinct_nontrivial", 0), len(c.get("classes_observed", {})),
            e.get("wall_s", 0), len(c.get("known_findings_observed", [])), e.get("violations", 0),
            c.get("miri_evaluations", 0), c.get("hook_primitive_reads_checked", 0))


print("| property | quick: cases / distinct non-trivial / classes / wall | thorough: cases / distinct non-trivial / classes / wall | hooked reads (thorough) | Miri cases (thorough) |")
print("|---|---|---|---|---|")
for i in range(1, 19):
    p = "C%02d" % i
    q = row(os.path.join(ROOT, "evidence", p + ".json"))
    t = row(os.path.join(ROOT, "evidence", "thorough", p + ".json"))
    f = lambda r: "—" if r is None else f"{r[0]:,} / {r[1]:,} / {r[2]} / {r[3]:.0f} s"
    print(f"| {p} | {f(q)} | {f(t)} | {t[7]:,} | {t[6]:,} |" if t else f"| {p} | {f(q)} | — | — | — |")
