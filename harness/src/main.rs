//! vh — verification harness worker for yeslogic/allsorts (runtime monitoring).
//!
//!   vh run  <prop> --seed S --shard i --of n --tier quick|thorough --cases N [--secs T] [--start K]
//!                  [--mode M] --out FILE [--hashes FILE] [--journal FILE]
//!   vh case <prop> --case-seed HEX [--tier ..] [--mode M]        (replay one case, verbose)
//!   vh selftest

#![allow(clippy::all)]
#![allow(dead_code)]

pub mod rt;
pub mod sfnt;
pub mod gen;
pub mod model;
pub mod props;

use rt::*;
use std::io::Write;
use std::os::unix::fs::FileExt;
use std::panic::{self, AssertUnwindSafe};
use std::sync::atomic::Ordering;
use std::time::Instant;

struct Args {
    cmd: String,
    prop: String,
    seed: u64,
    shard: u64,
    of: u64,
    tier: Tier,
    cases: u64,
    secs: f64,
    start: u64,
    mode: String,
    out: Option<String>,
    hashes: Option<String>,
    journal: Option<String>,
    case_seed: Option<u64>,
    verbose: bool,
    no_limits: bool,
}

fn parse_args() -> Args {
    let argv: Vec<String> = std::env::args().collect();
    let mut a = Args {
        cmd: argv.get(1).cloned().unwrap_or_default(),
        prop: argv.get(2).cloned().unwrap_or_default(),
        seed: 1,
        shard: 0,
        of: 1,
        tier: Tier::Quick,
        cases: 1000,
        secs: 1e9,
        start: 0,
        mode: String::new(),
        out: None,
        hashes: None,
        journal: None,
        case_seed: None,
        verbose: false,
        no_limits: false,
    };
    let mut i = 3;
    while i < argv.len() {
        let k = argv[i].as_str();
        let v = argv.get(i + 1).cloned().unwrap_or_default();
        match k {
            "--seed" => a.seed = v.parse().expect("--seed"),
            "--shard" => a.shard = v.parse().expect("--shard"),
            "--of" => a.of = v.parse().expect("--of"),
            "--tier" => {
                a.tier = if v == "thorough" {
                    Tier::Thorough
                } else {
                    Tier::Quick
                }
            }
            "--cases" => a.cases = v.parse().expect("--cases"),
            "--secs" => a.secs = v.parse().expect("--secs"),
            "--start" => a.start = v.parse().expect("--start"),
            "--mode" => a.mode = v,
            "--out" => a.out = Some(v),
            "--hashes" => a.hashes = Some(v),
            "--journal" => a.journal = Some(v),
            "--case-seed" => a.case_seed = Some(u64::from_str_radix(&v, 16).expect("--case-seed")),
            "-v" => {
                a.verbose = true;
                i += 1;
                continue;
            }
            "--no-limits" => {
                a.no_limits = true;
                i += 1;
                continue;
            }
            _ => panic!("unknown argument {}", k),
        }
        i += 2;
    }
    a
}

fn prop_number(p: &str) -> u64 {
    p.trim_start_matches('C').parse().unwrap_or(0)
}

pub fn case_seed_for(seed: u64, prop: &str, shard: u64, index: u64) -> u64 {
    mix(mix(mix(seed, prop_number(prop)), shard), index)
}

fn start_watchdog(limit_cpu_s: u64) {
    #[cfg(not(miri))]
    std::thread::spawn(move || loop {
        std::thread::sleep(std::time::Duration::from_millis(250));
        let start = CASE_START_CPU.load(Ordering::Relaxed);
        if start == 0 {
            continue;
        }
        let now = process_cpu_ns();
        if now.saturating_sub(start) > limit_cpu_s * 1_000_000_000 {
            let msg = b"\nVERIF-HANG cpu limit exceeded\n";
            unsafe {
                libc::write(2, msg.as_ptr() as *const libc::c_void, msg.len());
                libc::abort();
            }
        }
    });
    #[cfg(miri)]
    {
        let _ = limit_cpu_s;
    }
}

fn run_one_case(prop: &mut dyn props::Prop, cx: &mut Ctx, case_seed: u64, index: u64) {
    cx.case_seed = case_seed;
    cx.case_index = index;
    cx.evals += 1;
    CASE_START_CPU.store(process_cpu_ns().max(1), Ordering::Relaxed);
    let t0 = thread_cpu_ns();
    let mut rng = Rng::new(case_seed);
    let r = panic::catch_unwind(AssertUnwindSafe(|| prop.case(cx, &mut rng)));
    let dt = thread_cpu_ns().saturating_sub(t0);
    CASE_START_CPU.store(0, Ordering::Relaxed);
    if let Err(_) = r {
        let p = take_last_panic().unwrap_or_default();
        if is_harness_panic(&p) {
            cx.inconclusive("harness-panic");
            eprintln!(
                "HARNESS-PANIC prop={} case={:016x}: {} at {}",
                cx.prop, case_seed, p.message, p.location
            );
        } else {
            cx.panic_violation("case", &p, J::Null);
        }
    }
    // whole-case CPU time (a very generous backstop; per-call bounds live in Ctx::guard)
    if dt > 30_000_000_000 {
        cx.violation(
            "cpu-time",
            "whole-case",
            J::obj(vec![("cpu_ms", J::U(dt / 1_000_000))]),
        );
    }
}

fn main() {
    let a = parse_args();
    install_panic_hook();
    match a.cmd.as_str() {
        "run" => {
            if !a.no_limits && alloc_tracking_enabled() {
                set_rlimit_as(12 << 30);
                ALLOC_LIMIT.store(1 << 30, Ordering::Relaxed);
            }
            start_watchdog(120);
            let mut cx = Ctx::new(&a.prop, a.tier);
            cx.mode = a.mode.clone();
            cx.verbose = a.verbose;
            if let Some(o) = &a.out {
                cx.out = Some(
                    std::fs::OpenOptions::new()
                        .create(true)
                        .append(true)
                        .open(o)
                        .expect("open --out"),
                );
            }
            let journal = a.journal.as_ref().map(|j| {
                std::fs::OpenOptions::new()
                    .create(true)
                    .write(true)
                    .open(j)
                    .expect("open --journal")
            });
            let t0 = Instant::now();
            let mut prop = match props::make(&a.prop, &mut cx) {
                Some(p) => p,
                None => {
                    eprintln!("unknown property {}", a.prop);
                    std::process::exit(2);
                }
            };
            let mut index = a.start;
            let end = a.cases;
            if a.start == 0 {
                // exhaustive sub-spaces are split across shards by the property itself
                let (shard, of) = (a.shard, a.of);
                CASE_START_CPU.store(0, Ordering::Relaxed);
                let r = panic::catch_unwind(AssertUnwindSafe(|| {
                    prop.exhaustive(&mut cx, shard, of)
                }));
                if r.is_err() {
                    let p = take_last_panic().unwrap_or_default();
                    if is_harness_panic(&p) {
                        cx.inconclusive("harness-panic");
                        eprintln!("HARNESS-PANIC in exhaustive: {} at {}", p.message, p.location);
                    } else {
                        cx.panic_violation("exhaustive", &p, J::Null);
                    }
                }
            }
            while index < end {
                if t0.elapsed().as_secs_f64() > a.secs {
                    cx.class("stopped-by-time-budget");
                    break;
                }
                let cs = case_seed_for(a.seed, &a.prop, a.shard, index);
                if let Some(j) = &journal {
                    let line = format!("{:>20} {:016x}\n", index, cs);
                    let _ = j.write_at(line.as_bytes(), 0);
                }
                run_one_case(prop.as_mut(), &mut cx, cs, index);
                index += 1;
            }
            if let Some(j) = &journal {
                let line = format!("{:>20} {:>16}\n", index, "done");
                let _ = j.write_at(line.as_bytes(), 0);
            }
            prop.finish(&mut cx);
            let hp = a.hashes.as_ref().map(|h| std::path::PathBuf::from(h));
            cx.finish(t0.elapsed().as_secs_f64(), hp.as_deref());
        }
        "case" => {
            set_quiet_panics(false);
            if !a.no_limits && alloc_tracking_enabled() {
                set_rlimit_as(12 << 30);
                ALLOC_LIMIT.store(1 << 30, Ordering::Relaxed);
            }
            start_watchdog(120);
            let mut cx = Ctx::new(&a.prop, a.tier);
            cx.mode = a.mode.clone();
            cx.verbose = true;
            cx.max_viol_per_sig = 1000;
            let mut prop = props::make(&a.prop, &mut cx).expect("unknown property");
            let cs = a.case_seed.expect("--case-seed required");
            run_one_case(prop.as_mut(), &mut cx, cs, 0);
            let _ = std::io::stdout().flush();
            eprintln!(
                "replayed case {:016x}: violations={} classes={:?} inconclusive={:?}",
                cs, cx.violations, cx.classes, cx.inconclusive
            );
            std::process::exit(if cx.violations > 0 { 1 } else { 0 });
        }
        "selftest" => {
            set_quiet_panics(false);
            let ok = props::selftest();
            std::process::exit(if ok { 0 } else { 1 });
        }
        _ => {
            eprintln!("usage: vh run|case|selftest ...");
            std::process::exit(2);
        }
    }
}
