//! C04 — reference GSUB interpreter, evaluated on the AST of `gen::layout_c04` (never on bytes,
//! never calling allsorts).
//!
//! Semantics encoded (OpenType 1.9, chapter 2 "Lookup table"/"Sequence context", GSUB chapter):
//! * script -> language system (DFLT script / default LangSys fall-backs), feature variations
//!   (first record whose conditions all hold), enabled feature tags -> union of lookup indices,
//!   applied once each in ascending LookupList order;
//! * one pass per lookup over the whole run, left to right (type 8: right to left); at each
//!   position that the lookup flags do not skip, the first subtable (and within it the first
//!   rule / ligature) that matches is applied and the pass resumes after the matched input;
//! * skipping: IgnoreBaseGlyphs / IgnoreLigatures / IgnoreMarks by GDEF glyph class; for marks
//!   IgnoreMarks supersedes the mark filtering set, which supersedes the mark attachment type;
//!   a filtering set / attachment type only ever skips *marks*;
//! * backtrack / input / lookahead are matched over non-skipped glyphs (backtrack[0] is the glyph
//!   nearest to the input, matched against the run as already substituted by this pass);
//! * sequence lookup records are applied in record order, each at the given position of the
//!   matched input sequence *as modified by the preceding records*;
//! * ligature: first component replaced, other components removed, characters concatenated in
//!   component order; multiple: every output glyph carries a copy of the characters.
//!
//! Where two reasonable engine designs diverge (explicit position array vs recounting non-skipped
//! glyphs after a nested lookup changed what is skipped, nested lookups reaching outside the
//! matched input, invalid indices, …) the interpreter follows the position-array reading and
//! records an *ambiguity reason*; the oracle never turns an ambiguous case into a violation.

use crate::gen::layout_c04::*;
use std::collections::{BTreeMap, BTreeSet};

pub const DFLT: u32 = 0x4446_4C54;

#[derive(Clone, Debug, PartialEq)]
pub struct MGlyph {
    pub gid: u16,
    pub chars: Vec<char>,
}

pub struct Selection<'a> {
    pub script: u32,
    pub lang: Option<u32>,
    /// enabled feature tags
    pub tags: &'a [u32],
    /// per-tag alternate index (empty = default selection everywhere)
    pub alternates: &'a [(u32, usize)],
    /// normalised coordinates, raw F2Dot14
    pub tuple: Option<&'a [i16]>,
}

#[derive(Default, Debug)]
pub struct Outcome {
    pub glyphs: Vec<MGlyph>,
    pub classes: BTreeSet<String>,
    pub ambiguous: BTreeSet<&'static str>,
    /// lookups that changed the run, in application order
    pub changed_by: Vec<u16>,
    /// all lookups selected (ascending)
    pub selected: Vec<u16>,
}

pub struct Resolved {
    /// (lookup index, tag that selected it first) ascending, unique
    pub lookups: Vec<(u16, u32)>,
    pub fv_record: Option<usize>,
    pub fv_substituted: bool,
    /// events of the feature-variation selection (evidence classes)
    pub fv_events: BTreeSet<&'static str>,
    pub ambiguous: BTreeSet<&'static str>,
    pub langsys_found: bool,
}

/// Feature selection: script/langsys, feature variations, tags -> lookup indices.
pub fn resolve(g: &Gsub, sel: &Selection) -> Resolved {
    let mut r = Resolved { lookups: Vec::new(), fv_record: None, fv_substituted: false, fv_events: BTreeSet::new(), ambiguous: BTreeSet::new(), langsys_found: false };
    let script = match g.scripts.iter().find(|s| s.tag == sel.script).or_else(|| g.scripts.iter().find(|s| s.tag == DFLT)) {
        Some(s) => s,
        None => return r,
    };
    let ls = match sel.lang.and_then(|t| script.langs.iter().find(|(lt, _)| *lt == t)).map(|(_, l)| l).or(script.default.as_ref()) {
        Some(l) => l,
        None => return r,
    };
    r.langsys_found = true;
    // feature variations
    // The first record whose condition set matches is used and no other record is considered,
    // also when it substitutes nothing (NULL substitution offset, empty substitution table, or a
    // table that does not list the feature). A NULL condition-set offset and a condition set
    // without conditions match every instance.
    let mut subst: Option<&FvRecord> = None;
    if let (Some(t), Some(fv)) = (sel.tuple, g.fv.as_ref()) {
        let holds = |rec: &FvRecord| match &rec.conds {
            None => true,
            Some(cs) => cs.iter().all(|c| (c.axis as usize) < t.len() && c.min <= t[c.axis as usize] && t[c.axis as usize] <= c.max),
        };
        for (k, rec) in fv.iter().enumerate() {
            if holds(rec) {
                subst = Some(rec);
                r.fv_record = Some(k);
                if k > 0 {
                    r.fv_events.insert("feature-variations:earlier-record-did-not-match");
                }
                match &rec.conds {
                    None => {
                        r.fv_events.insert("feature-variations:first-match-has-null-condition-set");
                    }
                    Some(c) if c.is_empty() => {
                        r.fv_events.insert("feature-variations:first-match-has-empty-condition-set");
                    }
                    Some(c) if c.len() > 1 => {
                        r.fv_events.insert("feature-variations:first-match-has-several-conditions");
                    }
                    _ => {}
                }
                match &rec.substs {
                    None => {
                        r.fv_events.insert("feature-variations:first-match-has-null-substitution");
                    }
                    Some(s) if s.is_empty() => {
                        r.fv_events.insert("feature-variations:first-match-has-empty-substitution-table");
                    }
                    _ => {}
                }
                if let Some(later) = fv[k + 1..].iter().find(|x| holds(x)) {
                    r.fv_events.insert("feature-variations:later-record-also-matches");
                    if later.substs.as_ref().map_or(false, |s| !s.is_empty()) && rec.substs.is_none() {
                        r.fv_events.insert("feature-variations:null-substitution-shadows-later-substituting-record");
                    }
                }
                break;
            }
        }
        if subst.is_none() && !fv.is_empty() {
            r.fv_events.insert("feature-variations:no-record-matches");
        }
    }
    let mut chosen: BTreeMap<u16, u32> = BTreeMap::new();
    let mut add_feature = |fi: u16, tag: u32, r: &mut Resolved| {
        let f = match g.features.get(fi as usize) {
            Some(f) => f,
            None => {
                r.ambiguous.insert("feature-index-out-of-range");
                return;
            }
        };
        let mut lookups = &f.lookups;
        if let Some(rec) = subst {
            match rec.substs.as_ref().and_then(|s| s.iter().find(|(i, _)| *i == fi)) {
                Some((_, l)) => {
                    lookups = l;
                    r.fv_substituted = true;
                }
                None => {
                    if rec.substs.as_ref().map_or(false, |s| !s.is_empty()) {
                        r.fv_events.insert("feature-variations:first-match-does-not-cover-enabled-feature");
                    }
                }
            }
        }
        for &l in lookups {
            chosen.entry(l).or_insert(tag);
        }
    };
    if let Some(req) = ls.required {
        r.ambiguous.insert("required-feature");
        let tag = g.features.get(req as usize).map_or(0, |f| f.tag);
        add_feature(req, tag, &mut r);
    }
    for &tag in sel.tags {
        let hits: Vec<u16> = ls.features.iter().copied().filter(|&fi| g.features.get(fi as usize).map_or(false, |f| f.tag == tag)).collect();
        if hits.len() > 1 {
            r.ambiguous.insert("duplicate-feature-tag");
        }
        if let Some(&fi) = hits.first() {
            add_feature(fi, tag, &mut r);
        }
    }
    r.lookups = chosen.into_iter().collect();
    r
}

pub fn flag_name(flag: u16) -> String {
    let mut v = Vec::new();
    if flag & IGNORE_BASE != 0 {
        v.push("ib");
    }
    if flag & IGNORE_LIG != 0 {
        v.push("il");
    }
    if flag & IGNORE_MARKS != 0 {
        v.push("im");
    }
    if flag & USE_MFS != 0 {
        v.push("mfs");
    }
    if flag & 0xFF00 != 0 {
        v.push("mat");
    }
    if v.is_empty() {
        "none".to_string()
    } else {
        v.join("+")
    }
}

/// Why (if at all) a lookup with these flags skips glyph `gid`.
pub fn skip_reason(gdef: Option<&Gdef>, flag: u16, mark_set: Option<u16>, gid: u16) -> Option<&'static str> {
    let gdef = gdef?;
    let class = gdef.glyph_class(gid);
    if class == 1 && flag & IGNORE_BASE != 0 {
        return Some("base");
    }
    if class == 2 && flag & IGNORE_LIG != 0 {
        return Some("ligature");
    }
    if class == 3 {
        if flag & IGNORE_MARKS != 0 {
            return Some("marks");
        }
        if flag & USE_MFS != 0 {
            // a mark filtering set supersedes the mark attachment type
            let inside = mark_set.and_then(|i| gdef.mark_sets.get(i as usize)).map_or(false, |c| c.contains(gid));
            return if inside { None } else { Some("mfs") };
        }
        if flag & 0xFF00 != 0 {
            return if gdef.attach_class(gid) == flag >> 8 { None } else { Some("mat") };
        }
    }
    None
}

enum M<'a> {
    Gid(u16),
    Class(&'a ClassDef, u16),
    Cov(&'a Cov),
}

impl<'a> M<'a> {
    fn ok(&self, g: u16) -> bool {
        match self {
            M::Gid(x) => *x == g,
            M::Class(cd, c) => cd.class(g) == *c,
            M::Cov(c) => c.contains(g),
        }
    }
}

struct Parent<'a> {
    lk: &'a Lookup,
    positions: &'a [usize],
    seq: usize,
}

struct Hit<'a> {
    sub: usize,
    rule: Option<usize>,
    /// buffer indices of the matched input sequence
    positions: Vec<usize>,
    span: (usize, usize),
    recs: &'a [(u16, u16)],
    class0_first: bool,
    class0_elem: bool,
}

pub struct Interp<'a> {
    p: &'a Program,
    pub buf: Vec<MGlyph>,
    pub out: Outcome,
    alt_of_lookup: BTreeMap<u16, usize>,
    steps: usize,
}

const MAX_BUF: usize = 1024;
const MAX_STEPS: usize = 200_000;

impl<'a> Interp<'a> {
    fn lk(&self, li: usize) -> &'a Lookup {
        &self.p.gsub.lookups[li]
    }
    fn skipped(&self, lk: &Lookup, gid: u16) -> bool {
        skip_reason(self.p.gdef.as_ref(), lk.flag, lk.mark_set, gid).is_some()
    }
    fn next_ns(&self, lk: &Lookup, from: usize) -> Option<usize> {
        let mut i = from + 1;
        while i < self.buf.len() {
            if !self.skipped(lk, self.buf[i].gid) {
                return Some(i);
            }
            i += 1;
        }
        None
    }
    fn prev_ns(&self, lk: &Lookup, from: usize) -> Option<usize> {
        let mut i = from;
        while i > 0 {
            i -= 1;
            if !self.skipped(lk, self.buf[i].gid) {
                return Some(i);
            }
        }
        None
    }
    fn fwd(&self, lk: &Lookup, start: usize, items: &[M]) -> Option<Vec<usize>> {
        let mut pos = Vec::with_capacity(items.len());
        let mut at = start;
        for m in items {
            at = self.next_ns(lk, at)?;
            if !m.ok(self.buf[at].gid) {
                return None;
            }
            pos.push(at);
        }
        Some(pos)
    }
    fn back(&self, lk: &Lookup, start: usize, items: &[M]) -> Option<usize> {
        let mut at = start;
        for m in items {
            at = self.prev_ns(lk, at)?;
            if !m.ok(self.buf[at].gid) {
                return None;
            }
        }
        Some(at)
    }
    /// backtrack + input (after the first glyph at `i`) + lookahead
    fn full(&self, lk: &Lookup, i: usize, b: &[M], inp: &[M], a: &[M]) -> Option<(Vec<usize>, (usize, usize))> {
        let lo = self.back(lk, i, b)?;
        let mut positions = vec![i];
        positions.extend(self.fwd(lk, i, inp)?);
        let last = *positions.last().unwrap();
        let ahead = self.fwd(lk, last, a)?;
        let hi = ahead.last().copied().unwrap_or(last);
        Some((positions, (lo, hi)))
    }

    fn note_skips(&mut self, lk: &Lookup, span: (usize, usize)) {
        for k in span.0..=span.1.min(self.buf.len().saturating_sub(1)) {
            if let Some(r) = skip_reason(self.p.gdef.as_ref(), lk.flag, lk.mark_set, self.buf[k].gid) {
                self.out.classes.insert(format!("skipped-in-match:{}", r));
                self.out.classes.insert(format!("skipped-in-match:flags={}", flag_name(lk.flag)));
            }
        }
    }

    /// Find the first subtable/rule of a context-type lookup matching at `i`.
    fn find_context(&self, lk: &'a Lookup, i: usize) -> Option<Hit<'a>> {
        let g = self.buf[i].gid;
        for (si, sub) in lk.subs.iter().enumerate() {
            match sub {
                Sub::Ctx1 { cov, sets, .. } | Sub::Chain1 { cov, sets, .. } => {
                    let rules = match cov.index(g).and_then(|ci| sets.get(ci)).and_then(|s| s.as_ref()) {
                        Some(r) => r,
                        None => continue,
                    };
                    for (ri, r) in rules.iter().enumerate() {
                        let b: Vec<M> = r.back.iter().map(|&x| M::Gid(x)).collect();
                        let inp: Vec<M> = r.input.iter().map(|&x| M::Gid(x)).collect();
                        let a: Vec<M> = r.ahead.iter().map(|&x| M::Gid(x)).collect();
                        if let Some((positions, span)) = self.full(lk, i, &b, &inp, &a) {
                            return Some(Hit { sub: si, rule: Some(ri), positions, span, recs: &r.recs, class0_first: false, class0_elem: false });
                        }
                    }
                }
                Sub::Ctx2 { cov, cd, sets, .. } => {
                    if !cov.contains(g) {
                        continue;
                    }
                    let c0 = cd.class(g);
                    let rules = match sets.get(c0 as usize).and_then(|s| s.as_ref()) {
                        Some(r) => r,
                        None => continue,
                    };
                    for (ri, r) in rules.iter().enumerate() {
                        let inp: Vec<M> = r.input.iter().map(|&x| M::Class(cd, x)).collect();
                        if let Some((positions, span)) = self.full(lk, i, &[], &inp, &[]) {
                            return Some(Hit { sub: si, rule: Some(ri), positions, span, recs: &r.recs, class0_first: c0 == 0, class0_elem: r.input.contains(&0) });
                        }
                    }
                }
                Sub::Chain2 { cov, bcd, icd, acd, sets, .. } => {
                    if !cov.contains(g) {
                        continue;
                    }
                    let c0 = icd.class(g);
                    let rules = match sets.get(c0 as usize).and_then(|s| s.as_ref()) {
                        Some(r) => r,
                        None => continue,
                    };
                    for (ri, r) in rules.iter().enumerate() {
                        let b: Vec<M> = r.back.iter().map(|&x| M::Class(bcd, x)).collect();
                        let inp: Vec<M> = r.input.iter().map(|&x| M::Class(icd, x)).collect();
                        let a: Vec<M> = r.ahead.iter().map(|&x| M::Class(acd, x)).collect();
                        if let Some((positions, span)) = self.full(lk, i, &b, &inp, &a) {
                            let c0e = r.input.contains(&0) || r.back.contains(&0) || r.ahead.contains(&0);
                            return Some(Hit { sub: si, rule: Some(ri), positions, span, recs: &r.recs, class0_first: c0 == 0, class0_elem: c0e });
                        }
                    }
                }
                Sub::Ctx3 { covs, recs, .. } => {
                    if covs.is_empty() || !covs[0].contains(g) {
                        continue;
                    }
                    let inp: Vec<M> = covs[1..].iter().map(M::Cov).collect();
                    if let Some((positions, span)) = self.full(lk, i, &[], &inp, &[]) {
                        return Some(Hit { sub: si, rule: None, positions, span, recs, class0_first: false, class0_elem: false });
                    }
                }
                Sub::Chain3 { back, input, ahead, recs, .. } => {
                    if input.is_empty() || !input[0].contains(g) {
                        continue;
                    }
                    let b: Vec<M> = back.iter().map(M::Cov).collect();
                    let inp: Vec<M> = input[1..].iter().map(M::Cov).collect();
                    let a: Vec<M> = ahead.iter().map(M::Cov).collect();
                    if let Some((positions, span)) = self.full(lk, i, &b, &inp, &a) {
                        return Some(Hit { sub: si, rule: None, positions, span, recs, class0_first: false, class0_elem: false });
                    }
                }
                _ => {}
            }
        }
        None
    }

    fn first_cov(sub: &Sub) -> Option<&Cov> {
        match sub {
            Sub::Single1 { cov, .. }
            | Sub::Single2 { cov, .. }
            | Sub::Multiple { cov, .. }
            | Sub::Alternate { cov, .. }
            | Sub::Ligature { cov, .. }
            | Sub::Ctx1 { cov, .. }
            | Sub::Ctx2 { cov, .. }
            | Sub::Chain1 { cov, .. }
            | Sub::Chain2 { cov, .. }
            | Sub::Rev { cov, .. } => Some(cov),
            Sub::Ctx3 { covs, .. } => covs.first(),
            Sub::Chain3 { input, .. } => input.first(),
        }
    }

    fn note_applied(&mut self, lk: &Lookup, si: usize, g: u16, depth: usize) {
        let sub = &lk.subs[si];
        self.out.classes.insert(format!("applied:{}", sub.name()));
        if depth > 0 {
            self.out.classes.insert(format!("applied-nested:{}", sub.name()));
        }
        if depth >= 3 {
            // a lookup applied by the third of three nested context lookups
            self.out.classes.insert("applied-under-three-nested-contexts".to_string());
        }
        if lk.ext {
            self.out.classes.insert("applied:extension".to_string());
            self.out.classes.insert(format!("applied:extension:{}", sub.name()));
        }
        if lk.flag != 0 {
            self.out.classes.insert(format!("applied:flags={}", flag_name(lk.flag)));
        }
        if si > 0 {
            self.out.classes.insert("later-subtable-applied".to_string());
        }
        if lk.subs[si + 1..].iter().any(|s| Self::first_cov(s).map_or(false, |c| c.contains(g))) {
            self.out.classes.insert("first-subtable-wins".to_string());
        }
    }

    /// Apply lookup `li` once at buffer position `i`. Returns the position after the matched
    /// input when something matched.
    fn apply_at(&mut self, li: usize, i: usize, depth: usize, parent: Option<&Parent>) -> Option<usize> {
        let lk = self.lk(li);
        let g = self.buf[i].gid;
        if depth > 0 && self.skipped(lk, g) {
            // engines do not test the nested lookup's own flags on the glyph it is pointed at
            self.out.ambiguous.insert("nested-lookup-flags-skip-target");
        }
        match lk.ltype {
            1 => {
                for (si, sub) in lk.subs.iter().enumerate() {
                    let new = match sub {
                        Sub::Single1 { cov, delta } => cov.index(g).map(|_| (g as i32 + *delta as i32).rem_euclid(65536) as u16),
                        Sub::Single2 { cov, subst } => match cov.index(g) {
                            Some(ci) => match subst.get(ci) {
                                Some(&n) => Some(n),
                                None => {
                                    self.out.ambiguous.insert("substitute-array-too-short");
                                    return None;
                                }
                            },
                            None => None,
                        },
                        _ => None,
                    };
                    if let Some(n) = new {
                        self.note_applied(lk, si, g, depth);
                        self.buf[i].gid = n;
                        return Some(i + 1);
                    }
                }
                None
            }
            2 => {
                for (si, sub) in lk.subs.iter().enumerate() {
                    if let Sub::Multiple { cov, seqs } = sub {
                        if let Some(ci) = cov.index(g) {
                            let seq = match seqs.get(ci) {
                                Some(s) => s,
                                None => {
                                    self.out.ambiguous.insert("sequence-array-too-short");
                                    return None;
                                }
                            };
                            self.note_applied(lk, si, g, depth);
                            if seq.is_empty() {
                                self.out.ambiguous.insert("empty-multiple-sequence");
                                self.buf.remove(i);
                                return Some(i);
                            }
                            let chars = self.buf[i].chars.clone();
                            self.buf[i].gid = seq[0];
                            for (k, &s) in seq.iter().enumerate().skip(1) {
                                self.buf.insert(i + k, MGlyph { gid: s, chars: chars.clone() });
                            }
                            if seq.len() > 1 {
                                self.out.classes.insert("multiple-grew-run".to_string());
                            }
                            return Some(i + seq.len());
                        }
                    }
                }
                None
            }
            3 => {
                for (si, sub) in lk.subs.iter().enumerate() {
                    if let Sub::Alternate { cov, alts } = sub {
                        if let Some(ci) = cov.index(g) {
                            let set = match alts.get(ci) {
                                Some(s) => s,
                                None => {
                                    self.out.ambiguous.insert("alternate-array-too-short");
                                    return None;
                                }
                            };
                            let choice = if depth > 0 { 0 } else { self.alt_of_lookup.get(&(li as u16)).copied().unwrap_or(0) };
                            if choice != 0 {
                                self.out.ambiguous.insert("non-default-alternate");
                            }
                            self.note_applied(lk, si, g, depth);
                            match set.get(choice) {
                                Some(&n) => self.buf[i].gid = n,
                                None => {
                                    self.out.ambiguous.insert("alternate-index-out-of-range");
                                }
                            }
                            return Some(i + 1);
                        }
                    }
                }
                None
            }
            4 => {
                for (si, sub) in lk.subs.iter().enumerate() {
                    if let Sub::Ligature { cov, sets } = sub {
                        let set = match cov.index(g).and_then(|ci| sets.get(ci)) {
                            Some(s) => s,
                            None => continue,
                        };
                        for (ri, lig) in set.iter().enumerate() {
                            let items: Vec<M> = lig.comps.iter().map(|&x| M::Gid(x)).collect();
                            if let Some(cpos) = self.fwd(lk, i, &items) {
                                if let Some(pp) = parent {
                                    // The nested lookup matches with ITS OWN flags. Which glyphs
                                    // it consumes is then fixed; what stays open is only the
                                    // parent's position bookkeeping, which is cross-checked
                                    // (array vs recount) at every later record and at the end.
                                    // A ligature reaching beyond the parent's matched input is
                                    // not judged (where to resume is engine-specific).
                                    let window_end = pp.positions.last().copied().unwrap_or(i);
                                    if cpos.last().map_or(false, |&c| c > window_end) {
                                        self.out.ambiguous.insert("nested-ligature-leaves-parent-sequence");
                                    }
                                    let want = pp.positions.get(pp.seq + 1..pp.seq + 1 + cpos.len());
                                    if want != Some(&cpos[..]) {
                                        self.out.classes.insert("nested-ligature-components-not-next-parent-positions".to_string());
                                    }
                                    let last = cpos.last().copied().unwrap_or(i);
                                    if (i..=last).any(|k| self.skipped(lk, self.buf[k].gid) && !self.skipped(pp.lk, self.buf[k].gid)) {
                                        self.out.classes.insert("nested-ligature-skipped-glyph-the-parent-counts".to_string());
                                    }
                                    if (i..=last).any(|k| !self.skipped(lk, self.buf[k].gid) && self.skipped(pp.lk, self.buf[k].gid)) {
                                        self.out.classes.insert("nested-ligature-consumed-glyph-the-parent-skips".to_string());
                                    }
                                }
                                self.note_applied(lk, si, g, depth);
                                if ri > 0 {
                                    self.out.classes.insert("later-ligature-in-set-applied".to_string());
                                }
                                let last = cpos.last().copied().unwrap_or(i);
                                self.note_skips(lk, (i, last));
                                if cpos.len() + 1 < last - i + 1 {
                                    self.out.classes.insert("ligature-skipped-glyphs-between-components".to_string());
                                }
                                let mut extra: Vec<char> = Vec::new();
                                for &c in &cpos {
                                    extra.extend(self.buf[c].chars.iter().copied());
                                }
                                for &c in cpos.iter().rev() {
                                    self.buf.remove(c);
                                }
                                self.buf[i].chars.extend(extra);
                                self.buf[i].gid = lig.lig;
                                if !cpos.is_empty() {
                                    self.out.classes.insert("ligature-shrank-run".to_string());
                                }
                                return Some(last + 1 - cpos.len());
                            }
                        }
                    }
                }
                None
            }
            5 | 6 => {
                if depth >= 3 {
                    self.out.ambiguous.insert("context-nesting-depth");
                    return None;
                }
                let hit = self.find_context(lk, i)?;
                self.note_applied(lk, hit.sub, g, depth);
                if hit.rule.map_or(false, |r| r > 0) {
                    self.out.classes.insert("later-rule-in-set-applied".to_string());
                }
                if hit.class0_first {
                    self.out.classes.insert("class0-first-glyph-rule-fired".to_string());
                }
                if hit.class0_elem {
                    self.out.classes.insert("class0-element-rule-fired".to_string());
                }
                if hit.span.0 < i {
                    self.out.classes.insert("backtrack-matched".to_string());
                }
                if hit.span.1 > *hit.positions.last().unwrap() {
                    self.out.classes.insert("lookahead-matched".to_string());
                }
                self.note_skips(lk, hit.span);
                Some(self.apply_records(lk, i, hit.positions, hit.recs, depth))
            }
            8 => {
                if depth > 0 {
                    self.out.ambiguous.insert("nested-reverse-chain");
                }
                for (si, sub) in lk.subs.iter().enumerate() {
                    if let Sub::Rev { cov, back, ahead, subst, .. } = sub {
                        if let Some(ci) = cov.index(g) {
                            let b: Vec<M> = back.iter().map(M::Cov).collect();
                            let a: Vec<M> = ahead.iter().map(M::Cov).collect();
                            if let Some((_, span)) = self.full(lk, i, &b, &[], &a) {
                                let n = match subst.get(ci) {
                                    Some(&n) => n,
                                    None => {
                                        self.out.ambiguous.insert("substitute-array-too-short");
                                        return None;
                                    }
                                };
                                self.note_applied(lk, si, g, depth);
                                self.note_skips(lk, span);
                                if span.0 < i {
                                    self.out.classes.insert("backtrack-matched".to_string());
                                }
                                if span.1 > i {
                                    self.out.classes.insert("lookahead-matched".to_string());
                                }
                                self.buf[i].gid = n;
                                return Some(i + 1);
                            }
                        }
                    }
                }
                None
            }
            _ => None,
        }
    }

    /// Apply the sequence lookup records of a matched rule. Returns the resume position.
    fn apply_records(&mut self, lk: &'a Lookup, i: usize, mut positions: Vec<usize>, recs: &[(u16, u16)], depth: usize) -> usize {
        let last = *positions.last().unwrap();
        let mut end: isize = last as isize + 1;
        let alt_len = (last - i + 1) as isize;
        let mut alt_changes: isize = 0;
        let orig_count = positions.len();
        for &(seq, nl) in recs {
            let (seq, nl) = (seq as usize, nl as usize);
            if seq >= positions.len() {
                self.out.ambiguous.insert("sequence-index-beyond-input");
                continue;
            }
            if nl >= self.p.gsub.lookups.len() {
                self.out.ambiguous.insert("nested-lookup-index-out-of-range");
                continue;
            }
            // the other reasonable reading: recount non-skipped glyphs from the start of the match
            let mut rc = Some(i);
            for _ in 0..seq {
                rc = rc.and_then(|x| self.next_ns(lk, x));
            }
            if rc != Some(positions[seq]) {
                self.out.ambiguous.insert("position-recount-diverges");
            }
            let p = positions[seq];
            if p >= self.buf.len() {
                self.out.ambiguous.insert("position-beyond-run");
                continue;
            }
            let before = self.buf.len() as isize;
            let gids_before: Vec<u16> = if depth == 0 { self.buf.iter().map(|g| g.gid).collect() } else { Vec::new() };
            let par = Parent { lk, positions: &positions, seq };
            let applied = self.apply_at(nl, p, depth + 1, Some(&par));
            let mut delta = self.buf.len() as isize - before;
            if applied.is_some() {
                self.out.classes.insert("nested-lookup-applied".to_string());
                if seq >= orig_count {
                    // a position that exists only because an earlier record lengthened the sequence
                    self.out.classes.insert("record-applied-beyond-original-input-count".to_string());
                    self.out.classes.insert(format!("record-applied-beyond-original-input-count:{}", lk.subs.iter().map(|s| s.name()).next().unwrap_or("?")));
                }
                let nlk = self.lk(nl);
                if (nlk.flag, nlk.mark_set) != (lk.flag, lk.mark_set) {
                    self.out.classes.insert(format!("nested-lookup-applied-with-own-flags:type{}", nlk.ltype));
                }
                if depth == 0 && gids_before != self.buf.iter().map(|g| g.gid).collect::<Vec<_>>() {
                    self.out.classes.insert("nested-lookup-changed-run".to_string());
                }
            }
            if delta == 0 {
                continue;
            }
            self.out.classes.insert("nested-lookup-changed-length".to_string());
            self.out.classes.insert(if delta > 0 { "nested-lookup-grew-run".to_string() } else { "nested-lookup-shrank-run".to_string() });
            alt_changes += delta;
            // position bookkeeping (explicit position array)
            end += delta;
            if end < positions[seq] as isize {
                delta += positions[seq] as isize - end;
                end = positions[seq] as isize;
            }
            let count = positions.len() as isize;
            let next = seq as isize + 1;
            if delta > 0 {
                let d = delta as usize;
                for x in positions.iter_mut().skip(seq + 1) {
                    *x += d;
                }
                for k in 0..d {
                    positions.insert(seq + 1 + k, positions[seq] + 1 + k);
                }
            } else {
                let d = delta.max(next - count);
                let remove = (-d) as usize;
                positions.drain(seq + 1..seq + 1 + remove);
                for x in positions.iter_mut().skip(seq + 1) {
                    *x = (*x as isize + d) as usize;
                }
            }
        }
        let alt_end = i as isize + alt_len + alt_changes;
        if alt_end != end {
            self.out.ambiguous.insert("resume-position-diverges");
        }
        end.max(0) as usize
    }

    fn pass(&mut self, li: usize) {
        let lk = self.lk(li);
        if lk.ltype == 8 {
            let mut i = self.buf.len();
            while i > 0 {
                i -= 1;
                if !self.skipped(lk, self.buf[i].gid) {
                    self.apply_at(li, i, 0, None);
                }
            }
            return;
        }
        let mut i = 0;
        while i < self.buf.len() {
            self.steps += 1;
            if self.steps > MAX_STEPS || self.buf.len() > MAX_BUF {
                self.out.ambiguous.insert("runaway-program");
                return;
            }
            if self.skipped(lk, self.buf[i].gid) {
                i += 1;
                continue;
            }
            let len_before = self.buf.len();
            match self.apply_at(li, i, 0, None) {
                Some(end) => {
                    if end <= i && self.buf.len() >= len_before {
                        self.out.ambiguous.insert("no-progress-after-match");
                        i += 1;
                    } else {
                        i = end;
                    }
                }
                None => i += 1,
            }
        }
    }
}

/// Evaluate the program on `input` under `sel`.
pub fn run(p: &Program, sel: &Selection, input: &[MGlyph]) -> Outcome {
    let res = resolve(&p.gsub, sel);
    let mut it = Interp { p, buf: input.to_vec(), out: Outcome::default(), alt_of_lookup: BTreeMap::new(), steps: 0 };
    it.out.ambiguous.extend(res.ambiguous.iter().copied());
    if res.fv_record.is_some() {
        it.out.classes.insert("feature-variation-record-matched".to_string());
    }
    if res.fv_substituted {
        it.out.classes.insert("feature-variation-substituted-feature".to_string());
    }
    for e in &res.fv_events {
        it.out.classes.insert(e.to_string());
    }
    for &(l, tag) in &res.lookups {
        if let Some(&(_, a)) = sel.alternates.iter().find(|(t, _)| *t == tag) {
            it.alt_of_lookup.insert(l, a);
        }
    }
    it.out.selected = res.lookups.iter().map(|x| x.0).collect();
    for &(l, _) in &res.lookups {
        if (l as usize) >= p.gsub.lookups.len() {
            it.out.ambiguous.insert("lookup-index-out-of-range");
            continue;
        }
        let before = it.buf.clone();
        it.pass(l as usize);
        if it.buf != before {
            it.out.changed_by.push(l);
            if p.gsub.lookups[l as usize].ltype == 8 {
                it.out.classes.insert("reverse-chain-changed-run".to_string());
            }
        }
    }
    it.out.glyphs = std::mem::take(&mut it.buf);
    it.out
}

// ---------------------------------------------------------------------------------------------
// Unit vectors: tiny programs whose results were worked out by hand from the OpenType text.
// They guard the interpreter itself (run once per worker; a failure makes every case
// inconclusive, i.e. the run is reported as broken, never as a violation).
// ---------------------------------------------------------------------------------------------

pub fn unit_vectors() -> Vec<String> {
    let mut fails: Vec<String> = Vec::new();
    let cov = |g: &[u16]| Cov::new(g.to_vec(), 1, 0);
    let lk = |ltype: u16, flag: u16, mark_set: Option<u16>, subs: Vec<Sub>| Lookup { ltype, flag, mark_set, subs, ext: false, pad: 0 };
    let single = |from: &[u16], to: &[u16]| Sub::Single2 { cov: Cov::new(from.to_vec(), 1, 0), subst: to.to_vec() };
    let tagn = |i: usize| 0x7430_3030 + i as u32; // "t00i"
    let prog = |gdef: Option<Gdef>, lookups: Vec<Lookup>, feats: Vec<Vec<u16>>, fv: Option<Vec<FvRecord>>| -> Program {
        let features: Vec<Feature> = feats.into_iter().enumerate().map(|(i, l)| Feature { tag: tagn(i), lookups: l }).collect();
        let ls = LangSys { required: None, features: (0..features.len() as u16).collect() };
        Program {
            num_glyphs: 100,
            gdef,
            gsub: Gsub { scripts: vec![Script { tag: DFLT, default: Some(ls), langs: Vec::new() }], features, lookups, fv, pool_pad: 0, salt: 0 },
            axes: 1,
            cmap: BTreeMap::new(),
        }
    };
    let gdef = |classes: &[(u16, u16)], attach: &[(u16, u16)], sets: Vec<Vec<u16>>| -> Option<Gdef> {
        Some(Gdef {
            minor: 2,
            glyph_class: Some(ClassDef::new(classes.iter().copied().collect(), 1, 0)),
            mark_attach: Some(ClassDef::new(attach.iter().copied().collect(), 1, 0)),
            mark_sets: sets.into_iter().map(|s| Cov::new(s, 1, 0)).collect(),
        })
    };
    let mut check = |name: &str, p: &Program, tags: &[u32], tuple: Option<&[i16]>, input: &[u16], want: &[(u16, &str)]| {
        let inp: Vec<MGlyph> = input.iter().enumerate().map(|(i, &g)| MGlyph { gid: g, chars: vec![(b'a' + i as u8) as char] }).collect();
        let out = run(p, &Selection { script: 0x6C61_746E, lang: None, tags, alternates: &[], tuple }, &inp);
        let got: Vec<(u16, String)> = out.glyphs.iter().map(|g| (g.gid, g.chars.iter().collect())).collect();
        let want: Vec<(u16, String)> = want.iter().map(|(g, s)| (*g, s.to_string())).collect();
        if got != want || !out.ambiguous.is_empty() {
            fails.push(format!("{}: got {:?} want {:?} ambiguous {:?}", name, got, want, out.ambiguous));
        }
    };
    // V1 lookups run in lookup-list order, whatever the order inside / among the features
    let p = prog(None, vec![lk(1, 0, None, vec![single(&[10], &[11])]), lk(1, 0, None, vec![single(&[11], &[12])])], vec![vec![1, 0]], None);
    check("lookup-order-within-feature", &p, &[tagn(0)], None, &[10], &[(12, "a")]);
    let p = prog(None, vec![lk(1, 0, None, vec![single(&[10], &[11])]), lk(1, 0, None, vec![single(&[11], &[12])])], vec![vec![1], vec![0]], None);
    check("lookup-order-across-features", &p, &[tagn(0), tagn(1)], None, &[10], &[(12, "a")]);
    check("only-enabled-features", &p, &[tagn(0)], None, &[10], &[(10, "a")]);
    // V2 ligature over a skipped mark; characters in component order; the mark stays behind
    let g = gdef(&[(1, 1), (2, 1), (3, 2), (5, 3), (6, 3)], &[(5, 1), (6, 2)], vec![vec![5]]);
    let lig = Sub::Ligature { cov: cov(&[1]), sets: vec![vec![Lig { comps: vec![2], lig: 3 }]] };
    let p = prog(g.clone(), vec![lk(4, IGNORE_MARKS, None, vec![lig.clone()])], vec![vec![0]], None);
    check("ligature-skips-marks", &p, &[tagn(0)], None, &[1, 5, 2, 1], &[(3, "ac"), (5, "b"), (1, "d")]);
    let p = prog(g.clone(), vec![lk(4, 0, None, vec![lig])], vec![vec![0]], None);
    check("ligature-blocked-by-mark", &p, &[tagn(0)], None, &[1, 5, 2], &[(1, "a"), (5, "b"), (2, "c")]);
    // V3 backtrack[0] is the glyph nearest to the input; lookahead after the input
    let chain = Sub::Chain1 { cov: cov(&[1]), sets: vec![Some(vec![Rule { back: vec![7, 8], input: vec![], ahead: vec![9], recs: vec![(0, 1)] }])], salt: 0 };
    let p = prog(None, vec![lk(6, 0, None, vec![chain]), lk(1, 0, None, vec![single(&[1], &[4])])], vec![vec![0]], None);
    check("backtrack-nearest-first", &p, &[tagn(0)], None, &[8, 7, 1, 9], &[(8, "a"), (7, "b"), (4, "c"), (9, "d")]);
    check("backtrack-wrong-order", &p, &[tagn(0)], None, &[7, 8, 1, 9], &[(7, "a"), (8, "b"), (1, "c"), (9, "d")]);
    check("lookahead-missing", &p, &[tagn(0)], None, &[8, 7, 1], &[(8, "a"), (7, "b"), (1, "c")]);
    // V4 a mark filtering set skips only marks outside the set and supersedes the attachment type
    let s1 = Sub::Single1 { cov: cov(&[1, 5, 6]), delta: 10 };
    let p = prog(g.clone(), vec![lk(1, USE_MFS, Some(0), vec![s1.clone()])], vec![vec![0]], None);
    check("mark-filtering-set", &p, &[tagn(0)], None, &[1, 5, 6], &[(11, "a"), (15, "b"), (6, "c")]);
    let p = prog(g.clone(), vec![lk(1, USE_MFS | (2 << 8), Some(0), vec![s1.clone()])], vec![vec![0]], None);
    check("filtering-set-supersedes-attachment-type", &p, &[tagn(0)], None, &[1, 5, 6], &[(11, "a"), (15, "b"), (6, "c")]);
    let p = prog(g.clone(), vec![lk(1, 2 << 8, None, vec![s1.clone()])], vec![vec![0]], None);
    check("mark-attachment-type", &p, &[tagn(0)], None, &[1, 5, 6], &[(11, "a"), (5, "b"), (16, "c")]);
    let p = prog(g.clone(), vec![lk(1, IGNORE_MARKS | USE_MFS | (2 << 8), Some(0), vec![s1.clone()])], vec![vec![0]], None);
    check("ignore-marks-supersedes-all", &p, &[tagn(0)], None, &[1, 5, 6], &[(11, "a"), (5, "b"), (6, "c")]);
    let p = prog(g.clone(), vec![lk(1, IGNORE_BASE | IGNORE_LIG, None, vec![Sub::Single1 { cov: cov(&[1, 3, 5]), delta: 10 }])], vec![vec![0]], None);
    check("ignore-base-and-ligature", &p, &[tagn(0)], None, &[1, 3, 5], &[(1, "a"), (3, "b"), (15, "c")]);
    // V5 sequence indices refer to the sequence as modified by the preceding records
    let ctx = Sub::Ctx1 { cov: cov(&[1]), sets: vec![Some(vec![Rule { back: vec![], input: vec![2, 3], ahead: vec![], recs: vec![(0, 1), (1, 2)] }])], salt: 0 };
    let p = prog(
        None,
        vec![lk(5, 0, None, vec![ctx]), lk(4, 0, None, vec![Sub::Ligature { cov: cov(&[1]), sets: vec![vec![Lig { comps: vec![2], lig: 20 }]] }]), lk(1, 0, None, vec![single(&[3], &[30])])],
        vec![vec![0]],
        None,
    );
    check("nested-ligature-then-single", &p, &[tagn(0)], None, &[1, 2, 3, 1], &[(20, "ab"), (30, "c"), (1, "d")]);
    let ctx = Sub::Ctx3 { covs: vec![cov(&[1]), cov(&[3])], recs: vec![(0, 1), (2, 2)], salt: 0 };
    let p = prog(None, vec![lk(5, 0, None, vec![ctx]), lk(2, 0, None, vec![Sub::Multiple { cov: cov(&[1]), seqs: vec![vec![1, 7]] }]), lk(1, 0, None, vec![single(&[3], &[30])])], vec![vec![0]], None);
    check("nested-multiple-then-single", &p, &[tagn(0)], None, &[1, 3, 3], &[(1, "a"), (7, "a"), (30, "b"), (3, "c")]);
    // V5b a nested lookup matches with its own flags, not the invoking lookup's
    let g2 = gdef(&[(1, 1), (2, 1), (3, 2), (5, 3)], &[], vec![]);
    let ctx = Sub::Ctx1 { cov: cov(&[1]), sets: vec![Some(vec![Rule { back: vec![], input: vec![5, 2], ahead: vec![], recs: vec![(0, 1)] }])], salt: 0 };
    let nl = lk(4, IGNORE_MARKS, None, vec![Sub::Ligature { cov: cov(&[1]), sets: vec![vec![Lig { comps: vec![2], lig: 3 }]] }]);
    let p = prog(g2.clone(), vec![lk(5, 0, None, vec![ctx]), nl], vec![vec![0]], None);
    check("nested-ligature-own-flags-skip", &p, &[tagn(0)], None, &[1, 5, 2], &[(3, "ac"), (5, "b")]);
    let ctx = Sub::Ctx1 { cov: cov(&[1]), sets: vec![Some(vec![Rule { back: vec![], input: vec![2], ahead: vec![], recs: vec![(0, 1)] }])], salt: 0 };
    let nl = lk(4, 0, None, vec![Sub::Ligature { cov: cov(&[1]), sets: vec![vec![Lig { comps: vec![2], lig: 3 }]] }]);
    let p = prog(g2.clone(), vec![lk(5, IGNORE_MARKS, None, vec![ctx]), nl], vec![vec![0]], None);
    check("nested-ligature-own-flags-block", &p, &[tagn(0)], None, &[1, 5, 2], &[(1, "a"), (5, "b"), (2, "c")]);
    // V6 reverse chaining runs from the end of the run
    let rev = Sub::Rev { cov: cov(&[1]), back: vec![], ahead: vec![cov(&[2])], subst: vec![2], salt: 0 };
    let p = prog(None, vec![lk(8, 0, None, vec![rev])], vec![vec![0]], None);
    check("reverse-chain-right-to-left", &p, &[tagn(0)], None, &[1, 1, 2], &[(2, "a"), (2, "b"), (2, "c")]);
    // V7 multiple substitution replicates characters and resumes after the inserted glyphs
    let p = prog(None, vec![lk(2, 0, None, vec![Sub::Multiple { cov: cov(&[1]), seqs: vec![vec![1, 1]] }])], vec![vec![0]], None);
    check("multiple-resumes-after-output", &p, &[tagn(0)], None, &[1, 2], &[(1, "a"), (1, "a"), (2, "b")]);
    // V8 first subtable that covers the glyph wins; a ligature subtable that covers but does not match does not
    let p = prog(None, vec![lk(1, 0, None, vec![single(&[1], &[2]), single(&[1], &[3])])], vec![vec![0]], None);
    check("first-subtable-wins", &p, &[tagn(0)], None, &[1], &[(2, "a")]);
    let l1 = Sub::Ligature { cov: cov(&[1]), sets: vec![vec![Lig { comps: vec![9], lig: 3 }]] };
    let l2 = Sub::Ligature { cov: cov(&[1]), sets: vec![vec![Lig { comps: vec![2], lig: 4 }]] };
    let p = prog(None, vec![lk(4, 0, None, vec![l1, l2])], vec![vec![0]], None);
    check("next-subtable-when-no-ligature-matches", &p, &[tagn(0)], None, &[1, 2], &[(4, "ab")]);
    // V9 class 0 = every glyph not in the class definition, also as the first glyph of a rule
    let cd = ClassDef::new([(2u16, 1u16)].into_iter().collect(), 2, 0);
    let c2 = Sub::Ctx2 { cov: cov(&[1, 2]), cd, sets: vec![Some(vec![Rule { back: vec![], input: vec![1], ahead: vec![], recs: vec![(0, 1)] }]), None], salt: 0 };
    let p = prog(None, vec![lk(5, 0, None, vec![c2]), lk(1, 0, None, vec![single(&[1], &[9])])], vec![vec![0]], None);
    check("class-zero-first-glyph", &p, &[tagn(0)], None, &[1, 2, 2, 1], &[(9, "a"), (2, "b"), (2, "c"), (1, "d")]);
    // V10 feature variations: first matching record, inclusive range ends, substitute feature table
    let fv = vec![FvRecord { conds: Some(vec![Cond { axis: 0, min: 0, max: 8192 }]), substs: Some(vec![(0, vec![1])]) }];
    let p = prog(None, vec![lk(1, 0, None, vec![single(&[1], &[2])]), lk(1, 0, None, vec![single(&[1], &[3])])], vec![vec![0]], Some(fv));
    check("feature-variation-inside", &p, &[tagn(0)], Some(&[8192i16][..]), &[1], &[(3, "a")]);
    check("feature-variation-outside", &p, &[tagn(0)], Some(&[8193i16][..]), &[1], &[(2, "a")]);
    check("feature-variation-lower-edge", &p, &[tagn(0)], Some(&[0i16][..]), &[1], &[(3, "a")]);
    check("feature-variation-below", &p, &[tagn(0)], Some(&[-1i16][..]), &[1], &[(2, "a")]);
    // V11 the first matching record is final even when it substitutes nothing
    let mk = |recs: Vec<FvRecord>| prog(None, vec![lk(1, 0, None, vec![single(&[1], &[2])]), lk(1, 0, None, vec![single(&[1], &[3])])], vec![vec![0]], Some(recs));
    let inside = Cond { axis: 0, min: 0, max: 8192 };
    let p = mk(vec![FvRecord { conds: Some(vec![inside.clone()]), substs: None }, FvRecord { conds: Some(vec![inside.clone()]), substs: Some(vec![(0, vec![1])]) }]);
    check("null-substitution-is-final", &p, &[tagn(0)], Some(&[100i16][..]), &[1], &[(2, "a")]);
    check("null-substitution-not-matching", &p, &[tagn(0)], Some(&[-5i16][..]), &[1], &[(2, "a")]);
    let p = mk(vec![FvRecord { conds: Some(vec![Cond { axis: 0, min: 4000, max: 8192 }]), substs: None }, FvRecord { conds: Some(vec![inside.clone()]), substs: Some(vec![(0, vec![1])]) }]);
    check("second-record-when-first-does-not-match", &p, &[tagn(0)], Some(&[100i16][..]), &[1], &[(3, "a")]);
    check("first-record-null-shadows-second", &p, &[tagn(0)], Some(&[5000i16][..]), &[1], &[(2, "a")]);
    let p = mk(vec![FvRecord { conds: Some(vec![inside.clone()]), substs: Some(vec![]) }, FvRecord { conds: None, substs: Some(vec![(0, vec![1])]) }]);
    check("empty-substitution-table-is-final", &p, &[tagn(0)], Some(&[100i16][..]), &[1], &[(2, "a")]);
    check("null-condition-set-matches-everything", &p, &[tagn(0)], Some(&[-16384i16][..]), &[1], &[(3, "a")]);
    let p = mk(vec![FvRecord { conds: Some(vec![]), substs: Some(vec![(0, vec![1])]) }]);
    check("empty-condition-set-matches-everything", &p, &[tagn(0)], Some(&[-16384i16][..]), &[1], &[(3, "a")]);
    let p = mk(vec![FvRecord { conds: Some(vec![inside.clone(), Cond { axis: 0, min: 50, max: 60 }]), substs: Some(vec![(0, vec![1])]) }]);
    check("conditions-are-conjunctive", &p, &[tagn(0)], Some(&[100i16][..]), &[1], &[(2, "a")]);
    check("conditions-all-hold", &p, &[tagn(0)], Some(&[55i16][..]), &[1], &[(3, "a")]);
    drop(check);
    fails
}
