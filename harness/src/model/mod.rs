//! Reference models evaluated on generator ASTs (never on bytes, never calling allsorts).
pub mod gsub_c04;
