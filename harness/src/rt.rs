//! Run-time monitors and plumbing shared by every workload: PRNG, JSON, panic monitor,
//! allocation monitor, CPU-time monitor, case journal, verdict/evidence collection.

use std::cell::RefCell;
use std::collections::{BTreeMap, HashSet};
use std::fmt::Write as _;
use std::io::Write as _;
use std::panic::{self, AssertUnwindSafe};
use std::sync::atomic::{AtomicBool, AtomicU64, AtomicUsize, Ordering};

// ---------------------------------------------------------------------------------------------
// PRNG (splitmix64 seeding an xoshiro256**)
// ---------------------------------------------------------------------------------------------

pub fn splitmix(x: &mut u64) -> u64 {
    *x = x.wrapping_add(0x9E37_79B9_7F4A_7C15);
    let mut z = *x;
    z = (z ^ (z >> 30)).wrapping_mul(0xBF58_476D_1CE4_E5B9);
    z = (z ^ (z >> 27)).wrapping_mul(0x94D0_49BB_1331_11EB);
    z ^ (z >> 31)
}

pub fn mix(a: u64, b: u64) -> u64 {
    let mut x = a ^ b.wrapping_mul(0xD6E8_FEB8_6659_FD93).rotate_left(17);
    splitmix(&mut x)
}

pub fn hash_bytes(data: &[u8]) -> u64 {
    // FNV-1a 64 followed by a finaliser; only used for de-duplication.
    let mut h: u64 = 0xcbf2_9ce4_8422_2325;
    for &b in data {
        h ^= b as u64;
        h = h.wrapping_mul(0x0000_0100_0000_01B3);
    }
    let mut x = h;
    splitmix(&mut x)
}

pub fn hash_str(s: &str) -> u64 {
    hash_bytes(s.as_bytes())
}

#[derive(Clone)]
pub struct Rng {
    s: [u64; 4],
}

impl Rng {
    pub fn new(seed: u64) -> Rng {
        let mut x = seed;
        Rng {
            s: [
                splitmix(&mut x),
                splitmix(&mut x),
                splitmix(&mut x),
                splitmix(&mut x),
            ],
        }
    }
    pub fn u64(&mut self) -> u64 {
        let result = self.s[1].wrapping_mul(5).rotate_left(7).wrapping_mul(9);
        let t = self.s[1] << 17;
        self.s[2] ^= self.s[0];
        self.s[3] ^= self.s[1];
        self.s[1] ^= self.s[2];
        self.s[0] ^= self.s[3];
        self.s[2] ^= t;
        self.s[3] = self.s[3].rotate_left(45);
        result
    }
    pub fn u32(&mut self) -> u32 {
        (self.u64() >> 32) as u32
    }
    pub fn u16(&mut self) -> u16 {
        (self.u64() >> 48) as u16
    }
    pub fn u8(&mut self) -> u8 {
        (self.u64() >> 56) as u8
    }
    /// uniform in 0..n (n > 0)
    pub fn below(&mut self, n: usize) -> usize {
        debug_assert!(n > 0);
        ((self.u64() as u128 * n as u128) >> 64) as usize
    }
    /// uniform in lo..=hi
    pub fn range(&mut self, lo: i64, hi: i64) -> i64 {
        debug_assert!(lo <= hi);
        let span = (hi as i128 - lo as i128 + 1) as u128;
        lo + ((self.u64() as u128 * span) >> 64) as i64
    }
    pub fn urange(&mut self, lo: usize, hi: usize) -> usize {
        self.range(lo as i64, hi as i64) as usize
    }
    /// true with probability num/den
    pub fn chance(&mut self, num: u32, den: u32) -> bool {
        (self.below(den as usize) as u32) < num
    }
    pub fn bool(&mut self) -> bool {
        self.u64() & 1 == 1
    }
    pub fn pick<'a, T>(&mut self, xs: &'a [T]) -> &'a T {
        &xs[self.below(xs.len())]
    }
    pub fn bytes(&mut self, n: usize) -> Vec<u8> {
        (0..n).map(|_| self.u8()).collect()
    }
    pub fn shuffle<T>(&mut self, xs: &mut [T]) {
        for i in (1..xs.len()).rev() {
            let j = self.below(i + 1);
            xs.swap(i, j);
        }
    }
    /// small numbers are much more likely than large ones
    pub fn small(&mut self, max: usize) -> usize {
        if max == 0 {
            return 0;
        }
        let bits = 64 - (max as u64).leading_zeros();
        let b = self.below(bits as usize + 1);
        let m = if b >= 63 { u64::MAX } else { (1u64 << b) - 1 };
        ((self.u64() & m) as usize).min(max)
    }
    pub fn fork(&mut self) -> Rng {
        Rng::new(self.u64())
    }
}

// ---------------------------------------------------------------------------------------------
// JSON (writer only)
// ---------------------------------------------------------------------------------------------

#[derive(Clone, Debug)]
pub enum J {
    Null,
    Bool(bool),
    I(i64),
    U(u64),
    F(f64),
    S(String),
    A(Vec<J>),
    O(Vec<(String, J)>),
}

impl J {
    pub fn s(x: impl Into<String>) -> J {
        J::S(x.into())
    }
    pub fn obj(items: Vec<(&str, J)>) -> J {
        J::O(items.into_iter().map(|(k, v)| (k.to_string(), v)).collect())
    }
    pub fn hex(data: &[u8]) -> J {
        let mut s = String::with_capacity(data.len() * 2);
        for b in data {
            let _ = write!(s, "{:02x}", b);
        }
        J::S(s)
    }
    pub fn render(&self, out: &mut String) {
        match self {
            J::Null => out.push_str("null"),
            J::Bool(b) => out.push_str(if *b { "true" } else { "false" }),
            J::I(i) => {
                let _ = write!(out, "{}", i);
            }
            J::U(u) => {
                let _ = write!(out, "{}", u);
            }
            J::F(f) => {
                if f.is_finite() {
                    let _ = write!(out, "{}", f);
                } else {
                    let _ = write!(out, "\"{}\"", f);
                }
            }
            J::S(s) => {
                out.push('"');
                for c in s.chars() {
                    match c {
                        '"' => out.push_str("\\\""),
                        '\\' => out.push_str("\\\\"),
                        '\n' => out.push_str("\\n"),
                        '\r' => out.push_str("\\r"),
                        '\t' => out.push_str("\\t"),
                        c if (c as u32) < 0x20 || (c as u32) == 0x7f => {
                            let _ = write!(out, "\\u{:04x}", c as u32);
                        }
                        c if (c as u32) > 0x7e => {
                            let mut buf = [0u16; 2];
                            for u in c.encode_utf16(&mut buf) {
                                let _ = write!(out, "\\u{:04x}", u);
                            }
                        }
                        c => out.push(c),
                    }
                }
                out.push('"');
            }
            J::A(a) => {
                out.push('[');
                for (i, x) in a.iter().enumerate() {
                    if i > 0 {
                        out.push(',');
                    }
                    x.render(out);
                }
                out.push(']');
            }
            J::O(o) => {
                out.push('{');
                for (i, (k, v)) in o.iter().enumerate() {
                    if i > 0 {
                        out.push(',');
                    }
                    J::S(k.clone()).render(out);
                    out.push(':');
                    v.render(out);
                }
                out.push('}');
            }
        }
    }
    pub fn to_string(&self) -> String {
        let mut s = String::new();
        self.render(&mut s);
        s
    }
}

pub fn hex_decode(s: &str) -> Option<Vec<u8>> {
    if s.len() % 2 != 0 {
        return None;
    }
    (0..s.len() / 2)
        .map(|i| u8::from_str_radix(&s[2 * i..2 * i + 2], 16).ok())
        .collect()
}

// ---------------------------------------------------------------------------------------------
// Allocation monitor
// ---------------------------------------------------------------------------------------------

pub static ALLOC_CUR: AtomicUsize = AtomicUsize::new(0);
pub static ALLOC_PEAK: AtomicUsize = AtomicUsize::new(0);
pub static ALLOC_BIGGEST: AtomicUsize = AtomicUsize::new(0);
/// a single request above this is refused (=> abort, attributed by the supervisor)
pub static ALLOC_LIMIT: AtomicUsize = AtomicUsize::new(usize::MAX);

#[cfg(feature = "track-alloc")]
mod alloc_impl {
    use super::*;
    use std::alloc::{GlobalAlloc, Layout, System};

    pub struct Tracking;

    #[inline]
    fn note_alloc(size: usize) {
        let cur = ALLOC_CUR.fetch_add(size, Ordering::Relaxed) + size;
        if cur > ALLOC_PEAK.load(Ordering::Relaxed) {
            ALLOC_PEAK.store(cur, Ordering::Relaxed);
        }
        if size > ALLOC_BIGGEST.load(Ordering::Relaxed) {
            ALLOC_BIGGEST.store(size, Ordering::Relaxed);
        }
    }

    fn refuse(size: usize) {
        // no allocation allowed in here
        let mut buf = [0u8; 64];
        let prefix = b"\nVERIF-ALLOC-REFUSED ";
        let mut n = 0;
        for &b in prefix {
            buf[n] = b;
            n += 1;
        }
        let mut digits = [0u8; 24];
        let mut d = 0;
        let mut v = size;
        loop {
            digits[d] = b'0' + (v % 10) as u8;
            d += 1;
            v /= 10;
            if v == 0 {
                break;
            }
        }
        while d > 0 {
            d -= 1;
            buf[n] = digits[d];
            n += 1;
        }
        buf[n] = b'\n';
        n += 1;
        unsafe {
            libc::write(2, buf.as_ptr() as *const libc::c_void, n);
        }
    }

    unsafe impl GlobalAlloc for Tracking {
        unsafe fn alloc(&self, layout: Layout) -> *mut u8 {
            if layout.size() > ALLOC_LIMIT.load(Ordering::Relaxed) {
                refuse(layout.size());
                return std::ptr::null_mut();
            }
            let p = System.alloc(layout);
            if !p.is_null() {
                note_alloc(layout.size());
            }
            p
        }
        unsafe fn alloc_zeroed(&self, layout: Layout) -> *mut u8 {
            if layout.size() > ALLOC_LIMIT.load(Ordering::Relaxed) {
                refuse(layout.size());
                return std::ptr::null_mut();
            }
            let p = System.alloc_zeroed(layout);
            if !p.is_null() {
                note_alloc(layout.size());
            }
            p
        }
        unsafe fn dealloc(&self, ptr: *mut u8, layout: Layout) {
            ALLOC_CUR.fetch_sub(layout.size(), Ordering::Relaxed);
            System.dealloc(ptr, layout)
        }
        unsafe fn realloc(&self, ptr: *mut u8, layout: Layout, new_size: usize) -> *mut u8 {
            if new_size > ALLOC_LIMIT.load(Ordering::Relaxed) {
                refuse(new_size);
                return std::ptr::null_mut();
            }
            let p = System.realloc(ptr, layout, new_size);
            if !p.is_null() {
                ALLOC_CUR.fetch_sub(layout.size(), Ordering::Relaxed);
                note_alloc(new_size);
            }
            p
        }
    }

    #[global_allocator]
    static GLOBAL: Tracking = Tracking;
}

pub fn alloc_tracking_enabled() -> bool {
    cfg!(feature = "track-alloc")
}

// ---------------------------------------------------------------------------------------------
// CPU time
// ---------------------------------------------------------------------------------------------

pub fn thread_cpu_ns() -> u64 {
    #[cfg(not(miri))]
    unsafe {
        let mut ts = libc::timespec {
            tv_sec: 0,
            tv_nsec: 0,
        };
        libc::clock_gettime(libc::CLOCK_THREAD_CPUTIME_ID, &mut ts);
        ts.tv_sec as u64 * 1_000_000_000 + ts.tv_nsec as u64
    }
    #[cfg(miri)]
    {
        0
    }
}

pub fn process_cpu_ns() -> u64 {
    #[cfg(not(miri))]
    unsafe {
        let mut ts = libc::timespec {
            tv_sec: 0,
            tv_nsec: 0,
        };
        libc::clock_gettime(libc::CLOCK_PROCESS_CPUTIME_ID, &mut ts);
        ts.tv_sec as u64 * 1_000_000_000 + ts.tv_nsec as u64
    }
    #[cfg(miri)]
    {
        0
    }
}

pub fn set_rlimit_as(bytes: u64) {
    #[cfg(not(miri))]
    unsafe {
        let lim = libc::rlimit {
            rlim_cur: bytes,
            rlim_max: bytes,
        };
        libc::setrlimit(libc::RLIMIT_AS, &lim);
    }
    #[cfg(miri)]
    {
        let _ = bytes;
    }
}

// ---------------------------------------------------------------------------------------------
// Panic monitor
// ---------------------------------------------------------------------------------------------

#[derive(Clone, Debug, Default)]
pub struct PanicInfo {
    pub message: String,
    pub location: String,
    /// innermost `allsorts::` frame (demangled, hash stripped) or "" when there is none
    pub site: String,
    pub backtrace: Vec<String>,
}

thread_local! {
    static LAST_PANIC: RefCell<Option<PanicInfo>> = RefCell::new(None);
}
static QUIET_PANICS: AtomicBool = AtomicBool::new(true);

fn strip_hash(sym: &str) -> String {
    // remove trailing ::h0123456789abcdef
    if let Some(pos) = sym.rfind("::h") {
        let tail = &sym[pos + 3..];
        if tail.len() == 16 && tail.chars().all(|c| c.is_ascii_hexdigit()) {
            return sym[..pos].to_string();
        }
    }
    sym.to_string()
}

fn frames_from_backtrace(bt: &str) -> Vec<String> {
    // Lines look like "  12: allsorts::font::Font<T>::cmap_subtable_data" / "             at /repo/src/font.rs:854:10"
    let mut frames = Vec::new();
    for line in bt.lines() {
        let t = line.trim_start();
        if let Some(colon) = t.find(": ") {
            if t[..colon].chars().all(|c| c.is_ascii_digit()) && colon > 0 {
                frames.push(strip_hash(t[colon + 2..].trim()));
            }
        }
    }
    frames
}

pub fn install_panic_hook() {
    panic::set_hook(Box::new(|info| {
        let message = if let Some(s) = info.payload().downcast_ref::<&str>() {
            s.to_string()
        } else if let Some(s) = info.payload().downcast_ref::<String>() {
            s.clone()
        } else {
            "<non-string panic payload>".to_string()
        };
        let location = info
            .location()
            .map(|l| format!("{}:{}", l.file(), l.line()))
            .unwrap_or_default();
        let (site, frames) = if cfg!(miri) {
            (String::new(), Vec::new())
        } else {
            let bt = std::backtrace::Backtrace::force_capture().to_string();
            let frames = frames_from_backtrace(&bt);
            let site = frames
                .iter()
                .find(|f| {
                    (f.starts_with("allsorts::") || f.starts_with("<allsorts::"))
                        && !f.contains("allsorts::verif::")
                })
                .cloned()
                .unwrap_or_default();
            let keep: Vec<String> = frames
                .iter()
                .filter(|f| f.contains("allsorts::") || f.contains("vh::"))
                .take(12)
                .cloned()
                .collect();
            (site, keep)
        };
        if !QUIET_PANICS.load(Ordering::Relaxed) {
            eprintln!("panic: {} at {} [{}]", message, location, site);
        }
        LAST_PANIC.with(|p| {
            *p.borrow_mut() = Some(PanicInfo {
                message,
                location,
                site,
                backtrace: frames,
            })
        });
    }));
}

pub fn set_quiet_panics(q: bool) {
    QUIET_PANICS.store(q, Ordering::Relaxed);
}

pub fn take_last_panic() -> Option<PanicInfo> {
    LAST_PANIC.with(|p| p.borrow_mut().take())
}

/// Replace every maximal digit run by `N` so that messages are stable across inputs.
pub fn normalise_digits(s: &str) -> String {
    let mut out = String::with_capacity(s.len());
    let mut in_digits = false;
    for c in s.chars() {
        if c.is_ascii_digit() {
            if !in_digits {
                out.push('N');
            }
            in_digits = true;
        } else {
            in_digits = false;
            out.push(c);
        }
    }
    out
}

/// Strip generic arguments and closure markers: `a::B<T>::c::{{closure}}` -> `a::B::c`.
pub fn normalise_symbol(sym: &str) -> String {
    let mut out = String::new();
    let mut depth = 0usize;
    for c in sym.chars() {
        match c {
            '<' => depth += 1,
            '>' => depth = depth.saturating_sub(1),
            _ if depth == 0 => out.push(c),
            _ => {}
        }
    }
    let out = out.replace("::{{closure}}", "").replace("::{closure#0}", "");
    if out.trim().is_empty() {
        // everything was inside <...> (trait impl frames like `<T as Trait>::f`)
        sym.to_string()
    } else {
        out
    }
}

pub fn is_harness_panic(p: &PanicInfo) -> bool {
    // A panic with no allsorts frame, raised from harness source, is a bug in the harness.
    p.location.contains("/verif/harness/") || p.location.contains("/harness/src/") || p.location.starts_with("src/")
}

/// Name of the function enclosing `file:line` in the allsorts sources (stable under line shifts
/// and independent of inlining). Falls back on the bare file name.
pub fn enclosing_fn(location: &str) -> String {
    let (file, line) = match location.rsplit_once(':') {
        Some((f, l)) => (f.to_string(), l.parse::<usize>().unwrap_or(0)),
        None => (location.to_string(), 0),
    };
    let short = file.strip_prefix("/repo/").unwrap_or(&file).to_string();
    if !file.starts_with("/repo/") || line == 0 {
        return short;
    }
    if let Ok(src) = std::fs::read_to_string(&file) {
        let lines: Vec<&str> = src.lines().collect();
        let mut i = line.min(lines.len());
        while i > 0 {
            i -= 1;
            let t = lines[i].trim_start();
            if let Some(pos) = t.find("fn ") {
                let before = &t[..pos];
                let is_decl = before
                    .split_whitespace()
                    .all(|w| matches!(w, "pub" | "unsafe" | "const" | "async" | "extern" | "\"C\"") || w.starts_with("pub("));
                if is_decl && !t.starts_with("//") {
                    let name: String = t[pos + 3..]
                        .chars()
                        .take_while(|c| c.is_alphanumeric() || *c == '_')
                        .collect();
                    if !name.is_empty() {
                        return format!("{}::{}", short, name);
                    }
                }
            }
        }
    }
    short
}

pub fn panic_sig(p: &PanicInfo) -> String {
    let site = if p.location.starts_with("/repo/") {
        enclosing_fn(&p.location)
    } else if !p.site.is_empty() {
        normalise_symbol(&p.site)
    } else {
        enclosing_fn(&p.location)
    };
    if p.message.starts_with("VERIF-OOB") {
        // the hook fires inside read.rs; the interesting site is the first caller outside it
        let caller = p
            .backtrace
            .iter()
            .find(|f| f.contains("allsorts::") && !f.contains("allsorts::binary::read") && !f.contains("allsorts::verif"))
            .map(|f| normalise_symbol(f))
            .unwrap_or_default();
        return format!("oob-hook@{}", caller);
    }
    format!("{}|{}", site, normalise_digits(&p.message))
}

// ---------------------------------------------------------------------------------------------
// Case context: verdicts, classes, samples
// ---------------------------------------------------------------------------------------------

#[derive(Copy, Clone, Debug, PartialEq, Eq)]
pub enum Tier {
    Quick,
    Thorough,
}

pub struct Ctx {
    pub prop: String,
    pub tier: Tier,
    pub mode: String,
    pub evals: u64,
    pub case_seed: u64,
    pub case_index: u64,
    pub classes: BTreeMap<String, u64>,
    pub nontrivial: HashSet<u64>,
    pub samples: Vec<J>,
    pub max_samples: usize,
    pub inconclusive: BTreeMap<String, u64>,
    pub violations: u64,
    pub viol_sigs: BTreeMap<String, u64>,
    pub out: Option<std::fs::File>,
    pub replay_dir: Option<std::path::PathBuf>,
    pub verbose: bool,
    /// CPU-time bound for guarded calls: base + per_byte * len
    pub cpu_base_ns: u64,
    pub cpu_per_byte_ns: u64,
    pub mem_base: usize,
    pub mem_per_byte: usize,
    pub max_viol_per_sig: u64,
}

pub static CASE_START_CPU: AtomicU64 = AtomicU64::new(0);

impl Ctx {
    pub fn new(prop: &str, tier: Tier) -> Ctx {
        Ctx {
            prop: prop.to_string(),
            tier,
            mode: String::new(),
            evals: 0,
            case_seed: 0,
            case_index: 0,
            classes: BTreeMap::new(),
            nontrivial: HashSet::new(),
            samples: Vec::new(),
            max_samples: 4,
            inconclusive: BTreeMap::new(),
            violations: 0,
            viol_sigs: BTreeMap::new(),
            out: None,
            replay_dir: None,
            verbose: false,
            cpu_base_ns: 4_000_000_000,
            cpu_per_byte_ns: 40_000,
            mem_base: 256 << 20,
            mem_per_byte: 512,
            max_viol_per_sig: 3,
        }
    }

    pub fn quick(&self) -> bool {
        self.tier == Tier::Quick
    }

    pub fn class(&mut self, name: &str) {
        *self.classes.entry(name.to_string()).or_insert(0) += 1;
    }
    pub fn class_n(&mut self, name: &str, n: u64) {
        *self.classes.entry(name.to_string()).or_insert(0) += n;
    }
    pub fn nontrivial(&mut self, hash: u64) {
        self.nontrivial.insert(hash);
    }
    pub fn inconclusive(&mut self, reason: &str) {
        *self.inconclusive.entry(reason.to_string()).or_insert(0) += 1;
    }
    pub fn want_sample(&self) -> bool {
        self.samples.len() < self.max_samples
    }
    pub fn sample(&mut self, j: J) {
        if self.samples.len() < self.max_samples {
            self.samples.push(j);
        }
    }

    fn emit(&mut self, j: &J) {
        let line = j.to_string();
        if let Some(f) = self.out.as_mut() {
            let _ = writeln!(f, "{}", line);
            let _ = f.flush();
        } else {
            println!("{}", line);
        }
    }

    /// Report a violation of the running property. `sig` identifies the defect class (used for
    /// known-finding reconciliation and de-duplication); `detail` is the witness.
    pub fn violation(&mut self, rule: &str, sig: &str, detail: J) {
        self.violations += 1;
        let key = format!("{}|{}", rule, sig);
        let n = self.viol_sigs.entry(key).or_insert(0);
        *n += 1;
        if *n > self.max_viol_per_sig {
            return;
        }
        let j = J::obj(vec![
            ("t", J::s("viol")),
            ("prop", J::s(self.prop.clone())),
            ("rule", J::s(rule)),
            ("sig", J::s(sig)),
            ("mode", J::s(self.mode.clone())),
            ("case_seed", J::s(format!("{:016x}", self.case_seed))),
            ("case_index", J::U(self.case_index)),
            ("detail", detail),
        ]);
        if self.verbose {
            eprintln!("VIOL {}", j.to_string());
        }
        self.emit(&j);
    }

    pub fn panic_violation(&mut self, what: &str, p: &PanicInfo, extra: J) {
        let rule = if p.message.starts_with("VERIF-OOB") {
            "oob-read"
        } else {
            "panic"
        };
        let sig = panic_sig(p);
        self.violation(
            rule,
            &sig,
            J::obj(vec![
                ("during", J::s(what)),
                ("message", J::s(p.message.clone())),
                ("location", J::s(p.location.clone())),
                ("site", J::s(p.site.clone())),
                (
                    "backtrace",
                    J::A(p.backtrace.iter().map(|s| J::s(s.clone())).collect()),
                ),
                ("extra", extra),
            ]),
        );
    }

    /// Run `f` under the panic / CPU-time / memory monitors. Returns None if it panicked (the
    /// violation has been recorded). `len` = size of the untrusted input the call consumes.
    pub fn guard<R>(&mut self, what: &str, len: usize, f: impl FnOnce() -> R) -> Option<R> {
        let t0 = thread_cpu_ns();
        let base_live = ALLOC_CUR.load(Ordering::Relaxed);
        ALLOC_PEAK.store(base_live, Ordering::Relaxed);
        ALLOC_BIGGEST.store(0, Ordering::Relaxed);
        let r = panic::catch_unwind(AssertUnwindSafe(f));
        let dt = thread_cpu_ns().saturating_sub(t0);
        let peak = ALLOC_PEAK
            .load(Ordering::Relaxed)
            .saturating_sub(base_live);
        if dt > self.cpu_base_ns + self.cpu_per_byte_ns * len as u64 {
            self.violation(
                "cpu-time",
                what,
                J::obj(vec![
                    ("during", J::s(what)),
                    ("cpu_ms", J::U(dt / 1_000_000)),
                    ("input_len", J::U(len as u64)),
                ]),
            );
        }
        if alloc_tracking_enabled() && peak > self.mem_base + self.mem_per_byte * len {
            self.violation(
                "mem-peak",
                what,
                J::obj(vec![
                    ("during", J::s(what)),
                    ("peak_bytes", J::U(peak as u64)),
                    (
                        "biggest_request",
                        J::U(ALLOC_BIGGEST.load(Ordering::Relaxed) as u64),
                    ),
                    ("input_len", J::U(len as u64)),
                ]),
            );
        }
        match r {
            Ok(v) => Some(v),
            Err(_) => {
                let p = take_last_panic().unwrap_or_default();
                if is_harness_panic(&p) {
                    self.inconclusive("harness-panic");
                    eprintln!(
                        "HARNESS-PANIC during {} (case {:016x}): {} at {}",
                        what, self.case_seed, p.message, p.location
                    );
                } else {
                    self.panic_violation(what, &p, J::Null);
                }
                None
            }
        }
    }

    pub fn stats_json(&self, wall_s: f64) -> J {
        let hooks = allsorts::verif::snapshot();
        J::obj(vec![
            ("t", J::s("stats")),
            ("prop", J::s(self.prop.clone())),
            ("mode", J::s(self.mode.clone())),
            ("evals", J::U(self.evals)),
            ("nontrivial", J::U(self.nontrivial.len() as u64)),
            ("violations", J::U(self.violations)),
            (
                "classes",
                J::O(self
                    .classes
                    .iter()
                    .map(|(k, v)| (k.clone(), J::U(*v)))
                    .collect()),
            ),
            (
                "inconclusive",
                J::O(self
                    .inconclusive
                    .iter()
                    .map(|(k, v)| (k.clone(), J::U(*v)))
                    .collect()),
            ),
            ("samples", J::A(self.samples.clone())),
            ("hook_reads", J::U(hooks.reads)),
            ("hook_read_bytes", J::U(hooks.read_bytes)),
            (
                "hook_events",
                J::O(hooks
                    .events
                    .iter()
                    .map(|(k, v)| (k.to_string(), J::U(*v)))
                    .collect()),
            ),
            ("wall_s", J::F(wall_s)),
        ])
    }

    pub fn finish(&mut self, wall_s: f64, hashes_path: Option<&std::path::Path>) {
        let j = self.stats_json(wall_s);
        self.emit(&j);
        if let Some(p) = hashes_path {
            let mut buf = Vec::with_capacity(self.nontrivial.len() * 8);
            for h in &self.nontrivial {
                buf.extend_from_slice(&h.to_le_bytes());
            }
            let _ = std::fs::write(p, buf);
        }
    }
}

// ---------------------------------------------------------------------------------------------
// Seed corpus helpers
// ---------------------------------------------------------------------------------------------

pub fn list_files(dir: &str, exts: &[&str]) -> Vec<std::path::PathBuf> {
    let mut out = Vec::new();
    fn walk(d: &std::path::Path, exts: &[&str], out: &mut Vec<std::path::PathBuf>) {
        if let Ok(rd) = std::fs::read_dir(d) {
            let mut entries: Vec<_> = rd.filter_map(|e| e.ok()).map(|e| e.path()).collect();
            entries.sort();
            for p in entries {
                if p.is_dir() {
                    walk(&p, exts, out);
                } else if let Some(e) = p.extension().and_then(|e| e.to_str()) {
                    if exts.iter().any(|x| x.eq_ignore_ascii_case(e)) {
                        out.push(p);
                    }
                }
            }
        }
    }
    walk(std::path::Path::new(dir), exts, &mut out);
    out
}

pub const FONT_EXTS: &[&str] = &["ttf", "otf", "ttc", "woff", "woff2", "otc"];

pub struct SeedFont {
    pub name: String,
    pub data: Vec<u8>,
}

/// Non-empty font files below /repo/tests (read at run time, nothing copied).
pub fn load_seed_fonts(max_len: usize, include_aots: bool) -> Vec<SeedFont> {
    let mut v = Vec::new();
    let mut dirs = vec!["/repo/tests/fonts"];
    if include_aots {
        dirs.push("/repo/tests/aots");
    }
    for d in dirs {
        for p in list_files(d, FONT_EXTS) {
            if let Ok(data) = std::fs::read(&p) {
                if data.len() >= 12 && data.len() <= max_len {
                    v.push(SeedFont {
                        name: p
                            .strip_prefix("/repo/tests")
                            .unwrap_or(&p)
                            .to_string_lossy()
                            .to_string(),
                        data,
                    });
                }
            }
        }
    }
    v
}
