//! Independent WOFF2 encoder written from the W3C WOFF2 text: directory with known/arbitrary tags,
//! glyf/loca and hmtx transforms with every encoder choice, collections, and a *stored* brotli
//! stream (uncompressed meta-blocks are conforming brotli; no compressor exists in this sandbox).

use super::glyf::{self as ig, Glyph};
use super::{tag, W};
use crate::rt::Rng;

pub const KNOWN_TAGS: [&str; 63] = [
    "cmap", "head", "hhea", "hmtx", "maxp", "name", "OS/2", "post", "cvt ", "fpgm", "glyf", "loca", "prep", "CFF ", "VORG",
    "EBDT", "EBLC", "gasp", "hdmx", "kern", "LTSH", "PCLT", "VDMX", "vhea", "vmtx", "BASE", "GDEF", "GPOS", "GSUB", "EBSC",
    "JSTF", "MATH", "CBDT", "CBLC", "COLR", "CPAL", "SVG ", "sbix", "acnt", "avar", "bdat", "bloc", "bsln", "cvar", "fdsc",
    "feat", "fmtx", "fvar", "gvar", "hsty", "just", "lcar", "mort", "morx", "opbd", "prop", "trak", "Zapf", "Silf", "Glat",
    "Gloc", "Feat", "Sill",
];

// ---- stored brotli ------------------------------------------------------------------------------

struct BitW {
    out: Vec<u8>,
    acc: u64,
    n: u32,
}
impl BitW {
    fn new() -> BitW {
        BitW { out: Vec::new(), acc: 0, n: 0 }
    }
    fn bits(&mut self, v: u64, n: u32) {
        self.acc |= v << self.n;
        self.n += n;
        while self.n >= 8 {
            self.out.push(self.acc as u8);
            self.acc >>= 8;
            self.n -= 8;
        }
    }
    fn align(&mut self) {
        if self.n > 0 {
            self.out.push(self.acc as u8);
            self.acc = 0;
            self.n = 0;
        }
    }
}

/// A conforming brotli stream consisting of uncompressed meta-blocks of at most `chunk` bytes.
pub fn stored_brotli(data: &[u8], chunk: usize) -> Vec<u8> {
    let chunk = chunk.clamp(1, 65536);
    let mut w = BitW::new();
    w.bits(0, 1); // WBITS = 16
    for c in data.chunks(chunk) {
        w.bits(0, 1); // ISLAST = 0
        w.bits(0, 2); // MNIBBLES = 4
        w.bits((c.len() - 1) as u64, 16); // MLEN - 1
        w.bits(1, 1); // ISUNCOMPRESSED
        w.align();
        w.out.extend_from_slice(c);
    }
    w.bits(1, 1); // ISLAST
    w.bits(1, 1); // ISLASTEMPTY
    w.align();
    w.out
}

// ---- variable-length integers -----------------------------------------------------------------------

/// All legal 255UInt16 encodings of `v`.
pub fn enc_255_all(v: u16) -> Vec<Vec<u8>> {
    let mut out = Vec::new();
    if v < 253 {
        out.push(vec![v as u8]);
    }
    if (253..=508).contains(&v) {
        out.push(vec![255, (v - 253) as u8]);
    }
    if (506..=761).contains(&v) {
        out.push(vec![254, (v - 506) as u8]);
    }
    out.push(vec![253, (v >> 8) as u8, v as u8]);
    out
}
pub fn enc_255(v: u16, rng: &mut Rng) -> Vec<u8> {
    let all = enc_255_all(v);
    // prefer the short forms but use every form
    if rng.chance(3, 4) {
        all[0].clone()
    } else {
        all[rng.below(all.len())].clone()
    }
}

pub fn enc_base128(v: u32) -> Vec<u8> {
    let mut groups = Vec::new();
    let mut x = v;
    loop {
        groups.push((x & 0x7F) as u8);
        x >>= 7;
        if x == 0 {
            break;
        }
    }
    groups.reverse();
    let n = groups.len();
    groups.iter().enumerate().map(|(i, g)| if i + 1 < n { g | 0x80 } else { *g }).collect()
}

// ---- triplet encoding -------------------------------------------------------------------------------

/// All triplet encodings (flag without the on-curve bit, data bytes) that represent (dx, dy).
pub fn triplets(dx: i32, dy: i32) -> Vec<(u8, Vec<u8>)> {
    let (ax, ay) = (dx.unsigned_abs(), dy.unsigned_abs());
    let xs: Vec<u8> = if dx > 0 { vec![1] } else if dx < 0 { vec![0] } else { vec![0, 1] };
    let ys: Vec<u8> = if dy > 0 { vec![1] } else if dy < 0 { vec![0] } else { vec![0, 1] };
    let mut out = Vec::new();
    if dx == 0 && ay < 1280 {
        for &s in &ys {
            out.push(((((ay >> 8) << 1) as u8) + s, vec![(ay & 0xFF) as u8]));
        }
    }
    if dy == 0 && ax < 1280 {
        for &s in &xs {
            out.push((10 + (((ax >> 8) << 1) as u8) + s, vec![(ax & 0xFF) as u8]));
        }
    }
    for &sx in &xs {
        for &sy in &ys {
            let signs = sx + (sy << 1);
            if (1..=64).contains(&ax) && (1..=64).contains(&ay) {
                let (x1, y1) = (ax - 1, ay - 1);
                out.push((20 + ((x1 & 0x30) as u8) + (((y1 & 0x30) >> 2) as u8) + signs, vec![(((x1 & 0xF) << 4) | (y1 & 0xF)) as u8]));
            }
            if (1..=768).contains(&ax) && (1..=768).contains(&ay) {
                let (x1, y1) = (ax - 1, ay - 1);
                out.push((84 + 12 * ((x1 >> 8) as u8) + (((y1 >> 8) as u8) << 2) + signs, vec![(x1 & 0xFF) as u8, (y1 & 0xFF) as u8]));
            }
            if ax < 4096 && ay < 4096 {
                out.push((120 + signs, vec![(ax >> 4) as u8, (((ax & 0xF) << 4) | (ay >> 8)) as u8, (ay & 0xFF) as u8]));
            }
            if ax < 65536 && ay < 65536 {
                out.push((124 + signs, vec![(ax >> 8) as u8, ax as u8, (ay >> 8) as u8, ay as u8]));
            }
        }
    }
    out
}

/// Reference decoding of one triplet (W3C table), used for the encoder self-test.
pub fn decode_triplet(flag: u8, d: &[u8]) -> (i32, i32, usize) {
    let f = (flag & 0x7F) as i32;
    let ws = |fl: i32, v: i32| if fl & 1 != 0 { v } else { -v };
    let b = |i: usize| d[i] as i32;
    if f < 10 {
        (0, ws(f, ((f & 14) << 7) + b(0)), 1)
    } else if f < 20 {
        (ws(f, (((f - 10) & 14) << 7) + b(0)), 0, 1)
    } else if f < 84 {
        let b0 = f - 20;
        (ws(f, 1 + (b0 & 0x30) + (b(0) >> 4)), ws(f >> 1, 1 + ((b0 & 0x0c) << 2) + (b(0) & 0x0f)), 1)
    } else if f < 120 {
        let b0 = f - 84;
        (ws(f, 1 + ((b0 / 12) << 8) + b(0)), ws(f >> 1, 1 + (((b0 % 12) >> 2) << 8) + b(1)), 2)
    } else if f < 124 {
        (ws(f, (b(0) << 4) + (b(1) >> 4)), ws(f >> 1, ((b(1) & 0x0f) << 8) + b(2)), 3)
    } else {
        (ws(f, (b(0) << 8) + b(1)), ws(f >> 1, (b(2) << 8) + b(3)), 4)
    }
}

// ---- glyf transform -----------------------------------------------------------------------------------

#[derive(Clone, Debug)]
pub struct GlyfChoices {
    /// store an explicit bbox for simple glyphs whose bbox equals the computed one (1/8 units)
    pub explicit_bbox: u32,
    pub overlap_bitmap: bool,
}

/// `glyphs[i]` with its stored bbox. Returns the transformed glyf table.
pub fn transform_glyf(glyphs: &[(Glyph, ig::BBox)], index_format: u16, ch: &GlyfChoices, rng: &mut Rng, classes: &mut Vec<u8>) -> Vec<u8> {
    let n = glyphs.len();
    let mut n_contour = W::new();
    let mut n_points = W::new();
    let mut flags = W::new();
    let mut glyph_s = W::new();
    let mut composite = W::new();
    let mut bbox_bitmap = vec![0u8; 4 * ((n + 31) / 32)];
    let mut bbox_s = W::new();
    let mut instr = W::new();
    let mut overlap_bitmap = vec![0u8; (n + 7) / 8];
    let mut any_overlap = false;
    for (i, (g, bb)) in glyphs.iter().enumerate() {
        let mut explicit = false;
        match g {
            Glyph::Empty => {
                n_contour.i16(0);
            }
            Glyph::Simple(s) if s.contours.is_empty() => {
                n_contour.i16(0);
            }
            Glyph::Simple(s) => {
                n_contour.i16(s.contours.len() as i16);
                for c in &s.contours {
                    n_points.bytes(&enc_255(c.len() as u16, rng));
                }
                let (mut px, mut py) = (0i32, 0i32);
                for p in s.points() {
                    let (dx, dy) = (p.x as i32 - px, p.y as i32 - py);
                    px = p.x as i32;
                    py = p.y as i32;
                    let opts = triplets(dx, dy);
                    let (f, data) = &opts[rng.below(opts.len())];
                    classes.push(*f);
                    flags.u8(if p.on { *f } else { *f | 0x80 });
                    glyph_s.bytes(data);
                }
                glyph_s.bytes(&enc_255(s.instructions.len() as u16, rng));
                instr.bytes(&s.instructions);
                if *bb != s.bbox() || rng.chance(ch.explicit_bbox, 8) {
                    explicit = true;
                }
                if s.overlap {
                    overlap_bitmap[i / 8] |= 0x80 >> (i % 8);
                    any_overlap = true;
                }
            }
            Glyph::Composite(c) => {
                n_contour.i16(-1);
                let bytes = ig::write_composite(c, *bb);
                // composite record minus the 10-byte header and minus trailing instructions
                let ilen = if c.instructions.is_empty() { 0 } else { 2 + c.instructions.len() };
                composite.bytes(&bytes[10..bytes.len() - ilen]);
                if !c.instructions.is_empty() {
                    glyph_s.bytes(&enc_255(c.instructions.len() as u16, rng));
                    instr.bytes(&c.instructions);
                }
                explicit = true;
            }
        }
        if explicit {
            bbox_bitmap[i / 8] |= 0x80 >> (i % 8);
            bbox_s.i16(bb.x_min).i16(bb.y_min).i16(bb.x_max).i16(bb.y_max);
        }
    }
    let with_overlap = ch.overlap_bitmap && any_overlap;
    let mut w = W::new();
    w.u16(0).u16(if with_overlap { 1 } else { 0 }).u16(n as u16).u16(index_format);
    w.u32(n_contour.len() as u32).u32(n_points.len() as u32).u32(flags.len() as u32).u32(glyph_s.len() as u32);
    w.u32(composite.len() as u32).u32((bbox_bitmap.len() + bbox_s.len()) as u32).u32(instr.len() as u32);
    w.bytes(&n_contour.b).bytes(&n_points.b).bytes(&flags.b).bytes(&glyph_s.b).bytes(&composite.b);
    w.bytes(&bbox_bitmap).bytes(&bbox_s.b).bytes(&instr.b);
    if with_overlap {
        w.bytes(&overlap_bitmap);
    }
    w.b
}

/// hmtx transform (version 1). `elide_lsb` / `elide_lsb_tail` must only be set when legal.
pub fn transform_hmtx(metrics: &[(u16, i16)], num_h_metrics: usize, elide_lsb: bool, elide_tail: bool) -> Vec<u8> {
    let mut w = W::new();
    w.u8((elide_lsb as u8) | ((elide_tail as u8) << 1));
    for m in &metrics[..num_h_metrics] {
        w.u16(m.0);
    }
    if !elide_lsb {
        for m in &metrics[..num_h_metrics] {
            w.i16(m.1);
        }
    }
    if !elide_tail {
        for m in &metrics[num_h_metrics..] {
            w.i16(m.1);
        }
    }
    w.b
}

// ---- container ----------------------------------------------------------------------------------------

#[derive(Clone, Debug)]
pub struct W2Table {
    pub tag: u32,
    /// bytes stored in the data block (transformed or not)
    pub payload: Vec<u8>,
    pub orig_length: u32,
    /// Some(version) for glyf/loca/hmtx; 0 otherwise
    pub transform_version: u8,
    pub has_transform_length: bool,
    /// use the arbitrary-tag form even for known tags
    pub force_arbitrary_tag: bool,
}

pub fn dir_entry(t: &W2Table) -> Vec<u8> {
    let mut w = W::new();
    let known = KNOWN_TAGS.iter().position(|k| tag(k) == t.tag);
    let idx = match known {
        Some(i) if !t.force_arbitrary_tag => i as u8,
        _ => 63,
    };
    w.u8(idx | (t.transform_version << 6));
    if idx == 63 {
        w.u32(t.tag);
    }
    w.bytes(&enc_base128(t.orig_length));
    if t.has_transform_length {
        w.bytes(&enc_base128(t.payload.len() as u32));
    }
    w.b
}

/// `fonts`: for collections, (flavor, table indices); None for a single font.
pub fn build_woff2(flavor: u32, tables: &[W2Table], fonts: Option<&[(u32, Vec<u16>)]>, chunk: usize, rng: &mut Rng, metadata: bool) -> Vec<u8> {
    let mut w = W::new();
    w.u32(0x774F4632).u32(flavor).u32(0).u16(tables.len() as u16).u16(0);
    let total_sfnt: usize = 12 + 16 * tables.len() + tables.iter().map(|t| (t.orig_length as usize + 3) & !3).sum::<usize>();
    w.u32(total_sfnt as u32);
    let comp_size_at = w.len();
    w.u32(0).u16(1).u16(0);
    let meta_at = w.len();
    w.u32(0).u32(0).u32(0).u32(0).u32(0);
    for t in tables {
        w.bytes(&dir_entry(t));
    }
    if let Some(fonts) = fonts {
        w.u32(0x0001_0000);
        w.bytes(&enc_255(fonts.len() as u16, rng));
        for (fl, idx) in fonts {
            w.bytes(&enc_255(idx.len() as u16, rng));
            w.u32(*fl);
            for i in idx {
                w.bytes(&enc_255(*i, rng));
            }
        }
    }
    let mut block = Vec::new();
    for t in tables {
        block.extend_from_slice(&t.payload);
    }
    let comp = stored_brotli(&block, chunk);
    w.set_u32(comp_size_at, comp.len() as u32);
    w.bytes(&comp);
    if metadata {
        w.pad4();
        let m = b"<metadata version=\"1.0\"/>";
        let z = stored_brotli(m, 65536);
        let at = w.len();
        w.bytes(&z);
        w.set_u32(meta_at, at as u32);
        w.set_u32(meta_at + 4, z.len() as u32);
        w.set_u32(meta_at + 8, m.len() as u32);
    }
    w.pad4();
    let len = w.len();
    w.set_u32(8, len as u32);
    w.b
}

pub fn selftest() -> bool {
    let mut ok = true;
    // every triplet encoding decodes to what it encodes; all 128 flag values are reachable
    let mut seen = [false; 128];
    let mut rng = Rng::new(5);
    let mut cases: Vec<(i32, i32)> = Vec::new();
    for v in [0, 1, -1, 63, 64, 65, -64, -65, 255, 256, 767, 768, 769, 1279, 1280, -1279, -1280, 4095, 4096, -4095, 32767, -32768, 65535, -65535] {
        for u in [0, 1, -1, 64, -64, 65, 768, -768, 769, 1279, 1280, 4095, -4096, 65535] {
            cases.push((v, u));
        }
    }
    for _ in 0..20000 {
        let r = |rng: &mut Rng| match rng.below(5) {
            0 => rng.range(-64, 64) as i32,
            1 => rng.range(-768, 768) as i32,
            2 => rng.range(-1300, 1300) as i32,
            3 => rng.range(-4100, 4100) as i32,
            _ => rng.range(-65535, 65535) as i32,
        };
        let a = r(&mut rng);
        let b = if rng.chance(1, 4) { 0 } else { r(&mut rng) };
        cases.push(if rng.bool() { (a, b) } else { (b, a) });
    }
    for (dx, dy) in cases {
        let opts = triplets(dx, dy);
        if opts.is_empty() {
            eprintln!("woff2 selftest: no encoding for ({}, {})", dx, dy);
            ok = false;
        }
        for (f, d) in opts {
            seen[f as usize] = true;
            let (x, y, n) = decode_triplet(f, &d);
            if (x, y) != (dx, dy) || n != d.len() {
                eprintln!("woff2 selftest: triplet flag {} for ({}, {}) decodes to ({}, {})", f, dx, dy, x, y);
                ok = false;
            }
        }
    }
    if seen.iter().any(|s| !s) {
        eprintln!("woff2 selftest: flag classes never produced: {:?}", seen.iter().enumerate().filter(|(_, s)| !**s).map(|(i, _)| i).collect::<Vec<_>>());
        ok = false;
    }
    ok &= enc_base128(0) == vec![0] && enc_base128(127) == vec![127] && enc_base128(128) == vec![0x81, 0] && enc_base128(u32::MAX) == vec![0x8F, 0xFF, 0xFF, 0xFF, 0x7F];
    ok &= enc_255_all(252).len() == 2 && enc_255_all(253).len() == 2 && enc_255_all(506).len() == 3 && enc_255_all(762).len() == 1;
    if !ok {
        eprintln!("woff2 selftest FAILED");
    }
    ok
}
