//! Independent writers/readers for the small required tables, and a minimal loadable font.

use super::{be16, be32, bei16, Font, W};

#[derive(Clone, Debug)]
pub struct Head {
    pub units_per_em: u16,
    pub x_min: i16,
    pub y_min: i16,
    pub x_max: i16,
    pub y_max: i16,
    pub index_to_loc_format: i16,
    pub flags: u16,
    pub mac_style: u16,
}
impl Default for Head {
    fn default() -> Head {
        Head { units_per_em: 1000, x_min: 0, y_min: 0, x_max: 0, y_max: 0, index_to_loc_format: 0, flags: 3, mac_style: 0 }
    }
}
impl Head {
    pub fn write(&self) -> Vec<u8> {
        let mut w = W::new();
        w.u16(1).u16(0).u32(0x0001_0000).u32(0).u32(0x5F0F_3CF5).u16(self.flags).u16(self.units_per_em);
        w.i64(3_600_000_000).i64(3_600_000_000);
        w.i16(self.x_min).i16(self.y_min).i16(self.x_max).i16(self.y_max);
        w.u16(self.mac_style).u16(8).i16(2).i16(self.index_to_loc_format).i16(0);
        w.b
    }
    pub fn read(d: &[u8]) -> Option<Head> {
        Some(Head {
            flags: be16(d, 16)?,
            units_per_em: be16(d, 18)?,
            x_min: bei16(d, 36)?,
            y_min: bei16(d, 38)?,
            x_max: bei16(d, 40)?,
            y_max: bei16(d, 42)?,
            mac_style: be16(d, 44)?,
            index_to_loc_format: bei16(d, 50)?,
        })
    }
}

#[derive(Clone, Debug, Default)]
pub struct Hhea {
    pub ascender: i16,
    pub descender: i16,
    pub line_gap: i16,
    pub advance_width_max: u16,
    pub min_lsb: i16,
    pub min_rsb: i16,
    pub x_max_extent: i16,
    pub caret_slope_rise: i16,
    pub caret_slope_run: i16,
    pub caret_offset: i16,
    pub num_h_metrics: u16,
}
impl Hhea {
    pub fn write(&self) -> Vec<u8> {
        let mut w = W::new();
        w.u16(1).u16(0).i16(self.ascender).i16(self.descender).i16(self.line_gap).u16(self.advance_width_max);
        w.i16(self.min_lsb).i16(self.min_rsb).i16(self.x_max_extent).i16(self.caret_slope_rise).i16(self.caret_slope_run);
        w.i16(self.caret_offset).i16(0).i16(0).i16(0).i16(0).i16(0).u16(self.num_h_metrics);
        w.b
    }
    pub fn read(d: &[u8]) -> Option<Hhea> {
        Some(Hhea {
            ascender: bei16(d, 4)?,
            descender: bei16(d, 6)?,
            line_gap: bei16(d, 8)?,
            advance_width_max: be16(d, 10)?,
            min_lsb: bei16(d, 12)?,
            min_rsb: bei16(d, 14)?,
            x_max_extent: bei16(d, 16)?,
            caret_slope_rise: bei16(d, 18)?,
            caret_slope_run: bei16(d, 20)?,
            caret_offset: bei16(d, 22)?,
            num_h_metrics: be16(d, 34)?,
        })
    }
}

pub fn write_maxp(num_glyphs: u16, truetype: bool) -> Vec<u8> {
    let mut w = W::new();
    if truetype {
        w.u32(0x0001_0000).u16(num_glyphs);
        // maxPoints .. maxComponentDepth (13 fields)
        for v in [64u16, 8, 64, 8, 2, 0, 0, 0, 0, 0, 0, 4, 4] {
            w.u16(v);
        }
    } else {
        w.u32(0x0000_5000).u16(num_glyphs);
    }
    w.b
}
pub fn maxp_num_glyphs(d: &[u8]) -> Option<u16> {
    be16(d, 4)
}

/// hmtx from per-glyph (advance, lsb) with `num_h_metrics` long records (the rest share the last advance).
pub fn write_hmtx(metrics: &[(u16, i16)], num_h_metrics: usize) -> Vec<u8> {
    let mut w = W::new();
    for (i, &(adv, lsb)) in metrics.iter().enumerate() {
        if i < num_h_metrics {
            w.u16(adv).i16(lsb);
        } else {
            w.i16(lsb);
        }
    }
    w.b
}

/// Independent hmtx reader: (advance, lsb) for every glyph, None if the table is too short.
pub fn read_hmtx(d: &[u8], num_glyphs: usize, num_h_metrics: usize) -> Option<Vec<(u16, i16)>> {
    if num_h_metrics == 0 && num_glyphs > 0 {
        return None;
    }
    let mut out = Vec::with_capacity(num_glyphs);
    let mut last_adv = 0u16;
    for g in 0..num_glyphs {
        if g < num_h_metrics {
            last_adv = be16(d, 4 * g)?;
            out.push((last_adv, bei16(d, 4 * g + 2)?));
        } else {
            out.push((last_adv, bei16(d, 4 * num_h_metrics + 2 * (g - num_h_metrics))?));
        }
    }
    Some(out)
}

pub fn write_os2(version: u16, first_char: u16, last_char: u16) -> Vec<u8> {
    let mut w = W::new();
    w.u16(version).i16(500).u16(400).u16(5).u16(0);
    for _ in 0..10 {
        w.i16(0);
    }
    w.i16(0); // sFamilyClass
    w.bytes(&[0; 10]); // panose
    w.u32(0).u32(0).u32(0).u32(0);
    w.bytes(b"VRIF");
    w.u16(0x40).u16(first_char).u16(last_char);
    if version >= 0 {
        w.i16(800).i16(-200).i16(90).u16(1000).u16(200);
    }
    if version >= 1 {
        w.u32(1).u32(0);
    }
    if version >= 2 {
        w.i16(500).i16(700).u16(0).u16(32).u16(1);
    }
    if version >= 5 {
        w.u16(0).u16(0xFFFF);
    }
    w.b
}

pub fn write_post3() -> Vec<u8> {
    let mut w = W::new();
    w.u32(0x0003_0000).u32(0).i16(-100).i16(50).u32(0).u32(0).u32(0).u32(0).u32(0);
    w.b
}

pub fn write_name(entries: &[(u16, &str)]) -> Vec<u8> {
    let mut w = W::new();
    let mut storage = Vec::new();
    w.u16(0).u16(entries.len() as u16).u16((6 + 12 * entries.len()) as u16);
    for (id, s) in entries {
        let enc: Vec<u8> = s.encode_utf16().flat_map(|u| u.to_be_bytes()).collect();
        w.u16(3).u16(1).u16(0x409).u16(*id).u16(enc.len() as u16).u16(storage.len() as u16);
        storage.extend_from_slice(&enc);
    }
    w.bytes(&storage);
    w.b
}

/// A minimal TrueType font that `Font::new` accepts: `num_glyphs` empty glyphs, given cmap.
pub fn minimal_font(cmap: Vec<u8>, num_glyphs: u16, os2_first_char: Option<u16>) -> Font {
    let mut f = Font::new(0x0001_0000);
    f.sets("cmap", cmap);
    f.sets("head", Head::default().write());
    let hhea = Hhea { ascender: 800, descender: -200, advance_width_max: 600, num_h_metrics: 1, caret_slope_rise: 1, ..Default::default() };
    f.sets("hhea", hhea.write());
    f.sets("maxp", write_maxp(num_glyphs, true));
    let metrics: Vec<(u16, i16)> = (0..num_glyphs.max(1)).map(|_| (600u16, 0i16)).collect();
    f.sets("hmtx", write_hmtx(&metrics, 1));
    let mut loca = W::new();
    for _ in 0..=num_glyphs {
        loca.u16(0);
    }
    f.sets("loca", loca.b);
    f.sets("glyf", Vec::new());
    f.sets("post", write_post3());
    f.sets("name", write_name(&[(1, "Verif"), (2, "Regular"), (4, "Verif Regular"), (6, "Verif-Regular")]));
    if let Some(fc) = os2_first_char {
        f.sets("OS/2", write_os2(4, fc, 0xFFFF));
    }
    f
}

pub fn read_u32_at(d: &[u8], o: usize) -> Option<u32> {
    be32(d, o)
}
