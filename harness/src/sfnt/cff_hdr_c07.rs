//! Re-lays out a CFF (version 1) table so that its header is longer than 4 bytes (hdrSize > 4,
//! TN #5176 section 6: "hdrSize ... is provided so that future versions of the format may
//! introduce additional data between the header and the Name INDEX; readers must use it to locate
//! the Name INDEX"). The absolute offsets in the Top DICT (charset, Encoding, CharStrings, Private,
//! FDArray, FDSelect) and in the Font DICTs (Private) are rewritten as 5 byte integers; everything
//! else is copied byte for byte. Independent of allsorts (INDEX reader from `cff_c07`, own DICT
//! tokeniser and INDEX writer).

use super::cff_c07::parse_index;

struct Entry {
    /// raw bytes and, for integers, the value of each operand
    operands: Vec<(Vec<u8>, Option<i64>)>,
    op: u16,
    op_bytes: Vec<u8>,
}

fn tokenize(d: &[u8]) -> Option<Vec<Entry>> {
    let mut out = Vec::new();
    let mut ops: Vec<(Vec<u8>, Option<i64>)> = Vec::new();
    let mut i = 0usize;
    while i < d.len() {
        let b = d[i];
        match b {
            0..=21 => {
                let (op, len) = if b == 12 { (0x0C00 | *d.get(i + 1)? as u16, 2) } else { (b as u16, 1) };
                out.push(Entry { operands: std::mem::take(&mut ops), op, op_bytes: d[i..i + len].to_vec() });
                i += len;
            }
            28 => {
                let r = d.get(i..i + 3)?;
                ops.push((r.to_vec(), Some(i16::from_be_bytes([r[1], r[2]]) as i64)));
                i += 3;
            }
            29 => {
                let r = d.get(i..i + 5)?;
                ops.push((r.to_vec(), Some(i32::from_be_bytes([r[1], r[2], r[3], r[4]]) as i64)));
                i += 5;
            }
            30 => {
                let start = i;
                i += 1;
                loop {
                    let byte = *d.get(i)?;
                    i += 1;
                    if byte >> 4 == 0xF || byte & 0xF == 0xF {
                        break;
                    }
                }
                ops.push((d[start..i].to_vec(), None));
            }
            32..=246 => {
                ops.push((vec![b], Some(b as i64 - 139)));
                i += 1;
            }
            247..=250 => {
                let b1 = *d.get(i + 1)? as i64;
                ops.push((d[i..i + 2].to_vec(), Some((b as i64 - 247) * 256 + b1 + 108)));
                i += 2;
            }
            251..=254 => {
                let b1 = *d.get(i + 1)? as i64;
                ops.push((d[i..i + 2].to_vec(), Some(-(b as i64 - 251) * 256 - b1 - 108)));
                i += 2;
            }
            _ => return None,
        }
    }
    if !ops.is_empty() {
        return None;
    }
    Some(out)
}

const CHARSET: u16 = 15;
const ENCODING: u16 = 16;
const CHARSTRINGS: u16 = 17;
const PRIVATE: u16 = 18;
const FDARRAY: u16 = 0x0C24;
const FDSELECT: u16 = 0x0C25;

/// Index of the operand of `e` that is an absolute offset, if any.
fn offset_operand(e: &Entry) -> Option<usize> {
    let last = e.operands.len().checked_sub(1)?;
    let v = e.operands[last].1?;
    match e.op {
        CHARSET if v > 2 => Some(last),
        ENCODING if v > 1 => Some(last),
        CHARSTRINGS | FDARRAY | FDSELECT => Some(last),
        PRIVATE if e.operands.len() == 2 => Some(1),
        _ => None,
    }
}

fn rebuild(entries: &[Entry], map: &dyn Fn(i64) -> i64) -> Vec<u8> {
    let mut out = Vec::new();
    for e in entries {
        let which = offset_operand(e);
        for (k, (raw, v)) in e.operands.iter().enumerate() {
            if Some(k) == which {
                out.push(29);
                out.extend_from_slice(&(map(v.unwrap_or(0)) as i32).to_be_bytes());
            } else {
                out.extend_from_slice(raw);
            }
        }
        out.extend_from_slice(&e.op_bytes);
    }
    out
}

fn write_index(objs: &[Vec<u8>]) -> Vec<u8> {
    let mut w = Vec::new();
    w.extend_from_slice(&(objs.len() as u16).to_be_bytes());
    if objs.is_empty() {
        return w;
    }
    let total: usize = objs.iter().map(|o| o.len()).sum();
    let os = if total + 1 <= 0xFF {
        1
    } else if total + 1 <= 0xFFFF {
        2
    } else if total + 1 <= 0xFF_FFFF {
        3
    } else {
        4
    };
    w.push(os as u8);
    let mut off = 1usize;
    let put = |w: &mut Vec<u8>, v: usize| w.extend_from_slice(&(v as u32).to_be_bytes()[4 - os..]);
    put(&mut w, off);
    for o in objs {
        off += o.len();
        put(&mut w, off);
    }
    for o in objs {
        w.extend_from_slice(o);
    }
    w
}

/// `filler` = the bytes inserted between the fourth header byte (plus whatever the old header had
/// beyond it) and the Name INDEX; the new hdrSize is the old one plus `filler.len()`.
pub fn extend_header(d: &[u8], filler: &[u8]) -> Option<Vec<u8>> {
    if *d.first()? != 1 || filler.is_empty() {
        return None;
    }
    let hdr = *d.get(2)? as usize;
    if hdr < 4 || hdr + filler.len() > 255 {
        return None;
    }
    let names = parse_index(d, hdr)?;
    let tops = parse_index(d, names.end)?;
    if tops.items.len() != 1 {
        return None;
    }
    let (ts, te) = tops.items[0];
    let top = tokenize(d.get(ts..te)?)?;
    let top_start = names.end;
    let top_end = tops.end;
    // FDArray (CID-keyed fonts)
    let fda = top.iter().find(|e| e.op == FDARRAY).and_then(|e| e.operands.last()?.1);
    let mut fd_entries: Vec<Vec<Entry>> = Vec::new();
    let (mut fda_start, mut fda_end) = (d.len(), d.len());
    if let Some(o) = fda {
        let o = usize::try_from(o).ok()?;
        if o < top_end {
            return None;
        }
        let idx = parse_index(d, o)?;
        for (s, e) in &idx.items {
            fd_entries.push(tokenize(d.get(*s..*e)?)?);
        }
        fda_start = o;
        fda_end = idx.end;
    }
    let ident = |x: i64| x;
    let new_top_len = write_index(&[rebuild(&top, &ident)]).len();
    let d1 = new_top_len as i64 - (top_end - top_start) as i64;
    let new_fda_len = if fda.is_some() { write_index(&fd_entries.iter().map(|e| rebuild(e, &ident)).collect::<Vec<_>>()).len() } else { 0 };
    let d2 = if fda.is_some() { new_fda_len as i64 - (fda_end - fda_start) as i64 } else { 0 };
    let extra = filler.len() as i64;
    let top_end_i = top_end as i64;
    let fda_end_i = fda_end as i64;
    let has_fda = fda.is_some();
    let bad = std::cell::Cell::new(false);
    let map = |x: i64| -> i64 {
        if x < top_end_i || (has_fda && x > fda_start as i64 && x < fda_end_i) {
            bad.set(true);
        }
        x + extra + d1 + if has_fda && x >= fda_end_i { d2 } else { 0 }
    };
    let mut out = Vec::with_capacity(d.len() + 64);
    out.extend_from_slice(&d[..hdr]);
    out[2] = (hdr + filler.len()) as u8;
    out.extend_from_slice(filler);
    out.extend_from_slice(&d[hdr..top_start]);
    out.extend_from_slice(&write_index(&[rebuild(&top, &map)]));
    if has_fda {
        out.extend_from_slice(&d[top_end..fda_start]);
        out.extend_from_slice(&write_index(&fd_entries.iter().map(|e| rebuild(e, &map)).collect::<Vec<_>>()));
        out.extend_from_slice(&d[fda_end..]);
    } else {
        out.extend_from_slice(&d[top_end..]);
    }
    if bad.get() {
        return None;
    }
    // self-check with the independent reader: same glyphs, same charstring and subroutine bytes
    let a = super::cff_c07::parse(d)?;
    let b = super::cff_c07::parse(&out)?;
    if a.charstrings.len() != b.charstrings.len() || a.gsubrs.len() != b.gsubrs.len() || a.privates.len() != b.privates.len() || a.fd_of != b.fd_of || a.is_cid != b.is_cid {
        return None;
    }
    for (x, y) in a.charstrings.iter().zip(b.charstrings.iter()).chain(a.gsubrs.iter().zip(b.gsubrs.iter())) {
        if d.get(x.0..x.1)? != out.get(y.0..y.1)? {
            return None;
        }
    }
    for (p, q) in a.privates.iter().zip(b.privates.iter()) {
        if p.subrs.len() != q.subrs.len() || p.default_width != q.default_width || p.nominal_width != q.nominal_width {
            return None;
        }
        for (x, y) in p.subrs.iter().zip(q.subrs.iter()) {
            if d.get(x.0..x.1)? != out.get(y.0..y.1)? {
                return None;
            }
        }
    }
    Some(out)
}
