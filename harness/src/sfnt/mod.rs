//! INDEPENDENT sfnt codec: shares no code with allsorts. Readers are used to inspect allsorts'
//! outputs and real fonts; writers produce the inputs for allsorts from generator ASTs.

pub mod cmap;
pub mod glyf;
pub mod tables;
pub mod woff;
pub mod woff2;
pub mod cff_c07;
pub mod cff_hdr_c07;
pub mod validate_c09;

pub fn tag(s: &str) -> u32 {
    let b = s.as_bytes();
    u32::from_be_bytes([b[0], b[1], b[2], b[3]])
}

pub fn tag_str(t: u32) -> String {
    t.to_be_bytes()
        .iter()
        .map(|&b| if (0x20..0x7f).contains(&b) { b as char } else { '?' })
        .collect()
}

// ---- byte helpers ---------------------------------------------------------------------------

pub fn be16(d: &[u8], o: usize) -> Option<u16> {
    d.get(o..o + 2).map(|b| u16::from_be_bytes([b[0], b[1]]))
}
pub fn bei16(d: &[u8], o: usize) -> Option<i16> {
    be16(d, o).map(|v| v as i16)
}
pub fn be32(d: &[u8], o: usize) -> Option<u32> {
    d.get(o..o + 4)
        .map(|b| u32::from_be_bytes([b[0], b[1], b[2], b[3]]))
}

#[derive(Default, Clone)]
pub struct W {
    pub b: Vec<u8>,
}
impl W {
    pub fn new() -> W {
        W { b: Vec::new() }
    }
    pub fn u8(&mut self, v: u8) -> &mut Self {
        self.b.push(v);
        self
    }
    pub fn i8(&mut self, v: i8) -> &mut Self {
        self.b.push(v as u8);
        self
    }
    pub fn u16(&mut self, v: u16) -> &mut Self {
        self.b.extend_from_slice(&v.to_be_bytes());
        self
    }
    pub fn i16(&mut self, v: i16) -> &mut Self {
        self.b.extend_from_slice(&v.to_be_bytes());
        self
    }
    pub fn u24(&mut self, v: u32) -> &mut Self {
        self.b.extend_from_slice(&v.to_be_bytes()[1..]);
        self
    }
    pub fn u32(&mut self, v: u32) -> &mut Self {
        self.b.extend_from_slice(&v.to_be_bytes());
        self
    }
    pub fn i32(&mut self, v: i32) -> &mut Self {
        self.b.extend_from_slice(&v.to_be_bytes());
        self
    }
    pub fn i64(&mut self, v: i64) -> &mut Self {
        self.b.extend_from_slice(&v.to_be_bytes());
        self
    }
    pub fn bytes(&mut self, v: &[u8]) -> &mut Self {
        self.b.extend_from_slice(v);
        self
    }
    pub fn len(&self) -> usize {
        self.b.len()
    }
    pub fn set_u16(&mut self, at: usize, v: u16) {
        self.b[at..at + 2].copy_from_slice(&v.to_be_bytes());
    }
    pub fn set_u32(&mut self, at: usize, v: u32) {
        self.b[at..at + 4].copy_from_slice(&v.to_be_bytes());
    }
    pub fn pad4(&mut self) {
        while self.b.len() % 4 != 0 {
            self.b.push(0);
        }
    }
}

pub fn checksum(data: &[u8]) -> u32 {
    let mut sum = 0u32;
    let mut i = 0;
    while i + 4 <= data.len() {
        sum = sum.wrapping_add(u32::from_be_bytes([data[i], data[i + 1], data[i + 2], data[i + 3]]));
        i += 4;
    }
    if i < data.len() {
        let mut last = [0u8; 4];
        last[..data.len() - i].copy_from_slice(&data[i..]);
        sum = sum.wrapping_add(u32::from_be_bytes(last));
    }
    sum
}

// ---- sfnt directory ---------------------------------------------------------------------------

#[derive(Clone, Debug)]
pub struct Record {
    pub tag: u32,
    pub checksum: u32,
    pub offset: u32,
    pub length: u32,
}

#[derive(Clone, Debug)]
pub struct Directory {
    pub version: u32,
    pub num_tables: u16,
    pub search_range: u16,
    pub entry_selector: u16,
    pub range_shift: u16,
    pub records: Vec<Record>,
}

pub fn parse_directory(data: &[u8], at: usize) -> Option<Directory> {
    let version = be32(data, at)?;
    let num_tables = be16(data, at + 4)?;
    let mut records = Vec::new();
    for i in 0..num_tables as usize {
        let o = at + 12 + 16 * i;
        records.push(Record {
            tag: be32(data, o)?,
            checksum: be32(data, o + 4)?,
            offset: be32(data, o + 8)?,
            length: be32(data, o + 12)?,
        });
    }
    Some(Directory {
        version,
        num_tables,
        search_range: be16(data, at + 6)?,
        entry_selector: be16(data, at + 8)?,
        range_shift: be16(data, at + 10)?,
        records,
    })
}

impl Directory {
    pub fn find(&self, tag: u32) -> Option<&Record> {
        self.records.iter().find(|r| r.tag == tag)
    }
}

/// Table bytes of a plain sfnt (independent reader).
pub fn table<'a>(data: &'a [u8], dir: &Directory, tag: u32) -> Option<&'a [u8]> {
    let r = dir.find(tag)?;
    data.get(r.offset as usize..(r.offset as usize).checked_add(r.length as usize)?)
}

/// A font as a list of tables (independent representation).
#[derive(Clone, Debug, Default)]
pub struct Font {
    pub version: u32,
    pub tables: Vec<(u32, Vec<u8>)>,
}

impl Font {
    pub fn new(version: u32) -> Font {
        Font { version, tables: Vec::new() }
    }
    pub fn parse(data: &[u8]) -> Option<Font> {
        Font::parse_at(data, 0)
    }
    pub fn parse_at(data: &[u8], at: usize) -> Option<Font> {
        let dir = parse_directory(data, at)?;
        let mut tables = Vec::new();
        for r in &dir.records {
            tables.push((r.tag, table(data, &dir, r.tag)?.to_vec()));
        }
        Some(Font { version: dir.version, tables })
    }
    /// Offsets of member fonts of a TTC, or [0] for a plain font.
    pub fn member_offsets(data: &[u8]) -> Option<Vec<usize>> {
        if be32(data, 0)? == tag("ttcf") {
            let n = be32(data, 8)? as usize;
            (0..n).map(|i| be32(data, 12 + 4 * i).map(|o| o as usize)).collect()
        } else {
            Some(vec![0])
        }
    }
    pub fn get(&self, t: u32) -> Option<&[u8]> {
        self.tables.iter().find(|(tt, _)| *tt == t).map(|(_, d)| d.as_slice())
    }
    pub fn gets(&self, t: &str) -> Option<&[u8]> {
        self.get(tag(t))
    }
    pub fn set(&mut self, t: u32, data: Vec<u8>) {
        if let Some(e) = self.tables.iter_mut().find(|(tt, _)| *tt == t) {
            e.1 = data;
        } else {
            self.tables.push((t, data));
        }
    }
    pub fn sets(&mut self, t: &str, data: Vec<u8>) {
        self.set(tag(t), data)
    }
    pub fn remove(&mut self, t: u32) {
        self.tables.retain(|(tt, _)| *tt != t);
    }

    /// Serialise: sorted directory, 4-aligned tables in directory order, checksums, head adjustment.
    pub fn build(&self) -> Vec<u8> {
        let order: Vec<usize> = (0..self.tables.len()).collect();
        self.build_with_order(&order, true)
    }

    /// `physical`: order in which table bodies are laid out; the directory is sorted by tag iff
    /// `sort_dir` (the spec wants it sorted; readers must not depend on physical order).
    pub fn build_with_order(&self, physical: &[usize], sort_dir: bool) -> Vec<u8> {
        self.build_opts(physical, sort_dir, true)
    }

    /// `fix_head` = false leaves a table tagged `head` byte-for-byte as given (container tests).
    pub fn build_opts(&self, physical: &[usize], sort_dir: bool, fix_head: bool) -> Vec<u8> {
        let n = self.tables.len();
        let mut out = W::new();
        out.u32(self.version);
        out.u16(n as u16);
        let (sr, es, rs) = search_fields(n as u16, 16);
        out.u16(sr).u16(es).u16(rs);
        let dir_at = out.len();
        out.b.resize(dir_at + 16 * n, 0);
        let mut placed = vec![(0u32, 0u32); n];
        let mut head_at = None;
        for &i in physical {
            let (t, d) = &self.tables[i];
            out.pad4();
            placed[i] = (out.len() as u32, d.len() as u32);
            if fix_head && *t == tag("head") && d.len() >= 12 {
                head_at = Some(out.len());
            }
            out.bytes(d);
        }
        out.pad4();
        if let Some(h) = head_at {
            out.set_u32(h + 8, 0);
        }
        let mut idx: Vec<usize> = (0..n).collect();
        if sort_dir {
            idx.sort_by_key(|&i| self.tables[i].0);
        }
        for (slot, &i) in idx.iter().enumerate() {
            let (off, len) = placed[i];
            let body = &out.b[off as usize..(off + len) as usize];
            let cs = checksum(body);
            let o = dir_at + 16 * slot;
            out.set_u32(o, self.tables[i].0);
            out.set_u32(o + 4, cs);
            out.set_u32(o + 8, off);
            out.set_u32(o + 12, len);
        }
        if let Some(h) = head_at {
            let total = checksum(&out.b);
            out.set_u32(h + 8, 0xB1B0AFBAu32.wrapping_sub(total));
        }
        out.b
    }
}

/// (searchRange, entrySelector, rangeShift) for `n` entries of `unit` bytes.
pub fn search_fields(n: u16, unit: u16) -> (u16, u16, u16) {
    if n == 0 {
        return (0, 0, 0);
    }
    let es = 15 - n.leading_zeros() as u16;
    let sr = (1u16 << es).wrapping_mul(unit);
    let rs = n.wrapping_mul(unit).wrapping_sub(sr);
    (sr, es, rs)
}

/// TTC writer with the offset table of each member placed right before the tables that member is
/// the first to use (`header | OT0 | tables0 | OT1 | tables1 ...`): later members share earlier
/// tables at lower file offsets than their own directory. Equally valid as the directories-first
/// layout of `build_ttc`.
pub fn build_ttc_interleaved(version: u32, pool: &[(u32, Vec<u8>)], members: &[(u32, Vec<usize>)]) -> Vec<u8> {
    let mut out = W::new();
    out.u32(tag("ttcf")).u32(version).u32(members.len() as u32);
    let offs_at = out.len();
    out.b.resize(offs_at + 4 * members.len(), 0);
    if version >= 0x0002_0000 {
        out.u32(0).u32(0).u32(0);
    }
    let mut placed: Vec<Option<(u32, u32)>> = vec![None; pool.len()];
    for (k, (ver, m)) in members.iter().enumerate() {
        out.pad4();
        let at = out.len();
        out.set_u32(offs_at + 4 * k, at as u32);
        out.b.resize(at + 12 + 16 * m.len(), 0);
        for &i in m {
            if placed[i].is_none() {
                out.pad4();
                placed[i] = Some((out.len() as u32, pool[i].1.len() as u32));
                out.bytes(&pool[i].1);
            }
        }
        out.set_u32(at, *ver);
        out.set_u16(at + 4, m.len() as u16);
        let (sr, es, rs) = search_fields(m.len() as u16, 16);
        out.set_u16(at + 6, sr);
        out.set_u16(at + 8, es);
        out.set_u16(at + 10, rs);
        let mut idx: Vec<usize> = m.clone();
        idx.sort_by_key(|&i| pool[i].0);
        for (slot, &i) in idx.iter().enumerate() {
            let o = at + 12 + 16 * slot;
            let (off, len) = placed[i].unwrap_or((0, 0));
            out.set_u32(o, pool[i].0);
            out.set_u32(o + 4, checksum(&pool[i].1));
            out.set_u32(o + 8, off);
            out.set_u32(o + 12, len);
        }
    }
    out.pad4();
    out.b
}

/// TTC writer: `members` = table index lists into a shared table pool.
pub fn build_ttc(version: u32, pool: &[(u32, Vec<u8>)], members: &[(u32, Vec<usize>)]) -> Vec<u8> {
    let mut out = W::new();
    out.u32(tag("ttcf")).u32(version).u32(members.len() as u32);
    let offs_at = out.len();
    out.b.resize(offs_at + 4 * members.len(), 0);
    if version >= 0x0002_0000 {
        out.u32(0).u32(0).u32(0);
    }
    // directories first, then bodies
    let mut dir_ats = Vec::new();
    for (_, m) in members {
        out.pad4();
        dir_ats.push(out.len());
        out.b.resize(out.len() + 12 + 16 * m.len(), 0);
    }
    let mut placed = Vec::new();
    for (_, d) in pool {
        out.pad4();
        placed.push((out.len() as u32, d.len() as u32));
        out.bytes(d);
    }
    out.pad4();
    for (k, (ver, m)) in members.iter().enumerate() {
        let at = dir_ats[k];
        out.set_u32(offs_at + 4 * k, at as u32);
        out.set_u32(at, *ver);
        out.set_u16(at + 4, m.len() as u16);
        let (sr, es, rs) = search_fields(m.len() as u16, 16);
        out.set_u16(at + 6, sr);
        out.set_u16(at + 8, es);
        out.set_u16(at + 10, rs);
        let mut idx: Vec<usize> = m.clone();
        idx.sort_by_key(|&i| pool[i].0);
        for (slot, &i) in idx.iter().enumerate() {
            let o = at + 12 + 16 * slot;
            let (off, len) = placed[i];
            out.set_u32(o, pool[i].0);
            out.set_u32(o + 4, checksum(&pool[i].1));
            out.set_u32(o + 8, off);
            out.set_u32(o + 12, len);
        }
    }
    out.b
}

pub fn selftest() -> bool {
    let mut ok = true;
    // directory round trip
    let mut f = Font::new(0x0001_0000);
    f.sets("zzzz", vec![1, 2, 3]);
    f.sets("head", vec![0; 54]);
    f.sets("abcd", vec![]);
    let bytes = f.build();
    let g = Font::parse(&bytes).expect("parse own font");
    ok &= g.gets("zzzz") == Some(&[1u8, 2, 3][..]);
    ok &= g.gets("abcd") == Some(&[][..]);
    ok &= checksum(&bytes) == 0xB1B0AFBA;
    ok &= search_fields(3, 16) == (32, 1, 16);
    ok &= search_fields(16, 16) == (256, 4, 0);
    ok &= cmap::selftest();
    ok &= glyf::selftest();
    ok &= woff2::selftest();
    if !ok {
        eprintln!("sfnt selftest FAILED");
    }
    ok
}
