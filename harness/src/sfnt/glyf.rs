//! Independent glyf/loca codec: glyph AST, writer with random encoding choices, reader, and the
//! TrueType contour model (implied on-curve points, closed sub-paths).

use super::{be16, bei16, W};
use crate::rt::Rng;

#[derive(Copy, Clone, Debug, PartialEq, Eq, Hash)]
pub struct Pt {
    pub x: i16,
    pub y: i16,
    pub on: bool,
}

#[derive(Clone, Debug, PartialEq, Default)]
pub struct Simple {
    pub contours: Vec<Vec<Pt>>,
    pub instructions: Vec<u8>,
    pub overlap: bool,
}

#[derive(Copy, Clone, Debug, PartialEq)]
pub enum Scale {
    None,
    Uniform(i16),
    XY(i16, i16),
    /// xscale, scale01, scale10, yscale (file order), raw F2Dot14
    Matrix(i16, i16, i16, i16),
}

#[derive(Copy, Clone, Debug, PartialEq)]
pub enum Args {
    XY(i16, i16),
    Points(u16, u16),
}

#[derive(Clone, Debug, PartialEq)]
pub struct Component {
    pub gid: u16,
    pub args: Args,
    pub scale: Scale,
    /// extra flag bits: ROUND_XY_TO_GRID 0x4, USE_MY_METRICS 0x200, OVERLAP_COMPOUND 0x400,
    /// SCALED_COMPONENT_OFFSET 0x800, UNSCALED_COMPONENT_OFFSET 0x1000
    pub extra_flags: u16,
    pub force_words: bool,
}

#[derive(Clone, Debug, PartialEq, Default)]
pub struct Composite {
    pub components: Vec<Component>,
    pub instructions: Vec<u8>,
}

#[derive(Clone, Debug, PartialEq)]
pub enum Glyph {
    Empty,
    Simple(Simple),
    Composite(Composite),
}

#[derive(Copy, Clone, Debug, PartialEq, Eq)]
pub struct BBox {
    pub x_min: i16,
    pub y_min: i16,
    pub x_max: i16,
    pub y_max: i16,
}

impl Simple {
    pub fn points(&self) -> impl Iterator<Item = &Pt> {
        self.contours.iter().flat_map(|c| c.iter())
    }
    pub fn num_points(&self) -> usize {
        self.contours.iter().map(|c| c.len()).sum()
    }
    pub fn bbox(&self) -> BBox {
        let mut b = BBox { x_min: i16::MAX, y_min: i16::MAX, x_max: i16::MIN, y_max: i16::MIN };
        let mut any = false;
        for p in self.points() {
            any = true;
            b.x_min = b.x_min.min(p.x);
            b.x_max = b.x_max.max(p.x);
            b.y_min = b.y_min.min(p.y);
            b.y_max = b.y_max.max(p.y);
        }
        if any {
            b
        } else {
            BBox { x_min: 0, y_min: 0, x_max: 0, y_max: 0 }
        }
    }
}

/// Encoding choices for the packed flag/coordinate streams.
#[derive(Clone, Debug)]
pub struct EncChoice {
    /// probability (in 1/8) of using a repeat run when flags repeat
    pub repeat: u32,
    /// probability (in 1/8) of using the long form where the short form would fit
    pub long: u32,
    /// probability (in 1/8) of writing a zero delta explicitly instead of "same"
    pub explicit_zero: u32,
}
impl EncChoice {
    pub fn random(rng: &mut Rng) -> EncChoice {
        EncChoice { repeat: rng.below(9) as u32, long: rng.below(9) as u32, explicit_zero: rng.below(9) as u32 }
    }
    pub fn compact() -> EncChoice {
        EncChoice { repeat: 8, long: 0, explicit_zero: 0 }
    }
}

pub fn write_simple(g: &Simple, bbox: BBox, rng: &mut Rng, enc: &EncChoice) -> Vec<u8> {
    let mut w = W::new();
    w.i16(g.contours.len() as i16).i16(bbox.x_min).i16(bbox.y_min).i16(bbox.x_max).i16(bbox.y_max);
    let mut end = 0usize;
    for c in &g.contours {
        end += c.len();
        w.u16((end - 1) as u16);
    }
    w.u16(g.instructions.len() as u16);
    w.bytes(&g.instructions);
    // per point: flag + x bytes + y bytes
    let pts: Vec<Pt> = g.points().copied().collect();
    let mut flags: Vec<u8> = Vec::with_capacity(pts.len());
    let mut xs = W::new();
    let mut ys = W::new();
    let (mut px, mut py) = (0i32, 0i32);
    for (i, p) in pts.iter().enumerate() {
        let mut f = if p.on { 1u8 } else { 0 };
        if i == 0 && g.overlap {
            f |= 0x40;
        }
        let dx = p.x as i32 - px;
        let dy = p.y as i32 - py;
        px = p.x as i32;
        py = p.y as i32;
        // deltas beyond i16 cannot be encoded: the generator keeps |delta| <= 32767 by construction
        let mut coord = |d: i32, short_bit: u8, same_bit: u8, out: &mut W, f: &mut u8| {
            if d == 0 && !rng.chance(enc.explicit_zero, 8) {
                *f |= same_bit;
            } else if d.abs() <= 255 && !rng.chance(enc.long, 8) {
                *f |= short_bit;
                if d > 0 || (d == 0 && rng.bool()) {
                    *f |= same_bit;
                }
                out.u8(d.unsigned_abs() as u8);
            } else {
                out.i16(d as i16);
            }
        };
        coord(dx, 0x02, 0x10, &mut xs, &mut f);
        coord(dy, 0x04, 0x20, &mut ys, &mut f);
        flags.push(f);
    }
    // flag stream with optional repeat runs (runs may cross contour boundaries)
    let mut i = 0;
    while i < flags.len() {
        let f = flags[i];
        let mut run = 1;
        while i + run < flags.len() && flags[i + run] == f && run < 256 {
            run += 1;
        }
        if run >= 2 && rng.chance(enc.repeat, 8) {
            let take = if rng.bool() { run } else { 2 + rng.below(run - 1) };
            w.u8(f | 0x08).u8((take - 1) as u8);
            i += take;
        } else {
            w.u8(f);
            i += 1;
        }
    }
    w.bytes(&xs.b).bytes(&ys.b);
    w.b
}

pub fn write_composite(g: &Composite, bbox: BBox) -> Vec<u8> {
    write_composite_nc(g, bbox, -1)
}

/// As `write_composite`, with an explicit numberOfContours: any negative value marks a composite
/// glyph ("-1 should be used"), readers must not insist on exactly -1.
pub fn write_composite_nc(g: &Composite, bbox: BBox, number_of_contours: i16) -> Vec<u8> {
    let mut w = W::new();
    w.i16(if number_of_contours < 0 { number_of_contours } else { -1 }).i16(bbox.x_min).i16(bbox.y_min).i16(bbox.x_max).i16(bbox.y_max);
    let n = g.components.len();
    for (i, c) in g.components.iter().enumerate() {
        let mut flags = c.extra_flags & (0x4 | 0x200 | 0x400 | 0x800 | 0x1000);
        let (a1, a2, words) = match c.args {
            Args::XY(x, y) => {
                flags |= 0x2;
                let words = c.force_words || !(-128..=127).contains(&x) || !(-128..=127).contains(&y);
                (x as i32, y as i32, words)
            }
            Args::Points(p, q) => (p as i32, q as i32, c.force_words || p > 255 || q > 255),
        };
        if words {
            flags |= 0x1;
        }
        match c.scale {
            Scale::None => {}
            Scale::Uniform(_) => flags |= 0x8,
            Scale::XY(..) => flags |= 0x40,
            Scale::Matrix(..) => flags |= 0x80,
        }
        // WE_HAVE_INSTRUCTIONS: by convention on the last component; a component whose extra_flags
        // carry 0x100 gets it explicitly (then the last one only if it asks for it too) - readers
        // must look at every component (WOFF2 5.1 says "any component").
        let explicit = !g.instructions.is_empty() && g.components.iter().any(|k| k.extra_flags & 0x100 != 0);
        if i + 1 < n {
            flags |= 0x20;
            if explicit {
                flags |= c.extra_flags & 0x100;
            }
        } else if !g.instructions.is_empty() && (!explicit || c.extra_flags & 0x100 != 0) {
            flags |= 0x100;
        }
        w.u16(flags).u16(c.gid);
        if words {
            w.u16(a1 as u16).u16(a2 as u16);
        } else {
            w.u8(a1 as u8).u8(a2 as u8);
        }
        match c.scale {
            Scale::None => {}
            Scale::Uniform(s) => {
                w.i16(s);
            }
            Scale::XY(x, y) => {
                w.i16(x).i16(y);
            }
            Scale::Matrix(a, b, c2, d) => {
                w.i16(a).i16(b).i16(c2).i16(d);
            }
        }
    }
    if !g.instructions.is_empty() {
        w.u16(g.instructions.len() as u16).bytes(&g.instructions);
    }
    w.b
}

/// Parse one glyph record (independent reader). Returns glyph + stored bbox.
pub fn read_glyph(d: &[u8]) -> Option<(Glyph, BBox)> {
    if d.is_empty() {
        return Some((Glyph::Empty, BBox { x_min: 0, y_min: 0, x_max: 0, y_max: 0 }));
    }
    let nc = bei16(d, 0)?;
    let bbox = BBox { x_min: bei16(d, 2)?, y_min: bei16(d, 4)?, x_max: bei16(d, 6)?, y_max: bei16(d, 8)? };
    if nc >= 0 {
        let nc = nc as usize;
        let mut ends = Vec::new();
        for i in 0..nc {
            ends.push(be16(d, 10 + 2 * i)? as usize);
        }
        let mut o = 10 + 2 * nc;
        let ilen = be16(d, o)? as usize;
        o += 2;
        let instructions = d.get(o..o + ilen)?.to_vec();
        o += ilen;
        let npts = ends.last().map_or(0, |e| e + 1);
        let mut flags = Vec::with_capacity(npts);
        while flags.len() < npts {
            let f = *d.get(o)?;
            o += 1;
            flags.push(f);
            if f & 0x08 != 0 {
                let r = *d.get(o)? as usize;
                o += 1;
                for _ in 0..r {
                    if flags.len() < npts {
                        flags.push(f);
                    }
                }
            }
        }
        let mut xs = Vec::with_capacity(npts);
        let mut x = 0i32;
        for &f in &flags {
            if f & 0x02 != 0 {
                let v = *d.get(o)? as i32;
                o += 1;
                x += if f & 0x10 != 0 { v } else { -v };
            } else if f & 0x10 == 0 {
                x += bei16(d, o)? as i32;
                o += 2;
            }
            xs.push(x as i16);
        }
        let mut ys = Vec::with_capacity(npts);
        let mut y = 0i32;
        for &f in &flags {
            if f & 0x04 != 0 {
                let v = *d.get(o)? as i32;
                o += 1;
                y += if f & 0x20 != 0 { v } else { -v };
            } else if f & 0x20 == 0 {
                y += bei16(d, o)? as i32;
                o += 2;
            }
            ys.push(y as i16);
        }
        let mut contours = Vec::new();
        let mut start = 0;
        for &e in &ends {
            if e + 1 < start {
                return None;
            }
            let mut c = Vec::new();
            for i in start..=e {
                c.push(Pt { x: xs[i], y: ys[i], on: flags[i] & 1 != 0 });
            }
            contours.push(c);
            start = e + 1;
        }
        let overlap = flags.first().map_or(false, |f| f & 0x40 != 0);
        Some((Glyph::Simple(Simple { contours, instructions, overlap }), bbox))
    } else {
        let mut o = 10;
        let mut components = Vec::new();
        let mut have_instr = false;
        loop {
            let flags = be16(d, o)?;
            let gid = be16(d, o + 2)?;
            o += 4;
            let (a1, a2);
            if flags & 1 != 0 {
                a1 = be16(d, o)?;
                a2 = be16(d, o + 2)?;
                o += 4;
            } else {
                a1 = *d.get(o)? as u16;
                a2 = *d.get(o + 1)? as u16;
                o += 2;
            }
            let args = if flags & 2 != 0 {
                if flags & 1 != 0 {
                    Args::XY(a1 as i16, a2 as i16)
                } else {
                    Args::XY(a1 as u8 as i8 as i16, a2 as u8 as i8 as i16)
                }
            } else {
                Args::Points(a1, a2)
            };
            let scale = if flags & 0x8 != 0 {
                let s = bei16(d, o)?;
                o += 2;
                Scale::Uniform(s)
            } else if flags & 0x40 != 0 {
                let s = Scale::XY(bei16(d, o)?, bei16(d, o + 2)?);
                o += 4;
                s
            } else if flags & 0x80 != 0 {
                let s = Scale::Matrix(bei16(d, o)?, bei16(d, o + 2)?, bei16(d, o + 4)?, bei16(d, o + 6)?);
                o += 8;
                s
            } else {
                Scale::None
            };
            if flags & 0x100 != 0 {
                have_instr = true;
            }
            components.push(Component { gid, args, scale, extra_flags: flags & (0x4 | 0x200 | 0x400 | 0x800 | 0x1000), force_words: flags & 1 != 0 });
            if flags & 0x20 == 0 {
                break;
            }
        }
        let instructions = if have_instr {
            let n = be16(d, o)? as usize;
            d.get(o + 2..o + 2 + n)?.to_vec()
        } else {
            Vec::new()
        };
        Some((Glyph::Composite(Composite { components, instructions }), bbox))
    }
}

/// loca reader: offsets (numGlyphs + 1), or None when malformed.
pub fn read_loca(loca: &[u8], num_glyphs: usize, long: bool) -> Option<Vec<u32>> {
    (0..=num_glyphs)
        .map(|i| if long { super::be32(loca, 4 * i) } else { be16(loca, 2 * i).map(|v| v as u32 * 2) })
        .collect()
}

/// Build glyf + loca from already-serialised glyph records.
pub fn build_glyf_loca(records: &[Vec<u8>], force_long: bool, pad4: bool) -> (Vec<u8>, Vec<u8>, bool) {
    let mut glyf = W::new();
    let mut offs = vec![0u32];
    for r in records {
        glyf.bytes(r);
        let align = if pad4 { 4 } else { 2 };
        while glyf.len() % align != 0 {
            glyf.u8(0);
        }
        offs.push(glyf.len() as u32);
    }
    let long = force_long || *offs.last().unwrap() > 0x1FFFE;
    let mut loca = W::new();
    for o in &offs {
        if long {
            loca.u32(*o);
        } else {
            loca.u16((*o / 2) as u16);
        }
    }
    (glyf.b, loca.b, long)
}

// ---- contour model ------------------------------------------------------------------------------

#[derive(Copy, Clone, Debug, PartialEq)]
pub enum Seg {
    Line { to: (f64, f64) },
    Quad { ctrl: (f64, f64), to: (f64, f64) },
    Cubic { c1: (f64, f64), c2: (f64, f64), to: (f64, f64) },
}
impl Seg {
    pub fn to(&self) -> (f64, f64) {
        match *self {
            Seg::Line { to } | Seg::Quad { to, .. } | Seg::Cubic { to, .. } => to,
        }
    }
}

/// A closed sub-path: start point + segments; the last segment ends at the start point.
#[derive(Clone, Debug, PartialEq)]
pub struct SubPath {
    pub start: (f64, f64),
    pub segs: Vec<Seg>,
}

/// TrueType semantics of one contour: closed path through the points in order, with an implied
/// on-curve midpoint between consecutive off-curve points (cyclically). The start is some on-curve
/// (real or implied) point; comparison with an implementation is modulo rotation.
pub fn contour_path(c: &[Pt]) -> Option<SubPath> {
    if c.is_empty() {
        return None;
    }
    let n = c.len();
    let f = |p: &Pt| (p.x as f64, p.y as f64);
    // expanded cyclic list of (point, on)
    let mut ex: Vec<((f64, f64), bool)> = Vec::new();
    for i in 0..n {
        let p = &c[i];
        ex.push((f(p), p.on));
        let q = &c[(i + 1) % n];
        if !p.on && !q.on {
            let (a, b) = (f(p), f(q));
            ex.push((((a.0 + b.0) / 2.0, (a.1 + b.1) / 2.0), true));
        }
    }
    let s = ex.iter().position(|e| e.1)?;
    let m = ex.len();
    let start = ex[s].0;
    let mut segs = Vec::new();
    let mut i = 1;
    while i <= m {
        let (p, on) = ex[(s + i) % m];
        if on {
            segs.push(Seg::Line { to: p });
            i += 1;
        } else {
            let (q, _) = ex[(s + i + 1) % m];
            segs.push(Seg::Quad { ctrl: p, to: q });
            i += 2;
        }
    }
    Some(SubPath { start, segs })
}

/// `tol` is an ABSOLUTE tolerance (callers scale it by the magnitude of the coordinates involved,
/// including intermediate ones, so that cancellation in f32 arithmetic is not mistaken for a defect).
fn close_pts(a: (f64, f64), b: (f64, f64), tol: f64) -> bool {
    (a.0 - b.0).abs() <= tol && (a.1 - b.1).abs() <= tol
}

pub fn max_abs(p: &SubPath) -> f64 {
    let mut m = p.start.0.abs().max(p.start.1.abs());
    for s in &p.segs {
        let pts: Vec<(f64, f64)> = match *s {
            Seg::Line { to } => vec![to],
            Seg::Quad { ctrl, to } => vec![ctrl, to],
            Seg::Cubic { c1, c2, to } => vec![c1, c2, to],
        };
        for q in pts {
            m = m.max(q.0.abs()).max(q.1.abs());
        }
    }
    m
}

fn seg_close(a: &Seg, b: &Seg, tol: f64) -> bool {
    match (a, b) {
        (Seg::Line { to: x }, Seg::Line { to: y }) => close_pts(*x, *y, tol),
        (Seg::Quad { ctrl: c, to: x }, Seg::Quad { ctrl: d, to: y }) => close_pts(*c, *d, tol) && close_pts(*x, *y, tol),
        (Seg::Cubic { c1, c2, to }, Seg::Cubic { c1: d1, c2: d2, to: t2 }) => close_pts(*c1, *d1, tol) && close_pts(*c2, *d2, tol) && close_pts(*to, *t2, tol),
        _ => false,
    }
}

/// Normal form for cyclic comparison: drop zero-length lines, make the path explicitly closed.
pub fn normalise(p: &SubPath, _tol: f64) -> Vec<((f64, f64), Seg)> {
    // zero-length lines (duplicate points) are dropped by EXACT equality: the same input point
    // always maps to the same output value on either side
    let mut out: Vec<((f64, f64), Seg)> = Vec::new();
    let mut cur = p.start;
    for s in &p.segs {
        let keep = match s {
            Seg::Line { to } => cur != *to,
            _ => true,
        };
        if keep {
            out.push((cur, *s));
        }
        cur = s.to();
    }
    if cur != p.start {
        out.push((cur, Seg::Line { to: p.start }));
    }
    out
}

/// Length (Chebyshev) of the shortest non-degenerate segment of the normalised path.
pub fn min_feature(p: &SubPath) -> f64 {
    // over the RAW segments: points that coincide only after a collapsing transform count as a
    // zero-size feature (f32 and f64 evaluation may or may not keep them apart)
    let mut m = f64::INFINITY;
    let mut from = p.start;
    for s in &p.segs {
        let to = s.to();
        m = m.min((from.0 - to.0).abs().max((from.1 - to.1).abs()));
        if let Seg::Quad { ctrl, .. } = s {
            m = m.min((from.0 - ctrl.0).abs().max((from.1 - ctrl.1).abs()));
        }
        from = to;
    }
    m
}

/// Equality of two closed sub-paths modulo the choice of starting point.
pub fn same_cycle(a: &SubPath, b: &SubPath, tol: f64) -> bool {
    let (na, nb) = (normalise(a, tol), normalise(b, tol));
    if na.len() != nb.len() {
        return false;
    }
    if na.is_empty() {
        return close_pts(a.start, b.start, tol);
    }
    let n = na.len();
    'rot: for r in 0..n {
        for i in 0..n {
            let (fa, sa) = &na[i];
            let (fb, sb) = &nb[(i + r) % n];
            if !close_pts(*fa, *fb, tol) || !seg_close(sa, sb, tol) {
                continue 'rot;
            }
        }
        return true;
    }
    false
}

/// Affine map of a sub-path: p' = M p + t with M = [[a, c], [b, d]] i.e. x' = a x + c y + tx, y' = b x + d y + ty.
pub fn transform_path(p: &SubPath, m: (f64, f64, f64, f64), t: (f64, f64)) -> SubPath {
    let (a, b, c, d) = m;
    let f = |q: (f64, f64)| (a * q.0 + c * q.1 + t.0, b * q.0 + d * q.1 + t.1);
    SubPath {
        start: f(p.start),
        segs: p
            .segs
            .iter()
            .map(|s| match *s {
                Seg::Line { to } => Seg::Line { to: f(to) },
                Seg::Quad { ctrl, to } => Seg::Quad { ctrl: f(ctrl), to: f(to) },
                Seg::Cubic { c1, c2, to } => Seg::Cubic { c1: f(c1), c2: f(c2), to: f(to) },
            })
            .collect(),
    }
}

pub fn f2dot14(v: i16) -> f64 {
    v as f64 / 16384.0
}

/// (a, b, c, d) = (xscale, scale01, scale10, yscale) of a component.
pub fn scale_matrix(s: Scale) -> (f64, f64, f64, f64) {
    match s {
        Scale::None => (1.0, 0.0, 0.0, 1.0),
        Scale::Uniform(v) => (f2dot14(v), 0.0, 0.0, f2dot14(v)),
        Scale::XY(x, y) => (f2dot14(x), 0.0, 0.0, f2dot14(y)),
        Scale::Matrix(a, b, c, d) => (f2dot14(a), f2dot14(b), f2dot14(c), f2dot14(d)),
    }
}

// ---- generators -----------------------------------------------------------------------------------

pub fn gen_simple(rng: &mut Rng, max_contours: usize, max_points: usize, coord_range: i32) -> Simple {
    let nc = rng.below(max_contours + 1);
    let mut contours = Vec::new();
    let (mut px, mut py) = (0i32, 0i32);
    for _ in 0..nc {
        let np = 1 + rng.small(max_points - 1);
        let pattern = rng.below(7);
        let mut c = Vec::new();
        for i in 0..np {
            // keep successive deltas within i16
            let step = |rng: &mut Rng, p: i32| -> i32 {
                let d = match rng.below(5) {
                    0 => 0,
                    1 => rng.range(-255, 255) as i32,
                    2 => rng.range(-300, 300) as i32,
                    _ => rng.range(-(coord_range as i64), coord_range as i64) as i32,
                };
                let q = (p + d).clamp(-coord_range, coord_range);
                if (q - p).abs() > 32767 {
                    p
                } else {
                    q
                }
            };
            px = step(rng, px);
            py = step(rng, py);
            let on = match pattern {
                0 => true,
                1 => false,
                2 => i != 0,             // first off
                3 => i + 1 != np,        // last off
                4 => i != 0 && i + 1 != np, // first and last off
                5 => i % 3 == 0,         // runs of off-curve points
                _ => rng.bool(),
            };
            c.push(Pt { x: px as i16, y: py as i16, on });
        }
        contours.push(c);
    }
    let ilen = if rng.chance(1, 4) { rng.below(20) } else { 0 };
    let overlap = rng.chance(1, 8) && !contours.is_empty();
    Simple { contours, instructions: rng.bytes(ilen), overlap }
}

pub fn selftest() -> bool {
    let mut rng = Rng::new(99);
    let mut ok = true;
    for _ in 0..500 {
        let range = if rng.bool() { 2000 } else { 16000 };
        let g = gen_simple(&mut rng, 6, 30, range);
        let enc = EncChoice::random(&mut rng);
        let bytes = write_simple(&g, g.bbox(), &mut rng, &enc);
        match read_glyph(&bytes) {
            Some((Glyph::Simple(h), bb)) => {
                if h != g || bb != g.bbox() {
                    eprintln!("glyf selftest: simple glyph round trip differs");
                    ok = false;
                }
            }
            other => {
                if !(g.contours.is_empty() && matches!(other, Some((Glyph::Simple(_), _)))) {
                    eprintln!("glyf selftest: simple glyph did not parse");
                    ok = false;
                }
            }
        }
    }
    let c = Composite {
        components: vec![
            Component { gid: 3, args: Args::XY(-5, 300), scale: Scale::Matrix(100, -200, 300, 16384), extra_flags: 0x200, force_words: false },
            Component { gid: 4, args: Args::XY(1, 2), scale: Scale::None, extra_flags: 0, force_words: false },
        ],
        instructions: vec![1, 2, 3],
    };
    let bb = BBox { x_min: -1, y_min: -2, x_max: 3, y_max: 4 };
    match read_glyph(&write_composite(&c, bb)) {
        Some((Glyph::Composite(mut d), b2)) => {
            // force_words is an encoding choice, not content
            for (x, y) in d.components.iter_mut().zip(c.components.iter()) {
                x.force_words = y.force_words;
            }
            ok &= d == c && b2 == bb;
        }
        _ => ok = false,
    }
    // model: square with one off-curve corner
    let sq = [Pt { x: 0, y: 0, on: true }, Pt { x: 10, y: 0, on: false }, Pt { x: 10, y: 10, on: true }];
    let p = contour_path(&sq).unwrap();
    ok &= p.segs.len() == 2;
    let alloff = [Pt { x: 0, y: 0, on: false }, Pt { x: 10, y: 0, on: false }];
    let p = contour_path(&alloff).unwrap();
    ok &= p.start == (5.0, 0.0) && p.segs.len() == 2;
    if !ok {
        eprintln!("glyf selftest FAILED");
    }
    ok
}
