//! Independent cmap writer (from an abstract mapping + layout choices) and reader.

use super::{be16, be32, search_fields, W};
use crate::rt::Rng;
use std::collections::BTreeMap;

/// code -> glyph id (entries with glyph 0 are allowed: "explicitly unmapped inside a range")
pub type Map = BTreeMap<u32, u16>;

#[derive(Clone, Debug)]
pub struct Seg4 {
    pub start: u16,
    pub end: u16,
    pub kind: Seg4Kind,
}
#[derive(Clone, Debug)]
pub enum Seg4Kind {
    /// glyph = code + delta (mod 65536)
    Delta(u16),
    /// glyphIdArray slice `index`, with idDelta applied to non-zero entries
    Array { id_delta: u16, array: usize },
}

/// Layout of a format 4 subtable: segments + glyphIdArray slices (possibly shared).
#[derive(Clone, Debug, Default)]
pub struct Layout4 {
    pub segs: Vec<Seg4>,
    pub arrays: Vec<Vec<u16>>, // raw stored values
}

impl Layout4 {
    /// Choose a random valid layout for `map` (codes <= 0xFFFF). Every layout decodes to `map`
    /// under the OpenType rules; codes not in `map` decode to 0.
    pub fn choose(map: &Map, rng: &mut Rng) -> Layout4 {
        let mut l = Layout4::default();
        let codes: Vec<(u16, u16)> = map.iter().filter(|(c, _)| **c <= 0xFFFF).map(|(c, g)| (*c as u16, *g)).collect();
        let mut i = 0;
        while i < codes.len() {
            // grow a segment: contiguous codes, optionally bridging small gaps (array kind only)
            let allow_gaps = rng.chance(1, 3);
            let max_len = 1 + rng.small(40);
            let mut j = i;
            while j + 1 < codes.len() && (j + 1 - i) < max_len {
                let gap = codes[j + 1].0 - codes[j].0;
                if gap == 1 || (allow_gaps && gap <= 4) {
                    j += 1;
                } else {
                    break;
                }
            }
            let (start, end) = (codes[i].0, codes[j].0);
            let contiguous = (end - start) as usize == j - i;
            let delta_ok = contiguous
                && codes[i..=j].iter().all(|(c, g)| *g != 0 && g.wrapping_sub(*c) == codes[i].1.wrapping_sub(codes[i].0));
            if delta_ok && rng.chance(2, 3) {
                l.segs.push(Seg4 { start, end, kind: Seg4Kind::Delta(codes[i].1.wrapping_sub(codes[i].0)) });
            } else {
                // array kind; pick an idDelta such that no mapped glyph equals it (stored value would be 0)
                let mut id_delta = 0u16;
                if rng.chance(1, 2) {
                    for _ in 0..8 {
                        let d = match rng.below(3) {
                            0 => rng.u16(),
                            1 => 1 + rng.below(20) as u16,
                            _ => 0xFFFF - rng.below(20) as u16,
                        };
                        if codes[i..=j].iter().all(|(_, g)| *g != d) {
                            id_delta = d;
                            break;
                        }
                    }
                }
                let mut arr = Vec::new();
                let mut k = i;
                for c in start..=end {
                    if k <= j && codes[k].0 == c {
                        let g = codes[k].1;
                        arr.push(if g == 0 { 0 } else { g.wrapping_sub(id_delta) });
                        k += 1;
                    } else {
                        arr.push(0);
                    }
                    if c == u16::MAX {
                        break;
                    }
                }
                // share an identical earlier slice sometimes
                let shared = l.arrays.iter().position(|a| *a == arr);
                let array = match shared {
                    Some(ix) if rng.bool() => ix,
                    _ => {
                        l.arrays.push(arr);
                        l.arrays.len() - 1
                    }
                };
                l.segs.push(Seg4 { start, end, kind: Seg4Kind::Array { id_delta, array } });
            }
            i = j + 1;
        }
        // mandatory final segment
        if l.segs.last().map_or(true, |s| s.end != 0xFFFF) {
            l.segs.push(Seg4 { start: 0xFFFF, end: 0xFFFF, kind: Seg4Kind::Delta(1) });
        }
        l
    }

    pub fn write(&self, language: u16) -> Vec<u8> {
        let n = self.segs.len();
        // glyphIdArray = concatenation of slices
        let mut arr_off = Vec::new();
        let mut flat: Vec<u16> = Vec::new();
        for a in &self.arrays {
            arr_off.push(flat.len());
            flat.extend_from_slice(a);
        }
        let mut w = W::new();
        w.u16(4).u16(0).u16(language).u16((n * 2) as u16);
        let (sr, es, rs) = search_fields(n as u16, 2);
        w.u16(sr).u16(es).u16(rs);
        for s in &self.segs {
            w.u16(s.end);
        }
        w.u16(0);
        for s in &self.segs {
            w.u16(s.start);
        }
        for s in &self.segs {
            match s.kind {
                Seg4Kind::Delta(d) => w.u16(d),
                Seg4Kind::Array { id_delta, .. } => w.u16(id_delta),
            };
        }
        for (i, s) in self.segs.iter().enumerate() {
            match s.kind {
                Seg4Kind::Delta(_) => w.u16(0),
                Seg4Kind::Array { array, .. } => w.u16(((n - i) * 2 + arr_off[array] * 2) as u16),
            };
        }
        for v in &flat {
            w.u16(*v);
        }
        let len = w.len();
        w.set_u16(2, len.min(0xFFFF) as u16);
        w.b
    }
    pub fn byte_len(&self) -> usize {
        16 + 8 * self.segs.len() + 2 * self.arrays.iter().map(|a| a.len()).sum::<usize>()
    }
}

pub fn write_format0(map: &Map, language: u16) -> Vec<u8> {
    let mut w = W::new();
    w.u16(0).u16(262).u16(language);
    for c in 0..256u32 {
        w.u8(map.get(&c).copied().unwrap_or(0).min(255) as u8);
    }
    w.b
}

pub fn write_format6(map: &Map, language: u16, rng: &mut Rng) -> Vec<u8> {
    let codes: Vec<u32> = map.keys().copied().filter(|c| *c <= 0xFFFF).collect();
    let (first, last) = match (codes.first(), codes.last()) {
        (Some(f), Some(l)) => (*f, *l),
        _ => (rng.below(100) as u32, 0),
    };
    let count = if codes.is_empty() { 0 } else { last - first + 1 };
    let mut w = W::new();
    w.u16(6).u16((10 + 2 * count) as u16).u16(language).u16(first as u16).u16(count as u16);
    for c in first..first + count {
        w.u16(map.get(&c).copied().unwrap_or(0));
    }
    w.b
}

pub fn write_format10(map: &Map, language: u32) -> Vec<u8> {
    let (first, last) = match (map.keys().next(), map.keys().last()) {
        (Some(f), Some(l)) => (*f, *l),
        _ => (0, 0),
    };
    let count = if map.is_empty() { 0 } else { last - first + 1 };
    let mut w = W::new();
    w.u16(10).u16(0).u32(20 + 2 * count).u32(language).u32(first).u32(count);
    for c in first..first + count {
        w.u16(map.get(&c).copied().unwrap_or(0));
    }
    w.b
}

/// Groups of (start, end, startGlyph) covering exactly the non-zero entries of `map`; random splits.
pub fn groups12(map: &Map, rng: &mut Rng) -> Vec<(u32, u32, u32)> {
    let mut groups: Vec<(u32, u32, u32)> = Vec::new();
    for (&c, &g) in map {
        if g == 0 {
            continue;
        }
        if let Some(last) = groups.last_mut() {
            if last.1 + 1 == c && last.2 + (c - last.0) == g as u32 && !rng.chance(1, 5) {
                last.1 = c;
                continue;
            }
        }
        groups.push((c, c, g as u32));
    }
    groups
}

pub fn write_format12(groups: &[(u32, u32, u32)], language: u32) -> Vec<u8> {
    let mut w = W::new();
    w.u16(12).u16(0).u32(16 + 12 * groups.len() as u32).u32(language).u32(groups.len() as u32);
    for g in groups {
        w.u32(g.0).u32(g.1).u32(g.2);
    }
    w.b
}

/// Format 2 (high-byte mapping). `single`: one-byte codes; `double`: lead byte -> (first low byte, glyphs).
#[derive(Clone, Debug, Default)]
pub struct Layout2 {
    pub single: BTreeMap<u8, u16>,
    pub double: BTreeMap<u8, (u8, Vec<u16>)>,
    pub deltas: BTreeMap<u8, u16>, // idDelta per lead byte (0 key = sub-header 0)
    /// sub-header 0 covers only the span of the one-byte codes in use (firstCode != 0, entryCount < 256)
    /// instead of 0..=255; bytes outside the span are unmapped either way
    pub trim0: bool,
}

impl Layout2 {
    pub fn expected(&self) -> Map {
        let mut m = Map::new();
        for (&b, &g) in &self.single {
            if !self.double.contains_key(&b) {
                m.insert(b as u32, g);
            }
        }
        for (&hi, (first, gl)) in &self.double {
            for (i, &g) in gl.iter().enumerate() {
                m.insert(((hi as u32) << 8) | (*first as u32 + i as u32), g);
            }
        }
        m
    }
    pub fn write(&self, language: u16) -> Vec<u8> {
        // sub-header 0: one-byte codes, firstCode 0, entryCount 256; then one per lead byte
        let leads: Vec<u8> = self.double.keys().copied().collect();
        let nsub = 1 + leads.len();
        let mut w = W::new();
        w.u16(2).u16(0).u16(language);
        for b in 0..256u32 {
            let key = leads.iter().position(|&l| l as u32 == b).map(|p| (p + 1) * 8).unwrap_or(0);
            w.u16(key as u16);
        }
        // glyph arrays laid out after the sub-headers
        let mut arrays: Vec<Vec<u16>> = Vec::new();
        let d0 = self.deltas.get(&0).copied().unwrap_or(0);
        let mut a0 = Vec::new();
        let singles: Vec<u8> = self.single.keys().copied().filter(|b| !self.double.contains_key(b)).collect();
        let (first0, count0) = match (self.trim0, singles.first(), singles.last()) {
            (true, Some(&lo), Some(&hi)) => (lo as u32, hi as u32 - lo as u32 + 1),
            _ => (0u32, 256u32),
        };
        for b in first0..first0 + count0 {
            let g = if self.double.contains_key(&(b as u8)) { 0 } else { self.single.get(&(b as u8)).copied().unwrap_or(0) };
            a0.push(if g == 0 { 0 } else { g.wrapping_sub(d0) });
        }
        arrays.push(a0);
        for l in &leads {
            let d = self.deltas.get(l).copied().unwrap_or(0);
            arrays.push(self.double[l].1.iter().map(|&g| if g == 0 { 0 } else { g.wrapping_sub(d) }).collect());
        }
        let sub_at = w.len();
        let arrays_at = sub_at + 8 * nsub;
        let mut off = arrays_at;
        for (k, a) in arrays.iter().enumerate() {
            let (first, count, delta) = if k == 0 {
                (first0 as u16, count0 as u16, d0)
            } else {
                let l = leads[k - 1];
                (self.double[&l].0 as u16, a.len() as u16, self.deltas.get(&l).copied().unwrap_or(0))
            };
            let range_off_pos = sub_at + 8 * k + 6;
            w.u16(first).u16(count).u16(delta).u16((off - range_off_pos) as u16);
            off += 2 * a.len();
        }
        for a in &arrays {
            for v in a {
                w.u16(*v);
            }
        }
        let len = w.len();
        w.set_u16(2, len.min(0xFFFF) as u16);
        w.b
    }
}

#[derive(Clone, Debug)]
pub struct Record {
    pub platform: u16,
    pub encoding: u16,
    pub subtable: usize,
}

/// cmap table = header + records + subtables (records may share subtables).
pub fn write_cmap(records: &[Record], subtables: &[Vec<u8>]) -> Vec<u8> {
    let mut w = W::new();
    w.u16(0).u16(records.len() as u16);
    let mut offs = Vec::new();
    let mut at = 4 + 8 * records.len();
    for s in subtables {
        offs.push(at);
        at += s.len();
        at += at % 2;
    }
    for r in records {
        w.u16(r.platform).u16(r.encoding).u32(offs[r.subtable] as u32);
    }
    for s in subtables {
        w.bytes(s);
        if w.len() % 2 == 1 {
            w.u8(0);
        }
    }
    w.b
}

// ---- independent reader -------------------------------------------------------------------------

#[derive(Clone, Debug)]
pub struct EncRec {
    pub platform: u16,
    pub encoding: u16,
    pub offset: u32,
}

pub fn read_records(cmap: &[u8]) -> Option<Vec<EncRec>> {
    let n = be16(cmap, 2)? as usize;
    (0..n)
        .map(|i| {
            Some(EncRec { platform: be16(cmap, 4 + 8 * i)?, encoding: be16(cmap, 6 + 8 * i)?, offset: be32(cmap, 8 + 8 * i)? })
        })
        .collect()
}

pub fn subtable_format(cmap: &[u8], off: usize) -> Option<u16> {
    be16(cmap, off)
}

/// Look up one code in the subtable at `off` per the OpenType rules. None = malformed / out of table.
pub fn lookup(cmap: &[u8], off: usize, code: u32) -> Option<u16> {
    let d = cmap.get(off..)?;
    match be16(d, 0)? {
        0 => {
            if code < 256 {
                d.get(6 + code as usize).map(|&g| g as u16)
            } else {
                Some(0)
            }
        }
        2 => {
            if code > 0xFFFF {
                return Some(0);
            }
            let (hi, lo) = ((code >> 8) as usize, (code & 0xFF) as usize);
            let key_of = |b: usize| be16(d, 6 + 2 * b).map(|k| (k / 8) as usize);
            let k = if hi == 0 {
                if key_of(lo)? != 0 {
                    return Some(0); // a lone lead byte is not a character
                }
                0
            } else {
                let k = key_of(hi)?;
                if k == 0 {
                    return Some(0); // high byte is not a lead byte
                }
                k
            };
            let sh = 6 + 512 + 8 * k;
            let first = be16(d, sh)? as usize;
            let count = be16(d, sh + 2)? as usize;
            let delta = be16(d, sh + 4)?;
            let ro = be16(d, sh + 6)? as usize;
            if lo < first || lo >= first + count {
                return Some(0);
            }
            let v = be16(d, sh + 6 + ro + 2 * (lo - first))?;
            Some(if v == 0 { 0 } else { v.wrapping_add(delta) })
        }
        4 => {
            if code > 0xFFFF {
                return Some(0);
            }
            let c = code as u16;
            let n = (be16(d, 6)? / 2) as usize;
            let ends = 14;
            let starts = ends + 2 * n + 2;
            let deltas = starts + 2 * n;
            let ros = deltas + 2 * n;
            for i in 0..n {
                let end = be16(d, ends + 2 * i)?;
                if c <= end {
                    let start = be16(d, starts + 2 * i)?;
                    if c < start {
                        return Some(0);
                    }
                    let delta = be16(d, deltas + 2 * i)?;
                    let ro = be16(d, ros + 2 * i)?;
                    if ro == 0 {
                        return Some(c.wrapping_add(delta));
                    }
                    let at = ros + 2 * i + ro as usize + 2 * (c - start) as usize;
                    let v = be16(d, at)?;
                    return Some(if v == 0 { 0 } else { v.wrapping_add(delta) });
                }
            }
            Some(0)
        }
        6 => {
            let first = be16(d, 6)? as u32;
            let count = be16(d, 8)? as u32;
            if code >= first && code < first + count {
                be16(d, 10 + 2 * (code - first) as usize)
            } else {
                Some(0)
            }
        }
        10 => {
            let first = be32(d, 12)?;
            let count = be32(d, 16)?;
            if code >= first && (code - first) < count {
                be16(d, 20 + 2 * (code - first) as usize)
            } else {
                Some(0)
            }
        }
        12 => {
            let n = be32(d, 12)? as usize;
            // binary search over groups
            let (mut lo, mut hi) = (0usize, n);
            while lo < hi {
                let mid = (lo + hi) / 2;
                let s = be32(d, 16 + 12 * mid)?;
                let e = be32(d, 20 + 12 * mid)?;
                if code < s {
                    hi = mid;
                } else if code > e {
                    lo = mid + 1;
                } else {
                    let g = be32(d, 24 + 12 * mid)?.checked_add(code - s)?;
                    return Some(if g > 0xFFFF { 0 } else { g as u16 });
                }
            }
            Some(0)
        }
        _ => None,
    }
}

/// All (code, glyph != 0) pairs of a subtable (independent enumeration).
pub fn enumerate(cmap: &[u8], off: usize) -> Option<Vec<(u32, u16)>> {
    let d = cmap.get(off..)?;
    let mut out = Vec::new();
    let mut push = |c: u32, g: Option<u16>| {
        if let Some(g) = g {
            if g != 0 {
                out.push((c, g));
            }
        }
    };
    match be16(d, 0)? {
        0 => {
            for c in 0..256 {
                push(c, lookup(cmap, off, c));
            }
        }
        2 | 4 | 6 => {
            for c in 0..=0xFFFFu32 {
                push(c, lookup(cmap, off, c));
            }
        }
        10 => {
            let first = be32(d, 12)?;
            let count = be32(d, 16)?.min(0x11_0000);
            for c in first..first.saturating_add(count) {
                push(c, lookup(cmap, off, c));
            }
        }
        12 => {
            let n = be32(d, 12)? as usize;
            for i in 0..n {
                let s = be32(d, 16 + 12 * i)?;
                let e = be32(d, 20 + 12 * i)?;
                if e < s || e - s > 0x11_0000 {
                    return None;
                }
                for c in s..=e {
                    push(c, lookup(cmap, off, c));
                }
            }
        }
        _ => return None,
    }
    Some(out)
}

/// The preference order allsorts documents for choosing a subtable. Returns (record index, encoding kind).
#[derive(Copy, Clone, Debug, PartialEq, Eq)]
pub enum EncKind {
    Unicode,
    Symbol,
    MacRoman,
    Big5,
}
pub fn select(records: &[EncRec]) -> Option<(usize, EncKind)> {
    let find = |p: u16, e: u16| records.iter().position(|r| r.platform == p && r.encoding == e);
    if let Some(i) = find(3, 10) {
        return Some((i, EncKind::Unicode));
    }
    if let Some(i) = find(3, 1) {
        return Some((i, EncKind::Unicode));
    }
    if let Some(i) = find(0, 4) {
        return Some((i, EncKind::Unicode));
    }
    if let Some(i) = records.iter().position(|r| r.platform == 0) {
        return Some((i, EncKind::Unicode));
    }
    if let Some(i) = find(3, 0) {
        return Some((i, EncKind::Symbol));
    }
    if let Some(i) = find(1, 0) {
        return Some((i, EncKind::MacRoman));
    }
    if let Some(i) = find(3, 4) {
        return Some((i, EncKind::Big5));
    }
    None
}

pub fn selftest() -> bool {
    // every writer must be read back by the independent reader
    let mut rng = Rng::new(7);
    let mut ok = true;
    for round in 0..200 {
        let mut map = Map::new();
        let n = rng.below(60);
        let mut c = rng.below(300) as u32;
        for _ in 0..n {
            c += 1 + rng.small(300) as u32;
            if c > 0xFFFF {
                break;
            }
            map.insert(c, 1 + rng.below(2000) as u16);
        }
        if round % 5 == 0 {
            map.insert(0xFFFF, 7);
        }
        let l4 = Layout4::choose(&map, &mut rng);
        let t = write_cmap(&[Record { platform: 3, encoding: 1, subtable: 0 }], &[l4.write(0)]);
        let off = read_records(&t).unwrap()[0].offset as usize;
        for (&c, &g) in &map {
            if lookup(&t, off, c) != Some(g) {
                eprintln!("cmap selftest: format 4 code {:#x} expected {} got {:?}", c, g, lookup(&t, off, c));
                ok = false;
            }
        }
        for probe in [0u32, 1, 0xFFFE, 0xFFFF, 0x10000] {
            if !map.contains_key(&probe) && lookup(&t, off, probe) != Some(0) {
                ok = false;
            }
        }
        let g12 = groups12(&map, &mut rng);
        let t = write_cmap(&[Record { platform: 3, encoding: 10, subtable: 0 }], &[write_format12(&g12, 0)]);
        let off = read_records(&t).unwrap()[0].offset as usize;
        for (&c, &g) in &map {
            if lookup(&t, off, c) != Some(g) {
                ok = false;
            }
        }
        let t6 = write_cmap(&[Record { platform: 0, encoding: 3, subtable: 0 }], &[write_format6(&map, 0, &mut rng)]);
        let off = read_records(&t6).unwrap()[0].offset as usize;
        for (&c, &g) in &map {
            if lookup(&t6, off, c) != Some(g) {
                ok = false;
            }
        }
    }
    let mut l2 = Layout2::default();
    l2.single.insert(0x41, 5);
    l2.single.insert(0x81, 9); // shadowed by lead byte
    l2.double.insert(0x81, (0x40, vec![10, 0, 12]));
    l2.deltas.insert(0x81, 3);
    let t = write_cmap(&[Record { platform: 3, encoding: 4, subtable: 0 }], &[l2.write(0)]);
    let off = read_records(&t).unwrap()[0].offset as usize;
    ok &= lookup(&t, off, 0x41) == Some(5);
    ok &= lookup(&t, off, 0x81) == Some(0);
    ok &= lookup(&t, off, 0x8140) == Some(10);
    ok &= lookup(&t, off, 0x8141) == Some(0);
    ok &= lookup(&t, off, 0x8142) == Some(12);
    ok &= lookup(&t, off, 0x8143) == Some(0);
    if !ok {
        eprintln!("cmap selftest FAILED");
    }
    ok
}
