pub fn selftest() -> bool { true }
