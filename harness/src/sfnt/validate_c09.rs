//! INDEPENDENT structural validator for sfnt files written by allsorts (C09). Written from the
//! OpenType specification; shares no code with allsorts. Every rule has a stable id (`sig`).

use super::cff_c07;
use super::glyf::{self as ig, Glyph};
use super::tables as it;
use super::{be16, be32, checksum, parse_directory, search_fields, tag, tag_str};

#[derive(Clone, Debug)]
pub struct Finding {
    /// rule group: container | tables | glyf | cmap | other
    pub rule: &'static str,
    /// stable rule id
    pub sig: String,
    pub detail: String,
}

#[derive(Clone, Debug, Default)]
pub struct Opts {
    /// check relations between tables (maxp/hhea/hmtx/head/loca/glyf/CFF/cmap/post)
    pub cross_table: bool,
    /// head, hhea, maxp, hmtx, post and glyf+loca or CFF must be present
    pub require_core: bool,
    /// cmap must be present (not for the `Omit` target)
    pub require_cmap: bool,
    /// name and OS/2 must be present (instances; OS/2 only for CFF subsets)
    pub require_name: bool,
    pub require_os2: bool,
    /// hmtx length must be exact, post must be version 3 of 32 bytes (tables allsorts wrote itself)
    pub written_by_subset: bool,
}

#[derive(Clone, Debug, Default)]
pub struct Facts {
    pub num_tables: usize,
    pub num_glyphs: Option<usize>,
    pub cmap_formats: Vec<u16>,
    pub has_glyf: bool,
    pub has_cff: bool,
    pub has_cff2: bool,
    pub loca_long: bool,
    pub odd_length_tables: usize,
    pub composites: usize,
}

fn f(out: &mut Vec<Finding>, rule: &'static str, sig: &str, detail: String) {
    if out.len() < 40 {
        out.push(Finding { rule, sig: sig.to_string(), detail });
    }
}

pub fn validate(data: &[u8], opts: &Opts) -> (Vec<Finding>, Facts) {
    let mut out = Vec::new();
    let mut facts = Facts::default();
    // ---- container ----------------------------------------------------------------------------
    let dir = match parse_directory(data, 0) {
        Some(d) => d,
        None => {
            f(&mut out, "container", "directory-truncated", format!("file of {} bytes has no complete table directory", data.len()));
            return (out, facts);
        }
    };
    let n = dir.records.len();
    facts.num_tables = n;
    if ![0x0001_0000, tag("OTTO"), tag("true")].contains(&dir.version) {
        f(&mut out, "container", "sfnt-version", format!("sfnt version {:#010x}", dir.version));
    }
    let (sr, es, rs) = search_fields(n as u16, 16);
    if n > 0 && (dir.search_range, dir.entry_selector, dir.range_shift) != (sr, es, rs) {
        f(
            &mut out,
            "container",
            "search-fields",
            format!("numTables {}: searchRange/entrySelector/rangeShift = {}/{}/{} expected {}/{}/{}", n, dir.search_range, dir.entry_selector, dir.range_shift, sr, es, rs),
        );
    }
    for w in dir.records.windows(2) {
        if w[0].tag == w[1].tag {
            f(&mut out, "container", "duplicate-tag", format!("tag {} occurs twice", tag_str(w[0].tag)));
        } else if w[0].tag > w[1].tag {
            f(&mut out, "container", "directory-unsorted", format!("{} before {}", tag_str(w[0].tag), tag_str(w[1].tag)));
        }
    }
    let dir_end = 12 + 16 * n;
    let mut spans: Vec<(usize, usize, u32)> = Vec::new();
    let mut head_at = None;
    for r in &dir.records {
        let (o, l) = (r.offset as usize, r.length as usize);
        if o % 4 != 0 {
            f(&mut out, "container", "offset-unaligned", format!("table {} at offset {}", tag_str(r.tag), o));
        }
        if o < dir_end || o.checked_add(l).map_or(true, |e| e > data.len()) {
            f(&mut out, "container", "table-out-of-file", format!("table {} offset {} length {} file {}", tag_str(r.tag), o, l, data.len()));
            continue;
        }
        if l % 4 != 0 {
            facts.odd_length_tables += 1;
        }
        spans.push((o, o + l, r.tag));
        if r.tag == tag("head") {
            head_at = Some(o);
        }
        // per-table checksum; head is summed with checkSumAdjustment = 0
        let mut body = data[o..o + l].to_vec();
        if r.tag == tag("head") && body.len() >= 12 {
            body[8..12].copy_from_slice(&[0; 4]);
        }
        let cs = checksum(&body);
        if cs != r.checksum {
            f(&mut out, "container", if r.tag == tag("head") { "head-table-checksum" } else { "table-checksum" }, format!("table {} ({} bytes): directory checksum {:#010x}, computed {:#010x}", tag_str(r.tag), l, r.checksum, cs));
        }
    }
    spans.sort();
    let mut cursor = dir_end;
    for (s, e, t) in &spans {
        if *s < cursor {
            f(&mut out, "container", "tables-overlap", format!("table {} starts at {} before the end {} of the previous one", tag_str(*t), s, cursor));
        } else {
            if data[cursor..*s].iter().any(|b| *b != 0) {
                f(&mut out, "container", "padding-not-zero", format!("non-zero padding before table {}", tag_str(*t)));
            }
        }
        cursor = cursor.max(*e);
    }
    if cursor < data.len() {
        if data[cursor..].iter().any(|b| *b != 0) {
            f(&mut out, "container", "padding-not-zero", "non-zero padding after the last table".into());
        }
    }
    if let Some(h) = head_at {
        if let Some(adj) = be32(data, h + 8) {
            let mut copy = data.to_vec();
            copy[h + 8..h + 12].copy_from_slice(&[0; 4]);
            let want = 0xB1B0_AFBAu32.wrapping_sub(checksum(&copy));
            if adj != want {
                f(&mut out, "container", "checksum-adjustment", format!("head.checkSumAdjustment {:#010x} expected {:#010x}", adj, want));
            }
        }
        if be32(data, h + 12) != Some(0x5F0F_3CF5) {
            f(&mut out, "tables", "head-magic", "head.magicNumber is not 0x5F0F3CF5".into());
        }
    }
    // ---- tables -------------------------------------------------------------------------------
    let get = |t: &str| -> Option<&[u8]> {
        let r = dir.find(tag(t))?;
        data.get(r.offset as usize..(r.offset as usize).checked_add(r.length as usize)?)
    };
    facts.has_glyf = get("glyf").is_some();
    facts.has_cff = get("CFF ").is_some();
    facts.has_cff2 = get("CFF2").is_some();
    if opts.require_core {
        for t in ["head", "hhea", "maxp", "hmtx", "post"] {
            if get(t).is_none() {
                f(&mut out, "tables", "required-table-missing", format!("table {} missing", t));
            }
        }
        if !(facts.has_cff || facts.has_cff2 || (facts.has_glyf && get("loca").is_some())) {
            f(&mut out, "tables", "required-table-missing", "neither glyf+loca nor CFF / CFF2 present".into());
        }
    }
    if opts.require_cmap && get("cmap").is_none() {
        f(&mut out, "tables", "required-table-missing", "table cmap missing".into());
    }
    if opts.require_name && get("name").is_none() {
        f(&mut out, "tables", "required-table-missing", "table name missing".into());
    }
    if opts.require_os2 && get("OS/2").is_none() {
        f(&mut out, "tables", "required-table-missing", "table OS/2 missing".into());
    }
    if !opts.cross_table {
        return (out, facts);
    }
    let head = get("head").and_then(it::Head::read);
    if get("head").map_or(false, |h| h.len() < 54) {
        f(&mut out, "tables", "head-length", format!("head has {} bytes", get("head").map_or(0, |h| h.len())));
    }
    let num_glyphs = get("maxp").and_then(it::maxp_num_glyphs).map(|v| v as usize);
    facts.num_glyphs = num_glyphs;
    if let Some(m) = get("maxp") {
        let ver = be32(m, 0).unwrap_or(0);
        let want = if ver == 0x0001_0000 { 32 } else { 6 };
        if (ver != 0x0001_0000 && ver != 0x0000_5000) || m.len() < want {
            f(&mut out, "tables", "maxp-version-length", format!("maxp version {:#x} length {}", ver, m.len()));
        }
        if facts.has_glyf && ver != 0x0001_0000 {
            f(&mut out, "tables", "maxp-version-vs-outlines", format!("maxp version {:#x} in a font with glyf", ver));
        }
    }
    // hhea / hmtx
    if let (Some(hhea), Some(n)) = (get("hhea"), num_glyphs) {
        if hhea.len() < 36 {
            f(&mut out, "tables", "hhea-length", format!("hhea has {} bytes", hhea.len()));
        } else if let Some(h) = it::Hhea::read(hhea) {
            let nhm = h.num_h_metrics as usize;
            if nhm > n {
                f(&mut out, "tables", "numberOfHMetrics>numGlyphs", format!("numberOfHMetrics {} numGlyphs {}", nhm, n));
            } else if nhm == 0 && n > 0 {
                f(&mut out, "tables", "numberOfHMetrics=0", format!("numGlyphs {}", n));
            } else if let Some(hmtx) = get("hmtx") {
                let want = 4 * nhm + 2 * (n - nhm);
                if hmtx.len() < want {
                    f(&mut out, "tables", "hmtx-too-short", format!("hmtx has {} bytes, numberOfHMetrics {} numGlyphs {} need {}", hmtx.len(), nhm, n, want));
                } else if hmtx.len() > want && opts.written_by_subset {
                    f(&mut out, "tables", "hmtx-too-long", format!("hmtx has {} bytes, numberOfHMetrics {} numGlyphs {} need {}", hmtx.len(), nhm, n, want));
                }
            }
        }
    }
    // loca / glyf
    if let (Some(glyf), Some(n)) = (get("glyf"), num_glyphs) {
        match (get("loca"), &head) {
            (Some(loca), Some(h)) => {
                let fmt = h.index_to_loc_format;
                if fmt != 0 && fmt != 1 {
                    f(&mut out, "glyf", "indexToLocFormat-invalid", format!("head.indexToLocFormat = {}", fmt));
                } else {
                    let long = fmt == 1;
                    facts.loca_long = long;
                    let want = (n + 1) * if long { 4 } else { 2 };
                    if loca.len() != want {
                        f(&mut out, "glyf", "loca-length", format!("loca has {} bytes; numGlyphs {} indexToLocFormat {} need {}", loca.len(), n, fmt, want));
                    }
                    if let Some(offs) = ig::read_loca(loca, n, long) {
                        let mut ok = true;
                        for w in offs.windows(2) {
                            if w[1] < w[0] {
                                f(&mut out, "glyf", "loca-not-monotone", format!("offset {} after {}", w[1], w[0]));
                                ok = false;
                                break;
                            }
                        }
                        if offs.last().map_or(false, |l| *l as usize > glyf.len()) {
                            f(&mut out, "glyf", "loca-beyond-glyf", format!("last loca offset {} glyf length {}", offs.last().copied().unwrap_or(0), glyf.len()));
                            ok = false;
                        }
                        if ok {
                            for g in 0..n {
                                let rec = &glyf[offs[g] as usize..offs[g + 1] as usize];
                                if !rec.is_empty() && rec.len() < 10 {
                                    f(&mut out, "glyf", "glyph-unparsable", format!("glyph {} has a record of {} bytes", g, rec.len()));
                                    continue;
                                }
                                match ig::read_glyph(rec) {
                                    Some((Glyph::Composite(c), _)) => {
                                        facts.composites += 1;
                                        for comp in &c.components {
                                            if comp.gid as usize >= n {
                                                f(&mut out, "glyf", "component-id-out-of-range", format!("glyph {} references component {} (numGlyphs {})", g, comp.gid, n));
                                            }
                                        }
                                    }
                                    Some(_) => {}
                                    None => f(&mut out, "glyf", "glyph-unparsable", format!("glyph {} ({} bytes) does not parse", g, rec.len())),
                                }
                            }
                        }
                    }
                }
            }
            (None, _) => f(&mut out, "glyf", "loca-missing", "glyf without loca".into()),
            _ => {}
        }
    }
    // CFF
    if let (Some(cff), Some(n)) = (get("CFF "), num_glyphs) {
        match cff_c07::parse(cff) {
            Some(c) => {
                if c.charstrings.len() != n {
                    f(&mut out, "tables", "cff-charstring-count", format!("CharStrings INDEX has {} entries, maxp.numGlyphs {}", c.charstrings.len(), n));
                }
            }
            None => f(&mut out, "tables", "cff-unparsable", "CFF table does not parse".into()),
        }
    }
    // cmap
    if let Some(cmap) = get("cmap") {
        validate_cmap(cmap, num_glyphs, &mut out, &mut facts);
    }
    // post
    if let Some(post) = get("post") {
        let ver = be32(post, 0).unwrap_or(0);
        if post.len() < 32 {
            f(&mut out, "other", "post-length", format!("post has {} bytes", post.len()));
        } else if ver == 0x0003_0000 && post.len() != 32 {
            f(&mut out, "other", "post-v3-length", format!("post version 3 has {} bytes", post.len()));
        } else if ver == 0x0002_0000 {
            match (be16(post, 32), num_glyphs) {
                (Some(k), Some(n)) if k as usize != n => f(&mut out, "other", "post-v2-numGlyphs", format!("post.numGlyphs {} maxp.numGlyphs {}", k, n)),
                (None, _) => f(&mut out, "other", "post-length", "post version 2 without numGlyphs".into()),
                _ => {}
            }
        }
        if opts.written_by_subset && ver != 0x0003_0000 {
            f(&mut out, "other", "post-not-v3", format!("post version {:#x}", ver));
        }
    }
    // name
    if let Some(name) = get("name") {
        let ok = (|| {
            let fmt = be16(name, 0)?;
            let count = be16(name, 2)? as usize;
            let so = be16(name, 4)? as usize;
            if fmt > 1 || so > name.len() || 6 + 12 * count > name.len() {
                return None;
            }
            for i in 0..count {
                let len = be16(name, 6 + 12 * i + 8)? as usize;
                let off = be16(name, 6 + 12 * i + 10)? as usize;
                if so + off + len > name.len() {
                    return None;
                }
            }
            Some(())
        })();
        if ok.is_none() {
            f(&mut out, "other", "name-unparsable", format!("name table of {} bytes is inconsistent", name.len()));
        }
    }
    // OS/2
    if let Some(os2) = get("OS/2") {
        let ver = be16(os2, 0).unwrap_or(0xFFFF);
        let min = match ver {
            0 => 68,
            1 => 86,
            2 | 3 | 4 => 96,
            5 => 100,
            _ => usize::MAX,
        };
        if os2.len() < min {
            f(&mut out, "other", "os2-version-length", format!("OS/2 version {} with {} bytes", ver, os2.len()));
        }
    }
    (out, facts)
}

pub fn validate_cmap(cmap: &[u8], num_glyphs: Option<usize>, out: &mut Vec<Finding>, facts: &mut Facts) {
    let nrec = match (be16(cmap, 0), be16(cmap, 2)) {
        (Some(0), Some(n)) => n as usize,
        _ => {
            f(out, "cmap", "cmap-header", "cmap version is not 0 or header truncated".into());
            return;
        }
    };
    if 4 + 8 * nrec > cmap.len() {
        f(out, "cmap", "cmap-header", format!("{} encoding records do not fit in {} bytes", nrec, cmap.len()));
        return;
    }
    let mut prev: Option<(u16, u16)> = None;
    let mut seen_offsets: Vec<usize> = Vec::new();
    for i in 0..nrec {
        let p = be16(cmap, 4 + 8 * i).unwrap_or(0);
        let e = be16(cmap, 6 + 8 * i).unwrap_or(0);
        let off = be32(cmap, 8 + 8 * i).unwrap_or(0) as usize;
        if let Some(pr) = prev {
            if pr >= (p, e) {
                f(out, "cmap", "cmap-records-unsorted", format!("record ({},{}) after ({},{})", p, e, pr.0, pr.1));
            }
        }
        prev = Some((p, e));
        if off < 4 + 8 * nrec || off + 4 > cmap.len() {
            f(out, "cmap", "cmap-subtable-offset", format!("record ({},{}) offset {} table length {}", p, e, off, cmap.len()));
            continue;
        }
        if seen_offsets.contains(&off) {
            continue;
        }
        seen_offsets.push(off);
        let d = &cmap[off..];
        let fmt = be16(d, 0).unwrap_or(0xFFFF);
        facts.cmap_formats.push(fmt);
        match fmt {
            0 => {
                if be16(d, 2) != Some(262) || d.len() < 262 {
                    f(out, "cmap", "format0-length", format!("length field {:?}, {} bytes available", be16(d, 2), d.len()));
                } else if let Some(n) = num_glyphs {
                    if let Some(b) = d[6..262].iter().find(|g| **g as usize >= n) {
                        f(out, "cmap", "format0-glyph-out-of-range", format!("glyph {} numGlyphs {}", b, n));
                    }
                }
            }
            4 => validate_format4(d, num_glyphs, out),
            6 => {
                let len = be16(d, 2).unwrap_or(0) as usize;
                let count = be16(d, 8).unwrap_or(0) as usize;
                let first = be16(d, 6).unwrap_or(0) as usize;
                if len != 10 + 2 * count || len > d.len() {
                    f(out, "cmap", "format6-length", format!("length {} entryCount {} available {}", len, count, d.len()));
                } else if first + count > 0x10000 {
                    f(out, "cmap", "format6-range", format!("firstCode {} entryCount {}", first, count));
                } else if let Some(n) = num_glyphs {
                    for k in 0..count {
                        if be16(d, 10 + 2 * k).map_or(false, |g| g as usize >= n) {
                            f(out, "cmap", "format6-glyph-out-of-range", format!("entry {} numGlyphs {}", k, n));
                            break;
                        }
                    }
                }
            }
            12 => {
                let len = be32(d, 4).unwrap_or(0) as usize;
                let ng = be32(d, 12).unwrap_or(0) as usize;
                if be16(d, 2) != Some(0) {
                    f(out, "cmap", "format12-reserved", "reserved field not 0".into());
                }
                if len != 16 + 12 * ng || len > d.len() {
                    f(out, "cmap", "format12-length", format!("length {} numGroups {} available {}", len, ng, d.len()));
                } else {
                    let mut prev_end: Option<u32> = None;
                    for g in 0..ng {
                        let s = be32(d, 16 + 12 * g).unwrap_or(0);
                        let e = be32(d, 20 + 12 * g).unwrap_or(0);
                        let gid = be32(d, 24 + 12 * g).unwrap_or(0);
                        if e < s {
                            f(out, "cmap", "format12-start>end", format!("group {}: {:#x}..{:#x}", g, s, e));
                            break;
                        }
                        if prev_end.map_or(false, |p| s <= p) {
                            f(out, "cmap", "format12-groups-unsorted-or-overlapping", format!("group {} starts at {:#x}, previous ends at {:#x}", g, s, prev_end.unwrap_or(0)));
                            break;
                        }
                        if e > 0x10FFFF {
                            f(out, "cmap", "format12-beyond-unicode", format!("group {} ends at {:#x}", g, e));
                        }
                        if let Some(n) = num_glyphs {
                            if (gid as u64 + (e - s) as u64) >= n as u64 {
                                f(out, "cmap", "format12-glyph-out-of-range", format!("group {}: glyphs {}..{} numGlyphs {}", g, gid, gid as u64 + (e - s) as u64, n));
                                break;
                            }
                        }
                        prev_end = Some(e);
                    }
                }
            }
            2 | 8 | 10 | 13 | 14 => {}
            _ => f(out, "cmap", "cmap-format-unknown", format!("subtable format {}", fmt)),
        }
    }
}

fn validate_format4(d: &[u8], num_glyphs: Option<usize>, out: &mut Vec<Finding>) {
    let len = be16(d, 2).unwrap_or(0) as usize;
    let sc2 = be16(d, 6).unwrap_or(0) as usize;
    if sc2 == 0 || sc2 % 2 != 0 {
        f(out, "cmap", "format4-segCountX2", format!("segCountX2 = {}", sc2));
        return;
    }
    let n = sc2 / 2;
    let (sr, es, rs) = search_fields(n as u16, 2);
    let got = (be16(d, 8).unwrap_or(0), be16(d, 10).unwrap_or(0), be16(d, 12).unwrap_or(0));
    if got != (sr, es, rs) {
        f(out, "cmap", "format4-search-fields", format!("segCount {}: searchRange/entrySelector/rangeShift {}/{}/{} expected {}/{}/{}", n, got.0, got.1, got.2, sr, es, rs));
    }
    let fixed = 16 + 8 * n;
    if len < fixed || len > d.len() || (len - fixed) % 2 != 0 {
        f(out, "cmap", "format4-length", format!("length field {} segCount {} bytes available {}", len, n, d.len()));
        return;
    }
    let ends = 14;
    let starts = ends + 2 * n + 2;
    let deltas = starts + 2 * n;
    let ros = deltas + 2 * n;
    if be16(d, ends + 2 * n) != Some(0) {
        f(out, "cmap", "format4-reservedPad", "reservedPad is not 0".into());
    }
    let mut prev_end: Option<u16> = None;
    for i in 0..n {
        let end = be16(d, ends + 2 * i).unwrap_or(0);
        let start = be16(d, starts + 2 * i).unwrap_or(0);
        let delta = be16(d, deltas + 2 * i).unwrap_or(0);
        let ro = be16(d, ros + 2 * i).unwrap_or(0) as usize;
        if start > end {
            f(out, "cmap", "format4-start>end", format!("segment {}: {:#x}..{:#x}", i, start, end));
            return;
        }
        if prev_end.map_or(false, |p| end <= p) {
            f(out, "cmap", "format4-endCodes-not-increasing", format!("segment {} ends at {:#x}, previous at {:#x}", i, end, prev_end.unwrap_or(0)));
            return;
        }
        if prev_end.map_or(false, |p| start <= p) {
            f(out, "cmap", "format4-segments-overlap", format!("segment {} starts at {:#x}, previous ends at {:#x}", i, start, prev_end.unwrap_or(0)));
            return;
        }
        prev_end = Some(end);
        if ro != 0 {
            if ro % 2 != 0 {
                f(out, "cmap", "format4-idRangeOffset-odd", format!("segment {} idRangeOffset {}", i, ro));
                return;
            }
            let first = ros + 2 * i + ro;
            let last = first + 2 * (end - start) as usize;
            if first < fixed || last + 2 > len {
                f(out, "cmap", "format4-idRangeOffset-outside-table", format!("segment {} ({:#x}..{:#x}) idRangeOffset {} addresses bytes {}..{} of a subtable of {} (glyphIdArray starts at {})", i, start, end, ro, first, last + 2, len, fixed));
                return;
            }
            if let Some(ng) = num_glyphs {
                for c in start..=end {
                    let v = be16(d, first + 2 * (c - start) as usize).unwrap_or(0);
                    if v != 0 && v.wrapping_add(delta) as usize >= ng {
                        f(out, "cmap", "format4-glyph-out-of-range", format!("code {:#x} -> glyph {} numGlyphs {}", c, v.wrapping_add(delta), ng));
                        return;
                    }
                    if c == u16::MAX {
                        break;
                    }
                }
            }
        } else if let Some(ng) = num_glyphs {
            // the whole run start+delta ..= end+delta (mod 65536) must be valid glyph ids
            let g0 = start.wrapping_add(delta) as usize;
            let g1 = end.wrapping_add(delta) as usize;
            let is_terminator = start == 0xFFFF && end == 0xFFFF;
            if !is_terminator && (g0 >= ng || g1 >= ng || g1 < g0) {
                f(out, "cmap", "format4-glyph-out-of-range", format!("segment {:#x}..{:#x} idDelta {} -> glyphs {}..{} numGlyphs {}", start, end, delta, g0, g1, ng));
                return;
            }
            if is_terminator && g0 >= ng {
                f(out, "cmap", "format4-glyph-out-of-range", format!("final segment maps 0xFFFF to glyph {} numGlyphs {}", g0, ng));
                return;
            }
        }
    }
    if prev_end != Some(0xFFFF) {
        f(out, "cmap", "format4-last-endCode", format!("last endCode is {:#x}", prev_end.unwrap_or(0)));
    }
}
