//! Minimal INDEPENDENT CFF (version 1) reader used by C07/C09: INDEX and DICT structure, glyph
//! count, FDSelect, Private DICT width defaults, local/global subroutines, and the advance width a
//! Type 2 charstring declares (first operand before the first stack-clearing operator).
//! Written from Adobe Technical Notes #5176 / #5177; shares no code with allsorts.

use super::{be16, be32};

#[derive(Clone, Debug, Default)]
pub struct Index {
    /// (start, end) byte ranges inside the table
    pub items: Vec<(usize, usize)>,
    pub end: usize,
}

pub fn parse_index(d: &[u8], at: usize) -> Option<Index> {
    let count = be16(d, at)? as usize;
    if count == 0 {
        return Some(Index { items: Vec::new(), end: at + 2 });
    }
    let off_size = *d.get(at + 2)? as usize;
    if !(1..=4).contains(&off_size) {
        return None;
    }
    let offs_at = at + 3;
    let data_at = offs_at + (count + 1) * off_size - 1; // offsets are relative to the byte before the data
    let read_off = |i: usize| -> Option<usize> {
        let o = offs_at + i * off_size;
        let b = d.get(o..o + off_size)?;
        let mut v = 0usize;
        for &x in b {
            v = (v << 8) | x as usize;
        }
        Some(v)
    };
    let mut items = Vec::with_capacity(count);
    let mut prev = read_off(0)?;
    if prev != 1 {
        return None;
    }
    for i in 1..=count {
        let o = read_off(i)?;
        if o < prev {
            return None;
        }
        let (s, e) = (data_at + prev, data_at + o);
        if e > d.len() {
            return None;
        }
        items.push((s, e));
        prev = o;
    }
    Some(Index { items, end: data_at + prev })
}

#[derive(Clone, Debug, PartialEq)]
pub enum Num {
    Int(i64),
    Real(f64),
}
impl Num {
    pub fn as_f64(&self) -> f64 {
        match self {
            Num::Int(i) => *i as f64,
            Num::Real(r) => *r,
        }
    }
    pub fn as_usize(&self) -> Option<usize> {
        match self {
            Num::Int(i) if *i >= 0 => Some(*i as usize),
            _ => None,
        }
    }
}

/// DICT as a list of (operator, operands); two-byte operators are 0x0C00 | second byte.
pub fn parse_dict(d: &[u8]) -> Option<Vec<(u16, Vec<Num>)>> {
    let mut out = Vec::new();
    let mut ops: Vec<Num> = Vec::new();
    let mut i = 0;
    while i < d.len() {
        let b = d[i];
        match b {
            0..=21 => {
                let op = if b == 12 {
                    i += 1;
                    0x0C00 | *d.get(i)? as u16
                } else {
                    b as u16
                };
                i += 1;
                out.push((op, std::mem::take(&mut ops)));
            }
            28 => {
                ops.push(Num::Int(be16(d, i + 1)? as i16 as i64));
                i += 3;
            }
            29 => {
                ops.push(Num::Int(be32(d, i + 1)? as i32 as i64));
                i += 5;
            }
            30 => {
                // real number: nibbles
                let mut s = String::new();
                i += 1;
                'outer: loop {
                    let byte = *d.get(i)?;
                    i += 1;
                    for nib in [byte >> 4, byte & 0xF] {
                        match nib {
                            0..=9 => s.push((b'0' + nib) as char),
                            0xA => s.push('.'),
                            0xB => s.push('E'),
                            0xC => s.push_str("E-"),
                            0xE => s.push('-'),
                            0xF => break 'outer,
                            _ => return None,
                        }
                    }
                }
                ops.push(Num::Real(s.parse::<f64>().ok()?));
            }
            32..=246 => {
                ops.push(Num::Int(b as i64 - 139));
                i += 1;
            }
            247..=250 => {
                ops.push(Num::Int((b as i64 - 247) * 256 + *d.get(i + 1)? as i64 + 108));
                i += 2;
            }
            251..=254 => {
                ops.push(Num::Int(-(b as i64 - 251) * 256 - *d.get(i + 1)? as i64 - 108));
                i += 2;
            }
            _ => return None,
        }
    }
    Some(out)
}

fn dict_get<'a>(dict: &'a [(u16, Vec<Num>)], op: u16) -> Option<&'a Vec<Num>> {
    dict.iter().find(|(o, _)| *o == op).map(|(_, v)| v)
}

#[derive(Clone, Debug, Default)]
pub struct Private {
    pub default_width: f64,
    pub nominal_width: f64,
    pub subrs: Vec<(usize, usize)>,
}

#[derive(Clone, Debug)]
pub struct Cff {
    pub charstrings: Vec<(usize, usize)>,
    pub gsubrs: Vec<(usize, usize)>,
    pub is_cid: bool,
    pub privates: Vec<Private>,
    /// FD index per glyph (all 0 for name-keyed fonts)
    pub fd_of: Vec<u8>,
    pub num_fonts: usize,
}

fn parse_private(d: &[u8], size: usize, off: usize) -> Option<Private> {
    let body = d.get(off..off.checked_add(size)?)?;
    let dict = parse_dict(body)?;
    let mut p = Private::default();
    if let Some(v) = dict_get(&dict, 20) {
        p.default_width = v.last()?.as_f64();
    }
    if let Some(v) = dict_get(&dict, 21) {
        p.nominal_width = v.last()?.as_f64();
    }
    if let Some(v) = dict_get(&dict, 19) {
        let rel = v.last()?.as_usize()?;
        p.subrs = parse_index(d, off + rel)?.items;
    }
    Some(p)
}

pub fn parse(d: &[u8]) -> Option<Cff> {
    let major = *d.first()?;
    if major != 1 {
        return None;
    }
    let hdr = *d.get(2)? as usize;
    let names = parse_index(d, hdr)?;
    let tops = parse_index(d, names.end)?;
    let strings = parse_index(d, tops.end)?;
    let gsubrs = parse_index(d, strings.end)?;
    let num_fonts = tops.items.len();
    let (ts, te) = *tops.items.first()?;
    let top = parse_dict(&d[ts..te])?;
    let cs_off = dict_get(&top, 17)?.last()?.as_usize()?;
    let charstrings = parse_index(d, cs_off)?.items;
    let n = charstrings.len();
    let is_cid = dict_get(&top, 0x0C1E).is_some();
    let mut privates = Vec::new();
    let mut fd_of = vec![0u8; n];
    if is_cid {
        let fda = dict_get(&top, 0x0C24)?.last()?.as_usize()?;
        let fds = dict_get(&top, 0x0C25)?.last()?.as_usize()?;
        let fdarray = parse_index(d, fda)?;
        for (s, e) in &fdarray.items {
            let fd = parse_dict(&d[*s..*e])?;
            match dict_get(&fd, 18) {
                Some(v) if v.len() >= 2 => privates.push(parse_private(d, v[0].as_usize()?, v[1].as_usize()?)?),
                _ => privates.push(Private::default()),
            }
        }
        match *d.get(fds)? {
            0 => {
                for g in 0..n {
                    fd_of[g] = *d.get(fds + 1 + g)?;
                }
            }
            3 => {
                let nr = be16(d, fds + 1)? as usize;
                for r in 0..nr {
                    let first = be16(d, fds + 3 + 3 * r)? as usize;
                    let fd = *d.get(fds + 5 + 3 * r)?;
                    let next = be16(d, fds + 3 + 3 * (r + 1))? as usize;
                    if next < first {
                        return None;
                    }
                    for g in first..next.min(n) {
                        fd_of[g] = fd;
                    }
                }
            }
            _ => return None,
        }
        if fd_of.iter().any(|&f| f as usize >= privates.len()) {
            return None;
        }
    } else {
        match dict_get(&top, 18) {
            Some(v) if v.len() >= 2 => privates.push(parse_private(d, v[0].as_usize()?, v[1].as_usize()?)?),
            _ => privates.push(Private::default()),
        }
    }
    Some(Cff { charstrings, gsubrs: gsubrs.items, is_cid, privates, fd_of, num_fonts })
}

fn bias(n: usize) -> i64 {
    if n < 1240 {
        107
    } else if n < 33900 {
        1131
    } else {
        32768
    }
}

/// Advance width declared by charstring `gid`: Some(width) or None when it cannot be determined
/// by this minimal scanner (arithmetic operators before the first stack-clearing operator,
/// malformed data, excessive nesting).
pub fn width(d: &[u8], cff: &Cff, gid: usize) -> Option<f64> {
    let (s, e) = *cff.charstrings.get(gid)?;
    let p = cff.privates.get(*cff.fd_of.get(gid)? as usize)?;
    let mut stack: Vec<f64> = Vec::new();
    // explicit call stack of (data range, position)
    let mut frames: Vec<(usize, usize)> = vec![(s, e)];
    let mut pos = s;
    let mut steps = 0;
    loop {
        steps += 1;
        if steps > 10_000 {
            return None;
        }
        let (_, end) = *frames.last()?;
        if pos >= end {
            return None;
        }
        let b = d[pos];
        match b {
            28 => {
                stack.push(be16(d, pos + 1)? as i16 as f64);
                pos += 3;
            }
            32..=246 => {
                stack.push(b as f64 - 139.0);
                pos += 1;
            }
            247..=250 => {
                stack.push(((b as i64 - 247) * 256 + *d.get(pos + 1)? as i64 + 108) as f64);
                pos += 2;
            }
            251..=254 => {
                stack.push((-(b as i64 - 251) * 256 - *d.get(pos + 1)? as i64 - 108) as f64);
                pos += 2;
            }
            255 => {
                stack.push(be32(d, pos + 1)? as i32 as f64 / 65536.0);
                pos += 5;
            }
            10 | 29 => {
                let idx = stack.pop()? as i64;
                let subrs = if b == 10 { &p.subrs } else { &cff.gsubrs };
                let i = idx + bias(subrs.len());
                if i < 0 || frames.len() > 10 {
                    return None;
                }
                let (ss, se) = *subrs.get(i as usize)?;
                // remember where to continue in the caller
                let last = frames.len() - 1;
                frames[last].0 = pos + 1;
                frames.push((ss, se));
                pos = ss;
            }
            11 => {
                frames.pop()?;
                pos = frames.last()?.0;
            }
            1 | 3 | 18 | 23 | 19 | 20 => {
                // hstem vstem hstemhm vstemhm hintmask cntrmask: pairs
                return Some(if stack.len() % 2 == 1 { p.nominal_width + stack[0] } else { p.default_width });
            }
            21 => return Some(if stack.len() > 2 { p.nominal_width + stack[0] } else { p.default_width }),
            4 | 22 => return Some(if stack.len() > 1 { p.nominal_width + stack[0] } else { p.default_width }),
            14 => return Some(if stack.len() == 1 || stack.len() == 5 { p.nominal_width + stack[0] } else { p.default_width }),
            _ => return None,
        }
    }
}
