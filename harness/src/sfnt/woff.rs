//! Independent WOFF 1.0 writer (zlib through flate2 used as an encoder only).

use super::{checksum, W};
use std::io::Write;

pub fn zlib(data: &[u8], level: u32) -> Vec<u8> {
    let mut e = flate2::write::ZlibEncoder::new(Vec::new(), flate2::Compression::new(level));
    e.write_all(data).expect("zlib write");
    e.finish().expect("zlib finish")
}

#[derive(Clone, Debug)]
pub struct WoffTable {
    pub tag: u32,
    pub data: Vec<u8>,
    /// ask for compression (honoured only when the compressed form is strictly smaller, as the spec demands)
    pub compress: bool,
    pub level: u32,
}

/// Returns (bytes, per-table "was stored compressed").
pub fn build_woff(flavor: u32, tables: &[WoffTable], metadata: Option<&[u8]>, private: Option<&[u8]>, sort_dir: bool) -> (Vec<u8>, Vec<bool>) {
    let n = tables.len();
    let mut w = W::new();
    w.u32(0x774F4646).u32(flavor).u32(0).u16(n as u16).u16(0);
    // totalSfntSize: header + directory + 4-aligned tables
    let total: usize = 12 + 16 * n + tables.iter().map(|t| (t.data.len() + 3) & !3).sum::<usize>();
    w.u32(total as u32).u16(1).u16(0);
    let meta_at = w.len();
    w.u32(0).u32(0).u32(0).u32(0).u32(0);
    let dir_at = w.len();
    w.b.resize(dir_at + 20 * n, 0);
    let mut order: Vec<usize> = (0..n).collect();
    if sort_dir {
        order.sort_by_key(|&i| tables[i].tag);
    }
    let mut compressed_flags = vec![false; n];
    let mut placed = vec![(0u32, 0u32); n];
    for i in 0..n {
        let t = &tables[i];
        w.pad4();
        let at = w.len();
        let body = if t.compress {
            let z = zlib(&t.data, t.level);
            if z.len() < t.data.len() {
                compressed_flags[i] = true;
                z
            } else {
                t.data.clone()
            }
        } else {
            t.data.clone()
        };
        placed[i] = (at as u32, body.len() as u32);
        w.bytes(&body);
    }
    for (slot, &i) in order.iter().enumerate() {
        let o = dir_at + 20 * slot;
        w.set_u32(o, tables[i].tag);
        w.set_u32(o + 4, placed[i].0);
        w.set_u32(o + 8, placed[i].1);
        w.set_u32(o + 12, tables[i].data.len() as u32);
        w.set_u32(o + 16, checksum(&tables[i].data));
    }
    if let Some(m) = metadata {
        w.pad4();
        let z = zlib(m, 6);
        let at = w.len();
        w.bytes(&z);
        w.set_u32(meta_at, at as u32);
        w.set_u32(meta_at + 4, z.len() as u32);
        w.set_u32(meta_at + 8, m.len() as u32);
    }
    if let Some(p) = private {
        w.pad4();
        let at = w.len();
        w.bytes(p);
        w.set_u32(meta_at + 12, at as u32);
        w.set_u32(meta_at + 16, p.len() as u32);
    }
    let len = w.len();
    w.set_u32(8, len as u32);
    (w.b, compressed_flags)
}
