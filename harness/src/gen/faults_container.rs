//! Container-level fault operators (DESIGN §4 C01, F6): WOFF and WOFF2 wrappers built by the harness's
//! own writers around a seed font, with faults injected *behind* the compression layer — into the
//! transformed glyf/hmtx payloads, the WOFF2 directory attributes, the WOFF directory and the zlib
//! streams — so that the transform decoders and container bookkeeping are reached (a random byte
//! fault on a compressed file almost always dies in the decompressor).

use crate::props::c11::{encode_tables, TtFont};
use crate::rt::*;
use crate::sfnt::woff::{build_woff, WoffTable};
use crate::sfnt::woff2::{self as w2, W2Table};
use crate::sfnt::{self, tag};

use super::faults::{BOUNDARY16, BOUNDARY32};

fn put16(d: &mut [u8], o: usize, v: u16) {
    if o + 2 <= d.len() {
        d[o..o + 2].copy_from_slice(&v.to_be_bytes());
    }
}
fn put32(d: &mut [u8], o: usize, v: u32) {
    if o + 4 <= d.len() {
        d[o..o + 4].copy_from_slice(&v.to_be_bytes());
    }
}

fn fault_payload(rng: &mut Rng, p: &mut Vec<u8>, header_len: usize, what: &str) -> String {
    if p.is_empty() {
        return format!("{}:noop(empty)", what);
    }
    let at = if rng.chance(2, 3) { rng.below(p.len().min(header_len.max(1))) } else { rng.below(p.len()) };
    match rng.below(6) {
        0 => {
            let v = *rng.pick(&[0u8, 0xFF, 0x7F, 0x80, 1, 0xFE, 253, 254, 255]);
            p[at] = v;
            format!("{}+{} u8={:#x}", what, at, v)
        }
        1 => {
            let v = *rng.pick(BOUNDARY16);
            put16(p, at & !1, v);
            format!("{}+{} u16={:#x}", what, at & !1, v)
        }
        2 => {
            let v = match rng.below(4) {
                0 => p.len() as u32,
                1 => (p.len() as u32).wrapping_add(1),
                2 => (p.len() as u32).wrapping_sub(1),
                _ => *rng.pick(BOUNDARY32),
            };
            put32(p, at & !3, v);
            format!("{}+{} u32={:#x}", what, at & !3, v)
        }
        3 => {
            // small change of an existing 32-bit field (stream sizes off by a little)
            let o = at & !3;
            if o + 4 <= p.len() {
                let old = u32::from_be_bytes([p[o], p[o + 1], p[o + 2], p[o + 3]]);
                let nv = old.wrapping_add(*rng.pick(&[1u32, 2, 0xFFFF_FFFF, 0xFFFF_FFFE, 4, 0x100]));
                put32(p, o, nv);
                return format!("{}+{} u32 {:#x}->{:#x}", what, o, old, nv);
            }
            format!("{}:noop", what)
        }
        4 => {
            let cut = rng.below(p.len() + 1);
            p.truncate(cut);
            format!("{} truncate@{}", what, cut)
        }
        _ => {
            let n = 1 + rng.below(8.min(p.len() - at));
            let v = *rng.pick(&[0u8, 0xFF]);
            for b in &mut p[at..at + n] {
                *b = v;
            }
            format!("{}+{} fill {}x{:#x}", what, at, n, v)
        }
    }
}

/// A WOFF2 file around `tt` with 1-3 faults behind the brotli layer. Returns (bytes, fault descriptions).
pub fn woff2_case(rng: &mut Rng, cx: &mut Ctx, tt: &TtFont) -> (Vec<u8>, Vec<String>) {
    let (mut tables, enc) = encode_tables(tt, rng, cx);
    let mut desc = vec![format!("woff2-wrap[{}]", enc.desc)];
    let mut collection: Option<Vec<(u32, Vec<u16>)>> = None;
    let mut header_faults: Vec<(usize, u32, bool)> = Vec::new(); // (offset, value, is32)
    let mut truncate_to: Option<usize> = None;
    let n = 1 + rng.small(2);
    for _ in 0..n {
        let find = |tables: &Vec<W2Table>, t: &str| tables.iter().position(|x| x.tag == tag(t));
        match rng.below(14) {
            0 | 1 | 2 => {
                // transformed glyf payload: 36-byte header of stream sizes, then the seven streams
                if let Some(i) = find(&tables, "glyf") {
                    let d = fault_payload(rng, &mut tables[i].payload, 36, "w2.glyf");
                    desc.push(d);
                }
            }
            3 => {
                if let Some(i) = find(&tables, "hmtx") {
                    let d = fault_payload(rng, &mut tables[i].payload, 1, "w2.hmtx");
                    desc.push(d);
                }
            }
            4 => {
                // hmtx transform requested although glyf is not transformed / wrong versions
                if let Some(i) = find(&tables, "hmtx") {
                    let v = rng.below(4) as u8;
                    tables[i].transform_version = v;
                    tables[i].has_transform_length = rng.bool();
                    desc.push(format!("w2.dir hmtx transform_version={} has_len={}", v, tables[i].has_transform_length));
                }
            }
            5 => {
                if let Some(i) = find(&tables, if rng.bool() { "glyf" } else { "loca" }) {
                    let v = rng.below(4) as u8;
                    tables[i].transform_version = v;
                    if rng.bool() {
                        tables[i].has_transform_length = !tables[i].has_transform_length;
                    }
                    desc.push(format!("w2.dir {} transform_version={} has_len={}", sfnt::tag_str(tables[i].tag), v, tables[i].has_transform_length));
                }
            }
            6 => {
                // origLength lies
                let i = rng.below(tables.len());
                let v = match rng.below(5) {
                    0 => 0,
                    1 => tables[i].orig_length.wrapping_add(1),
                    2 => tables[i].orig_length.wrapping_sub(1),
                    3 => 0x0FFF_FFFF,
                    _ => *rng.pick(BOUNDARY32),
                };
                tables[i].orig_length = v;
                desc.push(format!("w2.dir {} origLength={:#x}", sfnt::tag_str(tables[i].tag), v));
            }
            7 => {
                // loca with a payload although transformed / glyf without loca / loca before glyf
                match rng.below(3) {
                    0 => {
                        if let Some(i) = find(&tables, "loca") {
                            let k = 1 + rng.below(9);
                            tables[i].payload = rng.bytes(k);
                            desc.push("w2 loca payload non-empty".into());
                        }
                    }
                    1 => {
                        if let Some(i) = find(&tables, "loca") {
                            tables.remove(i);
                            desc.push("w2 remove loca".into());
                        }
                    }
                    _ => {
                        if let (Some(g), Some(l)) = (find(&tables, "glyf"), find(&tables, "loca")) {
                            tables.swap(g, l);
                            desc.push("w2 swap glyf<->loca".into());
                        }
                    }
                }
            }
            8 => {
                // remove / duplicate a table
                let i = rng.below(tables.len());
                if rng.bool() {
                    let t = tables.remove(i);
                    desc.push(format!("w2 remove {}", sfnt::tag_str(t.tag)));
                } else {
                    let t = tables[i].clone();
                    desc.push(format!("w2 duplicate {}", sfnt::tag_str(t.tag)));
                    tables.push(t);
                }
                if tables.is_empty() {
                    break;
                }
            }
            9 => {
                // collection directory with in- and out-of-range table indices
                let nt = tables.len() as u16;
                let members = 1 + rng.below(3);
                let mut fonts = Vec::new();
                for _ in 0..members {
                    let k = 1 + rng.below(tables.len().max(1));
                    let idx: Vec<u16> = (0..k)
                        .map(|_| if rng.chance(1, 6) { *rng.pick(&[nt, nt + 1, 0xFFFF, 0x7FFF]) } else { rng.below(nt.max(1) as usize) as u16 })
                        .collect();
                    fonts.push((*rng.pick(&[0x0001_0000u32, 0x4F54_544F, 0x7472_7565, 0]), idx));
                }
                desc.push(format!("w2 collection {:?}", fonts));
                collection = Some(fonts);
            }
            10 | 11 => {
                // header fields (after building): flavor, length, numTables, totalSfntSize,
                // totalCompressedSize, meta/priv offsets and lengths
                let (off, is32) = *rng.pick(&[(4usize, true), (8, true), (12, false), (14, false), (16, true), (20, true), (24, false), (28, true), (32, true), (36, true), (40, true), (44, true)]);
                let v = if is32 { *rng.pick(BOUNDARY32) } else { *rng.pick(BOUNDARY16) as u32 };
                let v = if off == 4 && rng.bool() { 0x7474_6366 } else { v };
                header_faults.push((off, v, is32));
                desc.push(format!("w2.hdr[{}]={:#x}", off, v));
            }
            12 => {
                truncate_to = Some(usize::MAX); // resolved below
                desc.push("w2 truncate".into());
            }
            _ => {
                // any other table's payload (head/hhea/maxp matter to the glyf/hmtx reconstruction)
                let i = rng.below(tables.len());
                let name = format!("w2.{}", sfnt::tag_str(tables[i].tag));
                let d = fault_payload(rng, &mut tables[i].payload, 16, &name);
                desc.push(d);
            }
        }
    }
    if tables.is_empty() {
        return (Vec::new(), desc);
    }
    let flavor = if collection.is_some() { 0x7474_6366 } else { tt.flavor };
    let chunk = *rng.pick(&[65536usize, 65536, 1000, 17, 4096]);
    let with_meta = rng.chance(1, 6);
    let mut bytes = w2::build_woff2(flavor, &tables, collection.as_deref(), chunk, rng, with_meta);
    for (off, v, is32) in header_faults {
        if is32 {
            put32(&mut bytes, off, v);
        } else {
            put16(&mut bytes, off, v as u16);
        }
    }
    if truncate_to.is_some() {
        let cut = rng.below(bytes.len() + 1);
        bytes.truncate(cut);
    }
    (bytes, desc)
}

/// A WOFF file around the sfnt `seed` with 1-3 faults in directory / streams.
pub fn woff_case(rng: &mut Rng, seed: &[u8]) -> Option<(Vec<u8>, Vec<String>)> {
    let f = sfnt::Font::parse(seed)?;
    if f.tables.is_empty() {
        return None;
    }
    let mut tables: Vec<WoffTable> = f
        .tables
        .iter()
        .map(|(t, d)| WoffTable { tag: *t, data: d.clone(), compress: rng.chance(3, 4), level: *rng.pick(&[1u32, 6, 9]) })
        .collect();
    let mut desc = vec!["woff-wrap".to_string()];
    // a highly compressible big table (decompression-ratio stress; 8 MiB of zeros is ~8 KiB of zlib)
    if rng.chance(1, 12) {
        let n = *rng.pick(&[1usize << 20, 8 << 20]);
        tables.push(WoffTable { tag: tag("zero"), data: vec![0u8; n], compress: true, level: 9 });
        desc.push(format!("woff big-zero-table {}", n));
    }
    let (mut bytes, compressed) = build_woff(f.version, &tables, None, None, rng.bool());
    let n = tables.len();
    let nf = 1 + rng.small(2);
    for _ in 0..nf {
        match rng.below(8) {
            0 | 1 | 2 => {
                // directory entry field: offset / compLength / origLength / checksum
                let k = rng.below(n);
                let field = *rng.pick(&[4usize, 8, 12, 12, 8]);
                let o = 44 + 20 * k + field;
                let old = sfnt::be32(&bytes, o).unwrap_or(0);
                let v = match rng.below(7) {
                    0 => 0,
                    1 => old.wrapping_add(1),
                    2 => old.wrapping_sub(1),
                    3 => bytes.len() as u32,
                    4 => 0x7FFF_FFFF,
                    5 => 0xFFFF_FFFF,
                    _ => *rng.pick(BOUNDARY32),
                };
                put32(&mut bytes, o, v);
                desc.push(format!("woff.dir[{}].{}={:#x} (was {:#x})", k, match field { 4 => "offset", 8 => "compLength", _ => "origLength" }, v, old));
            }
            3 | 4 => {
                // corrupt a compressed stream body
                let cands: Vec<usize> = (0..n).filter(|&i| compressed[i]).collect();
                if let Some(&k) = cands.get(rng.below(cands.len().max(1))) {
                    // physical order == table order
                    let o = 44 + 20 * (0..n).find(|&slot| sfnt::be32(&bytes, 44 + 20 * slot) == Some(tables[k].tag)).unwrap_or(0);
                    let (off, len) = (sfnt::be32(&bytes, o + 4).unwrap_or(0) as usize, sfnt::be32(&bytes, o + 8).unwrap_or(0) as usize);
                    if len > 0 && off + len <= bytes.len() {
                        let at = off + rng.below(len);
                        let v = rng.u8();
                        bytes[at] = v;
                        desc.push(format!("woff zlib[{}]+{}={:#x}", sfnt::tag_str(tables[k].tag), at - off, v));
                    }
                }
            }
            5 => {
                let (off, is32) = *rng.pick(&[(4usize, true), (8, true), (12, false), (14, false), (16, true), (24, true), (28, true), (32, true), (36, true), (40, true)]);
                if is32 {
                    let v = *rng.pick(BOUNDARY32);
                    put32(&mut bytes, off, v);
                    desc.push(format!("woff.hdr[{}]={:#x}", off, v));
                } else {
                    let v = *rng.pick(BOUNDARY16);
                    put16(&mut bytes, off, v);
                    desc.push(format!("woff.hdr[{}]={:#x}", off, v));
                }
            }
            6 => {
                let cut = rng.below(bytes.len() + 1);
                bytes.truncate(cut);
                desc.push(format!("woff truncate@{}", cut));
            }
            _ => {
                // make two directory entries overlap / point at the same data
                if n >= 2 {
                    let (a, b) = (rng.below(n), rng.below(n));
                    let (oa, ob) = (44 + 20 * a, 44 + 20 * b);
                    if let Some(v) = sfnt::be32(&bytes, ob + 4) {
                        put32(&mut bytes, oa + 4, v);
                        desc.push(format!("woff.dir[{}].offset := dir[{}].offset", a, b));
                    }
                }
            }
        }
    }
    Some((bytes, desc))
}
