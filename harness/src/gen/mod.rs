//! Generators: structure-aware fault operators, texts, ASTs.
pub mod faults;
pub mod faults_container;
pub mod faults_struct;
