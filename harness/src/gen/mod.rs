//! Generators: structure-aware fault operators, texts, ASTs.
pub mod faults;
