//! Generators: structure-aware fault operators, texts, ASTs.
pub mod faults;
pub mod layout_c04;
