//! Generators: structure-aware fault operators, texts, ASTs.
pub mod faults;
pub mod faults_container;
pub mod faults_struct;
pub mod layout_c04;
pub mod bitmap_c01;
pub mod misc_c01;
