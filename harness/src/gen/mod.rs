//! Generators: structure-aware fault operators, texts, ASTs.
pub mod faults;
pub mod faults_container;
