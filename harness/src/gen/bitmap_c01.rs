//! Generated embedded-image tables (CBLC/CBDT, EBLC/EBDT, sbix, SVG) written from the OpenType
//! text by the harness's own writer (no allsorts types), plus structure-aware faults on their
//! fields. The fixture corpus has no CBDT font (the one CBDT fixture is emptied in this sandbox)
//! and reaches EBLC/EBDT only through a non-default image filter, so without these generated
//! tables the bitmap parsers are not driven at all.

use crate::rt::*;
use crate::sfnt::{self, W};

/// One field of the location table that a targeted fault may overwrite: (offset, width in bytes).
#[derive(Clone, Copy, Debug)]
pub struct Field {
    pub at: usize,
    pub width: u8,
    pub what: &'static str,
}

#[derive(Clone, Debug, Default)]
pub struct BitmapTables {
    /// CBLC / EBLC bytes
    pub loc: Vec<u8>,
    /// CBDT / EBDT bytes
    pub dat: Vec<u8>,
    pub fields: Vec<Field>,
    /// glyph ids that carry an image in at least one strike
    pub glyphs: Vec<u16>,
    pub ppems: Vec<u8>,
    /// (index format, image format) pairs used
    pub formats: Vec<(u16, u16)>,
    pub color: bool,
}

fn bytes_per_row(depth: u32, width: u32) -> u32 {
    (depth * width + 7) / 8
}

fn small_metrics(w: &mut W, rng: &mut Rng, height: u8, width: u8) {
    w.u8(height).u8(width).i8(rng.range(-8, 8) as i8).i8(rng.range(-8, 16) as i8).u8(rng.below(20) as u8);
}

fn big_metrics_bytes(rng: &mut Rng, height: u8, width: u8) -> Vec<u8> {
    let mut w = W::new();
    w.u8(height).u8(width).i8(rng.range(-8, 8) as i8).i8(rng.range(-8, 16) as i8).u8(rng.below(20) as u8);
    w.i8(rng.range(-8, 8) as i8).i8(rng.range(-8, 16) as i8).u8(rng.below(20) as u8);
    w.b
}

/// Image data of one glyph in `image_format`; for formats 5 and 19 the metrics live in the
/// location table, so `dims` is imposed by the caller.
fn glyph_image(rng: &mut Rng, image_format: u16, depth: u32, dims: (u8, u8), fixed_size: Option<usize>) -> Vec<u8> {
    let (height, width) = dims;
    let (h, wd) = (height as u32, width as u32);
    let byte_aligned = (h * bytes_per_row(depth, wd)) as usize;
    let bit_aligned = ((h * wd * depth + 7) / 8) as usize;
    let mut w = W::new();
    match image_format {
        1 => {
            small_metrics(&mut w, rng, height, width);
            w.bytes(&rng.bytes(byte_aligned));
        }
        2 => {
            small_metrics(&mut w, rng, height, width);
            w.bytes(&rng.bytes(bit_aligned));
        }
        5 => {
            w.bytes(&rng.bytes(bit_aligned));
        }
        6 => {
            w.bytes(&big_metrics_bytes(rng, height, width));
            w.bytes(&rng.bytes(byte_aligned));
        }
        7 => {
            w.bytes(&big_metrics_bytes(rng, height, width));
            w.bytes(&rng.bytes(bit_aligned));
        }
        8 => {
            small_metrics(&mut w, rng, height, width);
            w.u8(0);
            let n = rng.below(4) as u16;
            w.u16(n);
            for _ in 0..n {
                w.u16(rng.below(40) as u16).i8(rng.range(-4, 4) as i8).i8(rng.range(-4, 4) as i8);
            }
        }
        9 => {
            w.bytes(&big_metrics_bytes(rng, height, width));
            let n = rng.below(4) as u16;
            w.u16(n);
            for _ in 0..n {
                w.u16(rng.below(40) as u16).i8(rng.range(-4, 4) as i8).i8(rng.range(-4, 4) as i8);
            }
        }
        17 => {
            small_metrics(&mut w, rng, height, width);
            let png = fake_png(rng);
            w.u32(png.len() as u32).bytes(&png);
        }
        18 => {
            w.bytes(&big_metrics_bytes(rng, height, width));
            let png = fake_png(rng);
            w.u32(png.len() as u32).bytes(&png);
        }
        _ => {
            // 19: dataLen + data; a fixed image size leaves room for the length field
            let n = fixed_size.map(|s| s.saturating_sub(4)).unwrap_or_else(|| 8 + rng.below(24));
            let mut png = fake_png(rng);
            png.resize(n, 0);
            w.u32(n as u32).bytes(&png);
        }
    }
    if let Some(sz) = fixed_size {
        w.b.resize(sz, 0);
    }
    w.b
}

fn fake_png(rng: &mut Rng) -> Vec<u8> {
    let mut v = vec![0x89, b'P', b'N', b'G', 0x0D, 0x0A, 0x1A, 0x0A];
    v.extend_from_slice(&{ let k = rng.below(24); rng.bytes(k) });
    v
}

fn line_metrics(w: &mut W, rng: &mut Rng) {
    w.i8(rng.range(0, 40) as i8).i8(rng.range(-20, 0) as i8).u8(rng.below(60) as u8);
    for _ in 0..7 {
        w.i8(rng.range(-20, 20) as i8);
    }
    w.i8(0).i8(0);
}

/// Generate a location/data table pair over glyph ids `< num_glyphs`.
pub fn gen_bitmap_tables(rng: &mut Rng, num_glyphs: u16, color: bool) -> BitmapTables {
    let n = num_glyphs.max(2);
    let mut out = BitmapTables { color, ..Default::default() };
    let major: u16 = if color { 3 } else { 2 };
    let mut dat = W::new();
    dat.u16(major).u16(0);
    let nstrikes = 1 + rng.below(4);
    let mut loc = W::new();
    loc.u16(major).u16(0);
    out.fields.push(Field { at: 0, width: 2, what: "loc.major" });
    out.fields.push(Field { at: loc.len(), width: 4, what: "loc.numSizes" });
    loc.u32(nstrikes as u32);
    let sizes_at = loc.len();
    // reserve the BitmapSize records
    for _ in 0..nstrikes {
        loc.bytes(&[0u8; 48]);
    }
    for s in 0..nstrikes {
        let depth: u32 = if color && rng.chance(2, 3) { 32 } else { *rng.pick(&[1u32, 2, 4, 8]) };
        let ppem = *rng.pick(&[8u8, 12, 16, 20, 32, 64, 109, 128, 255]);
        out.ppems.push(ppem);
        let flags: i8 = *rng.pick(&[1i8, 2, 0, 3]);
        // glyph ranges of this strike: 1-4 consecutive, disjoint, increasing
        let nsub = 1 + rng.below(4);
        let mut ranges: Vec<(u16, u16)> = Vec::new();
        let mut next = rng.below(3) as u16;
        for _ in 0..nsub {
            if next >= n {
                break;
            }
            let len = 1 + rng.below(6) as u16;
            let last = (next + len - 1).min(n - 1);
            ranges.push((next, last));
            next = last + 1 + rng.below(3) as u16;
        }
        if ranges.is_empty() {
            ranges.push((0, 0));
        }
        let array_off = loc.len();
        // IndexSubTableRecords
        let recs_at = loc.len();
        for _ in 0..ranges.len() {
            loc.bytes(&[0u8; 8]);
        }
        for (k, &(first, last)) in ranges.iter().enumerate() {
            let count = (last - first + 1) as usize;
            let index_format: u16 = 1 + rng.below(5) as u16;
            let fixed = index_format == 2 || index_format == 5;
            let image_format: u16 = if fixed {
                if rng.chance(4, 5) { if color && rng.chance(1, 2) { 19 } else { 5 } } else { *rng.pick(&[1u16, 6, 17]) }
            } else if rng.chance(1, 12) {
                // legal index format, image format that needs metrics from the location table
                *rng.pick(&[5u16, 19])
            } else if color {
                *rng.pick(&[17u16, 18, 17, 18, 1, 2, 6, 7, 8, 9])
            } else {
                *rng.pick(&[1u16, 2, 6, 7, 8, 9])
            };
            out.formats.push((index_format, image_format));
            let sub_at = loc.len();
            // record
            let rec = recs_at + 8 * k;
            loc.b[rec..rec + 2].copy_from_slice(&first.to_be_bytes());
            loc.b[rec + 2..rec + 4].copy_from_slice(&last.to_be_bytes());
            loc.set_u32(rec + 4, (sub_at - array_off) as u32);
            out.fields.push(Field { at: rec, width: 2, what: "rec.firstGlyph" });
            out.fields.push(Field { at: rec + 2, width: 2, what: "rec.lastGlyph" });
            out.fields.push(Field { at: rec + 4, width: 4, what: "rec.additionalOffset" });
            // sub-table header
            out.fields.push(Field { at: loc.len(), width: 2, what: "sub.indexFormat" });
            loc.u16(index_format);
            out.fields.push(Field { at: loc.len(), width: 2, what: "sub.imageFormat" });
            loc.u16(image_format);
            out.fields.push(Field { at: loc.len(), width: 4, what: "sub.imageDataOffset" });
            let image_data_offset = dat.len();
            loc.u32(image_data_offset as u32);
            let dims = (rng.below(12) as u8, rng.below(12) as u8);
            let gdims = |rng: &mut Rng| if fixed { dims } else { (rng.below(12) as u8, rng.below(12) as u8) };
            match index_format {
                1 | 3 => {
                    // count + 1 offsets; a glyph may be missing (equal offsets)
                    let mut offs: Vec<u32> = Vec::new();
                    for g in 0..count {
                        offs.push((dat.len() - image_data_offset) as u32);
                        if !rng.chance(1, 8) {
                            let d = gdims(rng);
                            let mut img = glyph_image(rng, image_format, depth, d, None);
                            if index_format == 3 && img.len() % 2 == 1 {
                                img.push(0);
                            }
                            dat.bytes(&img);
                            out.glyphs.push(first + g as u16);
                        }
                    }
                    offs.push((dat.len() - image_data_offset) as u32);
                    for o in offs {
                        if index_format == 1 {
                            out.fields.push(Field { at: loc.len(), width: 4, what: "sub1.offset" });
                            loc.u32(o);
                        } else {
                            out.fields.push(Field { at: loc.len(), width: 2, what: "sub3.offset" });
                            loc.u16(o as u16);
                        }
                    }
                    if index_format == 3 && (count + 1) % 2 == 1 {
                        loc.u16(0);
                    }
                }
                2 => {
                    let size = fixed_size_for(image_format, depth, dims);
                    out.fields.push(Field { at: loc.len(), width: 4, what: "sub2.imageSize" });
                    loc.u32(size as u32);
                    let bm = big_metrics_bytes(rng, dims.0, dims.1);
                    out.fields.push(Field { at: loc.len(), width: 1, what: "sub2.height" });
                    out.fields.push(Field { at: loc.len() + 1, width: 1, what: "sub2.width" });
                    loc.bytes(&bm);
                    for g in 0..count {
                        let img = glyph_image(rng, image_format, depth, dims, Some(size));
                        dat.bytes(&img);
                        out.glyphs.push(first + g as u16);
                    }
                }
                4 => {
                    // sparse glyph codes: a subset of the range, + 1 terminating pair
                    let mut ids: Vec<u16> = (first..=last).filter(|_| rng.chance(3, 4)).collect();
                    if ids.is_empty() {
                        ids.push(first);
                    }
                    out.fields.push(Field { at: loc.len(), width: 4, what: "sub4.numGlyphs" });
                    loc.u32(ids.len() as u32);
                    for &g in &ids {
                        out.fields.push(Field { at: loc.len(), width: 2, what: "sub4.glyphId" });
                        loc.u16(g);
                        out.fields.push(Field { at: loc.len(), width: 2, what: "sub4.offset" });
                        loc.u16((dat.len() - image_data_offset) as u16);
                        let d = gdims(rng);
                        let img = glyph_image(rng, image_format, depth, d, None);
                        dat.bytes(&img);
                        out.glyphs.push(g);
                    }
                    loc.u16(0);
                    out.fields.push(Field { at: loc.len(), width: 2, what: "sub4.endOffset" });
                    loc.u16((dat.len() - image_data_offset) as u16);
                }
                _ => {
                    let size = fixed_size_for(image_format, depth, dims);
                    out.fields.push(Field { at: loc.len(), width: 4, what: "sub5.imageSize" });
                    loc.u32(size as u32);
                    let bm = big_metrics_bytes(rng, dims.0, dims.1);
                    out.fields.push(Field { at: loc.len(), width: 1, what: "sub5.height" });
                    out.fields.push(Field { at: loc.len() + 1, width: 1, what: "sub5.width" });
                    loc.bytes(&bm);
                    let mut ids: Vec<u16> = (first..=last).filter(|_| rng.chance(3, 4)).collect();
                    if ids.is_empty() {
                        ids.push(last);
                    }
                    out.fields.push(Field { at: loc.len(), width: 4, what: "sub5.numGlyphs" });
                    loc.u32(ids.len() as u32);
                    for &g in &ids {
                        out.fields.push(Field { at: loc.len(), width: 2, what: "sub5.glyphId" });
                        loc.u16(g);
                        let img = glyph_image(rng, image_format, depth, dims, Some(size));
                        dat.bytes(&img);
                        out.glyphs.push(g);
                    }
                    if ids.len() % 2 == 1 {
                        loc.u16(0);
                    }
                }
            }
            while loc.len() % 4 != 0 {
                loc.u8(0);
            }
        }
        let tables_size = loc.len() - array_off;
        // BitmapSize record
        let mut r = W::new();
        r.u32(array_off as u32).u32(tables_size as u32).u32(ranges.len() as u32).u32(0);
        line_metrics(&mut r, rng);
        line_metrics(&mut r, rng);
        let start = ranges.first().map(|x| x.0).unwrap_or(0);
        let end = ranges.last().map(|x| x.1).unwrap_or(0);
        r.u16(start).u16(end).u8(ppem).u8(ppem).u8(depth as u8).i8(flags);
        let at = sizes_at + 48 * s;
        loc.b[at..at + 48].copy_from_slice(&r.b);
        out.fields.push(Field { at, width: 4, what: "size.indexSubTableArrayOffset" });
        out.fields.push(Field { at: at + 4, width: 4, what: "size.indexTablesSize" });
        out.fields.push(Field { at: at + 8, width: 4, what: "size.numberOfIndexSubTables" });
        out.fields.push(Field { at: at + 40, width: 2, what: "size.startGlyphIndex" });
        out.fields.push(Field { at: at + 42, width: 2, what: "size.endGlyphIndex" });
        out.fields.push(Field { at: at + 44, width: 1, what: "size.ppemX" });
        out.fields.push(Field { at: at + 46, width: 1, what: "size.bitDepth" });
        out.fields.push(Field { at: at + 47, width: 1, what: "size.flags" });
    }
    out.glyphs.sort_unstable();
    out.glyphs.dedup();
    out.loc = loc.b;
    out.dat = dat.b;
    out
}

fn fixed_size_for(image_format: u16, depth: u32, dims: (u8, u8)) -> usize {
    let (h, w) = (dims.0 as u32, dims.1 as u32);
    match image_format {
        5 => ((h * w * depth + 7) / 8) as usize,
        19 => 24,
        1 => 5 + (h * bytes_per_row(depth, w)) as usize,
        6 => 8 + (h * bytes_per_row(depth, w)) as usize,
        _ => 5 + 4 + 16, // 17: small metrics + length + 16 bytes
    }
}

/// Overwrite one located field of the location table with a boundary value (or a small delta).
pub fn fault_field(rng: &mut Rng, t: &mut BitmapTables) -> String {
    if t.fields.is_empty() {
        return "bitmap.nofield".into();
    }
    let f = *rng.pick(&t.fields);
    let old: u64 = match f.width {
        1 => t.loc[f.at] as u64,
        2 => u16::from_be_bytes([t.loc[f.at], t.loc[f.at + 1]]) as u64,
        _ => u32::from_be_bytes([t.loc[f.at], t.loc[f.at + 1], t.loc[f.at + 2], t.loc[f.at + 3]]) as u64,
    };
    let max: u64 = match f.width {
        1 => 0xFF,
        2 => 0xFFFF,
        _ => 0xFFFF_FFFF,
    };
    let v: u64 = match rng.below(10) {
        0 => 0,
        1 => max,
        2 => max - 1,
        3 => (max >> 1) + 1,
        4 => max >> 1,
        5 => old.wrapping_add(1) & max,
        6 => old.wrapping_sub(1) & max,
        7 => t.dat.len() as u64 & max,
        8 => t.loc.len() as u64 & max,
        _ => rng.u64() & max,
    };
    match f.width {
        1 => t.loc[f.at] = v as u8,
        2 => t.loc[f.at..f.at + 2].copy_from_slice(&(v as u16).to_be_bytes()),
        _ => t.loc[f.at..f.at + 4].copy_from_slice(&(v as u32).to_be_bytes()),
    }
    format!("bitmap.field {}", f.what)
}

/// Faults in the data table: truncate it, or overwrite bytes / length fields inside it.
pub fn fault_data(rng: &mut Rng, t: &mut BitmapTables) -> String {
    if t.dat.len() <= 4 {
        return "bitmap.dat-empty".into();
    }
    match rng.below(3) {
        0 => {
            let n = 4 + rng.below(t.dat.len() - 4);
            t.dat.truncate(n);
            "bitmap.dat-truncate".into()
        }
        1 => {
            let at = 4 + rng.below(t.dat.len() - 4);
            t.dat[at] = *rng.pick(&[0u8, 0xFF, 0x80, 0x7F]);
            "bitmap.dat-byte".into()
        }
        _ => {
            let at = 4 + rng.below(t.dat.len() - 4);
            for k in 0..4.min(t.dat.len() - at) {
                t.dat[at + k] = 0xFF;
            }
            "bitmap.dat-ff-run".into()
        }
    }
}

/// sbix: 1-3 strikes over `num_glyphs` glyphs, png / jpg / tiff / dupe / unknown graphic types.
pub fn gen_sbix(rng: &mut Rng, num_glyphs: u16) -> (Vec<u8>, Vec<Field>) {
    let n = num_glyphs as usize;
    let mut fields = Vec::new();
    let nstrikes = 1 + rng.below(3);
    let mut w = W::new();
    w.u16(1).u16(rng.below(4) as u16);
    fields.push(Field { at: w.len(), width: 4, what: "sbix.numStrikes" });
    w.u32(nstrikes as u32);
    let offs_at = w.len();
    for _ in 0..nstrikes {
        w.u32(0);
    }
    for s in 0..nstrikes {
        let strike_at = w.len();
        w.set_u32(offs_at + 4 * s, strike_at as u32);
        fields.push(Field { at: offs_at + 4 * s, width: 4, what: "sbix.strikeOffset" });
        fields.push(Field { at: w.len(), width: 2, what: "sbix.ppem" });
        w.u16(*rng.pick(&[0u16, 16, 32, 128, 300, 0xFFFF])).u16(72);
        let offsets_at = w.len();
        for _ in 0..=n {
            w.u32(0);
        }
        for g in 0..n {
            let o = (w.len() - strike_at) as u32;
            w.set_u32(offsets_at + 4 * g, o);
            fields.push(Field { at: offsets_at + 4 * g, width: 4, what: "sbix.glyphDataOffset" });
            if rng.chance(1, 3) {
                continue; // no data for this glyph
            }
            w.i16(rng.range(-50, 50) as i16).i16(rng.range(-50, 50) as i16);
            match rng.below(6) {
                0 => {
                    w.bytes(b"dupe").u16(rng.below(n + 2) as u16);
                }
                1 => {
                    w.bytes(b"jpg ").bytes(&{ let k = rng.below(12); rng.bytes(k) });
                }
                2 => {
                    w.bytes(b"tiff").bytes(&{ let k = rng.below(12); rng.bytes(k) });
                }
                3 => {
                    w.bytes(b"zzzz").bytes(&{ let k = rng.below(12); rng.bytes(k) });
                }
                _ => {
                    w.bytes(b"png ").bytes(&fake_png(rng));
                }
            }
        }
        let o = (w.len() - strike_at) as u32;
        w.set_u32(offsets_at + 4 * n, o);
        fields.push(Field { at: offsets_at + 4 * n, width: 4, what: "sbix.glyphDataOffset" });
    }
    (w.b, fields)
}

/// SVG table: document records over glyph ranges, plain or gzip-looking documents, shared documents.
pub fn gen_svg(rng: &mut Rng, num_glyphs: u16) -> (Vec<u8>, Vec<Field>) {
    let n = num_glyphs.max(1);
    let mut fields = Vec::new();
    let mut w = W::new();
    w.u16(0);
    fields.push(Field { at: w.len(), width: 4, what: "svg.documentListOffset" });
    w.u32(10).u32(0);
    let list_at = w.len();
    let mut ranges: Vec<(u16, u16)> = Vec::new();
    let mut next = rng.below(3) as u16;
    while next < n && ranges.len() < 5 {
        let last = (next + rng.below(4) as u16).min(n - 1);
        ranges.push((next, last));
        next = last + 1 + rng.below(3) as u16;
    }
    fields.push(Field { at: w.len(), width: 2, what: "svg.numEntries" });
    w.u16(ranges.len() as u16);
    let recs_at = w.len();
    for _ in 0..ranges.len() {
        w.bytes(&[0u8; 12]);
    }
    let mut prev: Option<(u32, u32)> = None;
    for (k, &(a, b)) in ranges.iter().enumerate() {
        let (off, len) = match prev {
            Some(p) if rng.chance(1, 4) => p,
            _ => {
                let off = (w.len() - list_at) as u32;
                let doc: Vec<u8> = if rng.chance(1, 3) {
                    let mut d = vec![0x1F, 0x8B, 0x08];
                    d.extend_from_slice(&{ let k = rng.below(20); rng.bytes(k) });
                    d
                } else {
                    format!("<svg xmlns=\"http://www.w3.org/2000/svg\"><g id=\"glyph{}\"/></svg>", a).into_bytes()
                };
                w.bytes(&doc);
                (off, doc.len() as u32)
            }
        };
        prev = Some((off, len));
        let r = recs_at + 12 * k;
        w.b[r..r + 2].copy_from_slice(&a.to_be_bytes());
        w.b[r + 2..r + 4].copy_from_slice(&b.to_be_bytes());
        w.set_u32(r + 4, off);
        w.set_u32(r + 8, len);
        fields.push(Field { at: r, width: 2, what: "svg.startGlyph" });
        fields.push(Field { at: r + 2, width: 2, what: "svg.endGlyph" });
        fields.push(Field { at: r + 4, width: 4, what: "svg.docOffset" });
        fields.push(Field { at: r + 8, width: 4, what: "svg.docLength" });
    }
    (w.b, fields)
}

/// Overwrite one located field of a table with a boundary value.
pub fn fault_fields(rng: &mut Rng, table: &mut [u8], fields: &[Field]) -> String {
    if fields.is_empty() {
        return "img.nofield".into();
    }
    let f = *rng.pick(fields);
    let max: u64 = match f.width {
        1 => 0xFF,
        2 => 0xFFFF,
        _ => 0xFFFF_FFFF,
    };
    let v: u64 = match rng.below(7) {
        0 => 0,
        1 => max,
        2 => max - 1,
        3 => (max >> 1) + 1,
        4 => table.len() as u64 & max,
        5 => (table.len() as u64).wrapping_sub(1) & max,
        _ => rng.u64() & max,
    };
    if f.at + f.width as usize <= table.len() {
        match f.width {
            1 => table[f.at] = v as u8,
            2 => table[f.at..f.at + 2].copy_from_slice(&(v as u16).to_be_bytes()),
            _ => table[f.at..f.at + 4].copy_from_slice(&(v as u32).to_be_bytes()),
        }
    }
    format!("img.field {}", f.what)
}

/// Attach image tables to a TrueType font (parsed and rebuilt with the independent sfnt codec).
pub fn attach(font: &sfnt::Font, tables: &[(&str, Vec<u8>)]) -> Vec<u8> {
    let mut f = font.clone();
    for (t, d) in tables {
        f.sets(t, d.clone());
    }
    f.build()
}
