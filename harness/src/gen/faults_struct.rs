//! Targeted field faults inside CFF, glyf/loca and gvar (DESIGN §4 C01, F5): the regions are located
//! with the harness's independent readers, so that deep structures (FDSelect entries, INDEX offset
//! arrays, Private DICTs, subroutine INDEXes, individual charstrings, glyph headers, per-glyph
//! variation data) are hit with boundary values instead of waiting for a random byte to land there.

use crate::rt::*;
use crate::sfnt::cff_c07::{parse_dict, parse_index, Num};
use crate::sfnt::{self, be16, be32, tag};

use super::faults::{table_extents, Applied, BOUNDARY16};

fn put16(d: &mut [u8], o: usize, v: u16) {
    if o + 2 <= d.len() {
        d[o..o + 2].copy_from_slice(&v.to_be_bytes());
    }
}

/// Overwrite something inside `start..end` of `data` (absolute offsets) with a boundary value.
fn hit(rng: &mut Rng, data: &mut [u8], start: usize, end: usize, what: &str) -> Applied {
    let end = end.min(data.len());
    if start >= end {
        return Applied { desc: format!("{} noop(empty region)", what) };
    }
    let at = start + rng.below(end - start);
    match rng.below(4) {
        0 | 1 => {
            let v = *rng.pick(&[0u8, 1, 2, 3, 4, 5, 0x7F, 0x80, 0xFE, 0xFF, 10, 11, 29, 28, 12, 14]);
            data[at] = v;
            Applied { desc: format!("{} +{} u8={:#x}", what, at - start, v) }
        }
        2 => {
            let v = *rng.pick(BOUNDARY16);
            put16(data, at.min(end.saturating_sub(2)).max(start), v);
            Applied { desc: format!("{} +{} u16={:#x}", what, at - start, v) }
        }
        _ => {
            let old = data[at];
            let v = old.wrapping_add(*rng.pick(&[1u8, 0xFF, 2, 0x80]));
            data[at] = v;
            Applied { desc: format!("{} +{} u8 {:#x}->{:#x}", what, at - start, old, v) }
        }
    }
}

fn dict_usize(dict: &[(u16, Vec<Num>)], op: u16, k: usize) -> Option<usize> {
    dict.iter().find(|(o, _)| *o == op).and_then(|(_, v)| v.get(k)).and_then(|n| n.as_usize())
}

/// Regions of a CFF (version 1) table worth corrupting: (name, start, end) relative to the table.
fn cff_regions(d: &[u8], rng: &mut Rng) -> Vec<(&'static str, usize, usize)> {
    let mut r: Vec<(&'static str, usize, usize)> = vec![("cff.header", 0, 4.min(d.len()))];
    let hdr = match d.get(2) {
        Some(h) => *h as usize,
        None => return r,
    };
    let mut push_index = |r: &mut Vec<(&'static str, usize, usize)>, name: &'static str, at: usize| -> Option<crate::sfnt::cff_c07::Index> {
        let ix = parse_index(d, at)?;
        let data_start = ix.items.first().map(|x| x.0).unwrap_or(ix.end);
        r.push((name, at, data_start.max(at + 2))); // count, offSize, offset array
        Some(ix)
    };
    let names = match push_index(&mut r, "cff.name-index", hdr) { Some(x) => x, None => return r };
    let tops = match push_index(&mut r, "cff.topdict-index", names.end) { Some(x) => x, None => return r };
    if let Some(&(s, e)) = tops.items.first() {
        r.push(("cff.topdict", s, e));
    }
    let strings = match push_index(&mut r, "cff.string-index", tops.end) { Some(x) => x, None => return r };
    let gsubrs = match push_index(&mut r, "cff.gsubr-index", strings.end) { Some(x) => x, None => return r };
    if !gsubrs.items.is_empty() {
        let (s, e) = gsubrs.items[rng.below(gsubrs.items.len())];
        r.push(("cff.gsubr-body", s, e));
    }
    let (ts, te) = match tops.items.first() { Some(x) => *x, None => return r };
    let top = match parse_dict(&d[ts..te]) { Some(t) => t, None => return r };
    if let Some(cs) = dict_usize(&top, 17, 0) {
        if let Some(ix) = push_index(&mut r, "cff.charstrings-index", cs) {
            // a charstring among the first glyphs (those every case visits)
            if !ix.items.is_empty() {
                let k = rng.below(ix.items.len().min(64));
                r.push(("cff.charstring", ix.items[k].0, ix.items[k].1));
                let k = rng.below(ix.items.len());
                r.push(("cff.charstring", ix.items[k].0, ix.items[k].1));
            }
        }
    }
    if let Some(cso) = dict_usize(&top, 15, 0) {
        if cso > 2 {
            r.push(("cff.charset", cso, cso + 8));
        }
    }
    if let Some(eo) = dict_usize(&top, 16, 0) {
        if eo > 1 {
            r.push(("cff.encoding", eo, eo + 6));
        }
    }
    let mut privates: Vec<(usize, usize)> = Vec::new();
    if let (Some(sz), Some(off)) = (dict_usize(&top, 18, 0), dict_usize(&top, 18, 1)) {
        privates.push((sz, off));
    }
    if let Some(fda) = dict_usize(&top, 0x0C24, 0) {
        if let Some(ix) = push_index(&mut r, "cff.fdarray-index", fda) {
            for &(s, e) in ix.items.iter().take(8) {
                r.push(("cff.fontdict", s, e));
                if let Some(fd) = parse_dict(&d[s..e]) {
                    if let (Some(sz), Some(off)) = (dict_usize(&fd, 18, 0), dict_usize(&fd, 18, 1)) {
                        privates.push((sz, off));
                    }
                }
            }
        }
    }
    if let Some(fds) = dict_usize(&top, 0x0C25, 0) {
        match d.get(fds) {
            Some(0) => {
                for _ in 0..4 {
                    r.push(("cff.fdselect0", fds, fds + 1 + 64)); // format byte + the first glyphs' fds
                }
            }
            Some(3) => {
                let nr = be16(d, fds + 1).unwrap_or(0) as usize;
                for _ in 0..2 {
                    r.push(("cff.fdselect3", fds, fds + 3 + 3 * nr + 2));
                    r.push(("cff.fdselect3", fds, fds + 3 + 3 * nr.min(4) + 2));
                }
            }
            _ => r.push(("cff.fdselect?", fds, fds + 8)),
        }
    }
    for &(sz, off) in privates.iter().take(8) {
        r.push(("cff.private", off, off + sz));
        if let Some(pd) = d.get(off..off.saturating_add(sz)).and_then(parse_dict) {
            if let Some(rel) = dict_usize(&pd, 19, 0) {
                if let Some(ix) = push_index(&mut r, "cff.lsubr-index", off + rel) {
                    if !ix.items.is_empty() {
                        let (s, e) = ix.items[rng.below(ix.items.len())];
                        r.push(("cff.lsubr-body", s, e));
                    }
                }
            }
        }
    }
    r
}

fn glyf_fault(rng: &mut Rng, data: &mut Vec<u8>, ext: &[(u32, usize, usize)]) -> Option<Applied> {
    let get = |t: &str| ext.iter().find(|e| e.0 == tag(t)).copied();
    let (_, go, gl) = get("glyf")?;
    let (_, lo, ll) = get("loca")?;
    let (_, ho, hl) = get("head")?;
    if hl < 54 {
        return None;
    }
    let long = be16(data, ho + 50)? != 0;
    let n = if long { ll / 4 } else { ll / 2 };
    if n < 2 {
        return None;
    }
    if rng.chance(1, 4) {
        // loca entry: non-monotone / odd / past the end
        let k = rng.below(n);
        return Some(if long {
            let v = *rng.pick(&[0u32, 1, 3, gl as u32, (gl as u32).wrapping_add(1), (gl as u32).wrapping_sub(1), 0xFFFF_FFFF, 0x8000_0000]);
            data[lo + 4 * k..lo + 4 * k + 4].copy_from_slice(&v.to_be_bytes());
            Applied { desc: format!("loca[{}]={:#x}", k, v) }
        } else {
            let v = *rng.pick(&[0u16, 1, (gl / 2) as u16, ((gl / 2) as u16).wrapping_add(1), 0xFFFF, 0x8000]);
            put16(data, lo + 2 * k, v);
            Applied { desc: format!("loca[{}]={:#x}", k, v) }
        });
    }
    // composite cycle surgery: look harder for a composite glyph (most fonts have few)
    if rng.chance(1, 3) {
        for _ in 0..64 {
            let k = rng.below(n - 1);
            let (a, b) = if long {
                (be32(data, lo + 4 * k)? as usize, be32(data, lo + 4 * k + 4)? as usize)
            } else {
                (be16(data, lo + 2 * k)? as usize * 2, be16(data, lo + 2 * k + 2)? as usize * 2)
            };
            if b <= a || b > gl || b - a < 14 {
                continue;
            }
            if (be16(data, go + a)? as i16) < 0 {
                let target = if rng.bool() { k } else { rng.below(n - 1) };
                put16(data, go + a + 12, target as u16);
                return Some(Applied { desc: format!("glyf.composite-cycle glyph {} first component -> {}", k, target) });
            }
        }
    }
    // a glyph's header / endPts / instructionLength / first flags, or composite records
    for _ in 0..8 {
        let k = rng.below(n - 1);
        let (a, b) = if long {
            (be32(data, lo + 4 * k)? as usize, be32(data, lo + 4 * k + 4)? as usize)
        } else {
            (be16(data, lo + 2 * k)? as usize * 2, be16(data, lo + 2 * k + 2)? as usize * 2)
        };
        if b <= a || b > gl {
            continue;
        }
        let nc = be16(data, go + a)? as i16;
        if nc < 0 && b - a >= 14 && rng.chance(1, 3) {
            // composite cycle surgery: the first component refers to the glyph itself, or to another
            // glyph (possibly a composite that includes this one)
            let target = if rng.bool() { k } else { rng.below(n - 1) };
            put16(data, go + a + 12, target as u16);
            return Some(Applied { desc: format!("glyf.composite-cycle glyph {} first component -> {}", k, target) });
        }
        let hdr = if nc >= 0 { 10 + 2 * nc as usize + 2 + 8 } else { b - a };
        let name = if nc >= 0 { "glyf.simple-header" } else { "glyf.composite" };
        return Some(hit(rng, data, go + a, go + a + hdr.min(b - a), name));
    }
    None
}

fn gvar_fault(rng: &mut Rng, data: &mut Vec<u8>, ext: &[(u32, usize, usize)]) -> Option<Applied> {
    let (_, o, l) = ext.iter().find(|e| e.0 == tag("gvar")).copied()?;
    if l < 20 {
        return None;
    }
    if rng.chance(1, 4) {
        return Some(hit(rng, data, o, o + 20, "gvar.header"));
    }
    let gc = be16(data, o + 12)? as usize;
    let flags = be16(data, o + 14)?;
    let arr = be32(data, o + 16)? as usize;
    if gc == 0 {
        return None;
    }
    for _ in 0..8 {
        let k = rng.below(gc);
        let (a, b) = if flags & 1 != 0 {
            (be32(data, o + 20 + 4 * k)? as usize, be32(data, o + 20 + 4 * k + 4)? as usize)
        } else {
            (be16(data, o + 20 + 2 * k)? as usize * 2, be16(data, o + 20 + 2 * k + 2)? as usize * 2)
        };
        if b <= a || arr + b > l {
            continue;
        }
        // tupleVariationCount, dataOffset, first tuple headers, or the serialized data
        let span = if rng.chance(2, 3) { (b - a).min(24) } else { b - a };
        return Some(hit(rng, data, o + arr + a, o + arr + a + span, "gvar.glyph-data"));
    }
    if rng.bool() {
        // an offset array entry
        let k = rng.below(gc + 1);
        let e = if flags & 1 != 0 { 4 } else { 2 };
        return Some(hit(rng, data, o + 20 + e * k, o + 20 + e * k + e, "gvar.offsets"));
    }
    None
}

/// One structure-aware fault in a CFF / glyf / gvar table of the sfnt `data`, if it has one.
pub fn apply_struct_fault(rng: &mut Rng, data: &mut Vec<u8>) -> Option<Applied> {
    let ext = table_extents(data);
    let has = |t: &str| ext.iter().any(|e| e.0 == tag(t));
    let mut kinds: Vec<u8> = Vec::new();
    if has("CFF ") {
        kinds.extend_from_slice(&[0, 0, 0]);
    }
    if has("glyf") && has("loca") {
        kinds.extend_from_slice(&[1, 1]);
    }
    if has("gvar") {
        kinds.extend_from_slice(&[2, 2]);
    }
    if kinds.is_empty() {
        return None;
    }
    match *rng.pick(&kinds) {
        0 => {
            let (_, o, l) = ext.iter().find(|e| e.0 == tag("CFF ")).copied()?;
            let regions = cff_regions(&data[o..o + l], rng);
            let (name, s, e) = *rng.pick(&regions);
            Some(hit(rng, data, o + s, (o + e).min(o + l), name))
        }
        1 => glyf_fault(rng, data, &ext),
        _ => gvar_fault(rng, data, &ext),
    }
}

#[allow(dead_code)]
fn _unused(_: sfnt::Font) {}
