//! Structure-aware fault operators over font bytes (located with the independent sfnt reader).

use crate::rt::*;
use crate::sfnt::{self, be16, be32, tag};

pub const BOUNDARY16: &[u16] = &[0, 1, 2, 0x7F, 0x80, 0xFF, 0x100, 0x7FFF, 0x8000, 0xFFFE, 0xFFFF];
pub const BOUNDARY32: &[u32] = &[
    0, 1, 2, 0xFF, 0x100, 0xFFFF, 0x1_0000, 0x7FFF_FFFF, 0x8000_0000, 0xFFFF_FFFE, 0xFFFF_FFFF,
];

/// Tables whose parsers are the interesting targets, with weights.
const HOT: &[(&str, u32)] = &[
    ("cmap", 10), ("glyf", 8), ("loca", 6), ("maxp", 4), ("hhea", 4), ("hmtx", 4), ("head", 4),
    ("CFF ", 10), ("CFF2", 8), ("fvar", 6), ("avar", 4), ("gvar", 8), ("HVAR", 4), ("MVAR", 4),
    ("cvar", 2), ("STAT", 3), ("name", 4), ("post", 4), ("OS/2", 3), ("kern", 3), ("GSUB", 5),
    ("GPOS", 5), ("GDEF", 4), ("morx", 3), ("sbix", 3), ("SVG ", 3), ("CBLC", 3), ("CBDT", 2),
    ("EBLC", 1), ("vhea", 1), ("vmtx", 1), ("VORG", 1),
];

#[derive(Clone, Debug)]
pub struct Applied {
    pub desc: String,
}

fn put16(d: &mut [u8], o: usize, v: u16) -> bool {
    if o + 2 <= d.len() {
        d[o..o + 2].copy_from_slice(&v.to_be_bytes());
        true
    } else {
        false
    }
}
fn put32(d: &mut [u8], o: usize, v: u32) -> bool {
    if o + 4 <= d.len() {
        d[o..o + 4].copy_from_slice(&v.to_be_bytes());
        true
    } else {
        false
    }
}

/// Table extents (tag, offset, length) of member `0` of a plain sfnt/TTC, if the bytes are one.
pub fn table_extents(data: &[u8]) -> Vec<(u32, usize, usize)> {
    let mut v = Vec::new();
    if let Some(offs) = sfnt::Font::member_offsets(data) {
        for at in offs.into_iter().take(4) {
            if let Some(dir) = sfnt::parse_directory(data, at) {
                for r in dir.records {
                    let (o, l) = (r.offset as usize, r.length as usize);
                    if o <= data.len() && l <= data.len() - o {
                        v.push((r.tag, o, l));
                    }
                }
            }
        }
    }
    v
}

fn pick_hot_table(rng: &mut Rng, ext: &[(u32, usize, usize)]) -> Option<(u32, usize, usize)> {
    if ext.is_empty() {
        return None;
    }
    if rng.chance(1, 4) {
        return Some(*rng.pick(ext));
    }
    let total: u32 = HOT.iter().map(|h| h.1).sum();
    for _ in 0..8 {
        let mut r = rng.below(total as usize) as u32;
        for (name, w) in HOT {
            if r < *w {
                let t = tag(name);
                if let Some(e) = ext.iter().find(|e| e.0 == t) {
                    return Some(*e);
                }
                break;
            }
            r -= w;
        }
    }
    Some(*rng.pick(ext))
}

/// Apply one random fault to `data` (in place or by rebuilding). Returns a description.
pub fn apply_fault(rng: &mut Rng, data: &mut Vec<u8>, donors: &[&[u8]]) -> Applied {
    if data.is_empty() {
        return Applied { desc: "empty".into() };
    }
    let ext = table_extents(data);
    let is_sfnt = !ext.is_empty();
    let op = rng.below(if is_sfnt { 18 } else { 6 });
    if op >= 14 {
        // structure-aware faults inside CFF / glyf+loca / gvar (falls back on a hot-table field)
        if let Some(a) = super::faults_struct::apply_struct_fault(rng, data) {
            return a;
        }
    }
    let op = if op >= 14 { 6 } else { op };
    match op {
        0 => {
            let i = rng.below(data.len());
            let v = *rng.pick(&[0u8, 0xFF, 0x7F, 0x80, 1, 0xFE]);
            let v = if rng.chance(1, 4) { rng.u8() } else { v };
            data[i] = v;
            Applied { desc: format!("byte[{}]={:#x}", i, v) }
        }
        1 => {
            let i = rng.below(data.len()) & !1;
            let v = *rng.pick(BOUNDARY16);
            put16(data, i, v);
            Applied { desc: format!("u16[{}]={:#x}", i, v) }
        }
        2 => {
            let i = rng.below(data.len()) & !3;
            let v = match rng.below(4) {
                0 => data.len() as u32,
                1 => (data.len() as u32).wrapping_add(1),
                2 => (data.len() as u32).wrapping_sub(1),
                _ => *rng.pick(BOUNDARY32),
            };
            put32(data, i, v);
            Applied { desc: format!("u32[{}]={:#x}", i, v) }
        }
        3 => {
            // truncation: random, or around a table boundary
            let cut = if is_sfnt && rng.bool() {
                let e = rng.pick(&ext);
                let base = if rng.bool() { e.1 } else { e.1 + e.2 };
                (base as i64 + rng.range(-4, 4)).clamp(0, data.len() as i64) as usize
            } else {
                rng.below(data.len() + 1)
            };
            data.truncate(cut);
            Applied { desc: format!("truncate@{}", cut) }
        }
        4 => {
            // header / directory region field
            let lim = data.len().min(12 + 16 * 24);
            let i = rng.below(lim) & !1;
            if rng.bool() {
                let v = *rng.pick(BOUNDARY16);
                put16(data, i, v);
                Applied { desc: format!("hdr u16[{}]={:#x}", i, v) }
            } else {
                let v = *rng.pick(BOUNDARY32);
                put32(data, i & !3, v);
                Applied { desc: format!("hdr u32[{}]={:#x}", i & !3, v) }
            }
        }
        5 => {
            // small increments / decrements of an existing field (off-by-one counts)
            let i = rng.below(data.len()) & !1;
            if let Some(v) = be16(data, i) {
                let nv = v.wrapping_add(*rng.pick(&[1u16, 0xFFFF, 2, 0x100, 0x8000]));
                put16(data, i, nv);
                return Applied { desc: format!("u16[{}] {:#x}->{:#x}", i, v, nv) };
            }
            Applied { desc: "noop".into() }
        }
        6..=9 => {
            // targeted: field inside a hot table, biased to its header
            let (t, o, l) = pick_hot_table(rng, &ext).unwrap();
            if l == 0 {
                return Applied { desc: "noop(empty table)".into() };
            }
            let within = if rng.chance(2, 3) { rng.below(l.min(64)) } else { rng.below(l) };
            let at = o + (within & !1);
            let desc;
            if rng.chance(2, 3) {
                let v = match rng.below(5) {
                    0 => l as u16,
                    1 => (l as u16).wrapping_add(1),
                    2 => (l as u16).wrapping_sub(1),
                    _ => *rng.pick(BOUNDARY16),
                };
                put16(data, at, v);
                desc = format!("{}+{} u16={:#x}", sfnt::tag_str(t), within & !1, v);
            } else {
                let v = match rng.below(5) {
                    0 => l as u32,
                    1 => (l as u32).wrapping_add(1),
                    2 => (l as u32).wrapping_sub(4),
                    _ => *rng.pick(BOUNDARY32),
                };
                put32(data, at, v);
                desc = format!("{}+{} u32={:#x}", sfnt::tag_str(t), within & !1, v);
            }
            Applied { desc }
        }
        10 => {
            // directory record surgery in place: offset / length of one record
            if let Some(dir) = sfnt::parse_directory(data, 0) {
                if !dir.records.is_empty() {
                    let k = rng.below(dir.records.len());
                    let rec = 12 + 16 * k;
                    let r = &dir.records[k];
                    let other = rng.pick(&dir.records);
                    let (field, v) = match rng.below(7) {
                        0 => (8, other.offset),
                        1 => (8, data.len() as u32),
                        2 => (8, r.offset.wrapping_add(r.length / 2)),
                        3 => (12, 0),
                        4 => (12, r.length.wrapping_add(*rng.pick(&[1u32, 4, 0xFFFF, 0x8000_0000]))),
                        5 => (12, r.length.saturating_sub(*rng.pick(&[1u32, 2, 4, 8]))),
                        _ => (12, (data.len() as u32).wrapping_sub(r.offset).wrapping_add(1)),
                    };
                    put32(data, rec + field, v);
                    return Applied { desc: format!("dir[{}].{}={:#x}", sfnt::tag_str(r.tag), if field == 8 { "offset" } else { "length" }, v) };
                }
            }
            Applied { desc: "noop".into() }
        }
        11 => {
            // remove / duplicate / retag a table by rebuilding (plain sfnt only)
            if be32(data, 0) != Some(tag("ttcf")) {
                if let Some(mut f) = sfnt::Font::parse(data) {
                    if !f.tables.is_empty() {
                        let k = rng.below(f.tables.len());
                        let t = f.tables[k].0;
                        let desc = match rng.below(4) {
                            0 => {
                                f.tables.remove(k);
                                format!("remove {}", sfnt::tag_str(t))
                            }
                            1 => {
                                let j = rng.below(f.tables.len());
                                let tj = f.tables[j].0;
                                f.tables[k].0 = tj;
                                f.tables[j].0 = t;
                                format!("swap {}<->{}", sfnt::tag_str(t), sfnt::tag_str(tj))
                            }
                            2 => {
                                let d = f.tables[k].1.clone();
                                f.tables.push((t, d));
                                format!("duplicate {}", sfnt::tag_str(t))
                            }
                            _ => {
                                f.tables[k].1.clear();
                                format!("empty {}", sfnt::tag_str(t))
                            }
                        };
                        *data = f.build_with_order(&(0..f.tables.len()).collect::<Vec<_>>(), false);
                        return Applied { desc };
                    }
                }
            }
            Applied { desc: "noop".into() }
        }
        12 => {
            // splice a table from a donor font
            if !donors.is_empty() && be32(data, 0) != Some(tag("ttcf")) {
                let donor = rng.pick(donors);
                if let (Some(mut f), Some(g)) = (sfnt::Font::parse(data), sfnt::Font::parse(donor)) {
                    if !g.tables.is_empty() {
                        let (t, d) = rng.pick(&g.tables).clone();
                        f.set(t, d);
                        *data = f.build();
                        return Applied { desc: format!("splice {}", sfnt::tag_str(t)) };
                    }
                }
            }
            Applied { desc: "noop".into() }
        }
        _ => {
            // run of identical bytes inside a hot table
            let (t, o, l) = pick_hot_table(rng, &ext).unwrap();
            if l == 0 {
                return Applied { desc: "noop".into() };
            }
            let start = rng.below(l);
            let n = 1 + rng.below(16.min(l - start));
            let v = *rng.pick(&[0u8, 0xFF, 0x80, 0x7F]);
            for b in &mut data[o + start..o + start + n] {
                *b = v;
            }
            Applied { desc: format!("{}+{} fill {}x{:#x}", sfnt::tag_str(t), start, n, v) }
        }
    }
}
