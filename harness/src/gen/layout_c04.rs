//! C04 — abstract description (AST) of GDEF + GSUB (+ fvar) and an INDEPENDENT binary writer.
//!
//! Nothing in here uses allsorts. The reference interpreter (`model::gsub_c04`) is evaluated on
//! these types; the writer turns them into the bytes allsorts is given. Layout choices that do not
//! change the meaning (Coverage/ClassDef format, range splitting, order and sharing of child
//! tables, extension wrapping, padding) are part of the AST (`fmt`, `salt`, `ext`, `pad`) so that
//! writing is a pure function of the AST.

use crate::sfnt::W;
use std::collections::BTreeMap;

pub const IGNORE_BASE: u16 = 0x0002;
pub const IGNORE_LIG: u16 = 0x0004;
pub const IGNORE_MARKS: u16 = 0x0008;
pub const USE_MFS: u16 = 0x0010;

#[derive(Debug, Clone)]
pub struct Overflow(pub &'static str);
type R<T> = Result<T, Overflow>;

fn o16(v: usize, what: &'static str) -> R<u16> {
    if v > 0xFFFF {
        Err(Overflow(what))
    } else {
        Ok(v as u16)
    }
}

fn salt_bit(salt: u32, k: u32) -> bool {
    // cheap deterministic bit stream from a salt
    let mut x = (salt as u64).wrapping_add(0x9E37_79B9_7F4A_7C15u64.wrapping_mul(k as u64 + 1));
    x = (x ^ (x >> 30)).wrapping_mul(0xBF58_476D_1CE4_E5B9);
    x = (x ^ (x >> 27)).wrapping_mul(0x94D0_49BB_1331_11EB);
    (x ^ (x >> 31)) & 1 == 1
}

// ---------------------------------------------------------------------------------------------
// Coverage / ClassDef
// ---------------------------------------------------------------------------------------------

/// A coverage table: a set of glyphs; the coverage index of a glyph is its rank in ascending order.
#[derive(Clone, Debug, PartialEq)]
pub struct Cov {
    pub glyphs: Vec<u16>,
    pub fmt: u8,
    pub salt: u32,
}

impl Cov {
    pub fn new(mut glyphs: Vec<u16>, fmt: u8, salt: u32) -> Cov {
        glyphs.sort_unstable();
        glyphs.dedup();
        Cov { glyphs, fmt, salt }
    }
    pub fn index(&self, g: u16) -> Option<usize> {
        self.glyphs.binary_search(&g).ok()
    }
    pub fn contains(&self, g: u16) -> bool {
        self.index(g).is_some()
    }
    pub fn write(&self) -> Vec<u8> {
        let mut w = W::new();
        if self.fmt == 1 {
            w.u16(1).u16(self.glyphs.len() as u16);
            for &g in &self.glyphs {
                w.u16(g);
            }
        } else {
            // ranges of consecutive glyph ids, optionally split (still valid: indices continue)
            let mut ranges: Vec<(u16, u16, u16)> = Vec::new();
            for (i, &g) in self.glyphs.iter().enumerate() {
                let extend = match ranges.last() {
                    Some(&(_, e, _)) => e.wrapping_add(1) == g && e != 0xFFFF && !(salt_bit(self.salt, i as u32) && salt_bit(self.salt, 1000 + i as u32)),
                    None => false,
                };
                if extend {
                    ranges.last_mut().unwrap().1 = g;
                } else {
                    ranges.push((g, g, i as u16));
                }
            }
            w.u16(2).u16(ranges.len() as u16);
            for (s, e, i) in ranges {
                w.u16(s).u16(e).u16(i);
            }
        }
        w.b
    }
}

/// A class definition: glyph -> class (absent = class 0).
#[derive(Clone, Debug, PartialEq)]
pub struct ClassDef {
    pub map: BTreeMap<u16, u16>,
    pub fmt: u8,
    pub salt: u32,
}

impl ClassDef {
    pub fn new(map: BTreeMap<u16, u16>, fmt: u8, salt: u32) -> ClassDef {
        let map = map.into_iter().filter(|&(_, c)| c != 0).collect();
        ClassDef { map, fmt, salt }
    }
    pub fn class(&self, g: u16) -> u16 {
        self.map.get(&g).copied().unwrap_or(0)
    }
    pub fn max_class(&self) -> u16 {
        self.map.values().copied().max().unwrap_or(0)
    }
    pub fn glyphs_of(&self, class: u16, universe: u16) -> Vec<u16> {
        (0..universe).filter(|&g| self.class(g) == class).collect()
    }
    pub fn write(&self) -> Vec<u8> {
        let mut w = W::new();
        if self.fmt == 1 {
            match (self.map.keys().next(), self.map.keys().next_back()) {
                (Some(&lo), Some(&hi)) => {
                    w.u16(1).u16(lo).u16(hi - lo + 1);
                    for g in lo..=hi {
                        w.u16(self.class(g));
                    }
                }
                _ => {
                    w.u16(1).u16(0).u16(0);
                }
            }
        } else {
            let mut ranges: Vec<(u16, u16, u16)> = Vec::new();
            for (i, (&g, &c)) in self.map.iter().enumerate() {
                let extend = match ranges.last() {
                    Some(&(_, e, rc)) => e.wrapping_add(1) == g && rc == c && !(salt_bit(self.salt, i as u32) && salt_bit(self.salt, 1000 + i as u32)),
                    None => false,
                };
                if extend {
                    ranges.last_mut().unwrap().1 = g;
                } else {
                    ranges.push((g, g, c));
                }
            }
            w.u16(2).u16(ranges.len() as u16);
            for (s, e, c) in ranges {
                w.u16(s).u16(e).u16(c);
            }
        }
        w.b
    }
}

// ---------------------------------------------------------------------------------------------
// Table assembly helper: a head with 16-bit offsets to children placed after it
// ---------------------------------------------------------------------------------------------

struct Tab {
    head: W,
    fix: Vec<(usize, usize)>,
    kids: Vec<Vec<u8>>,
}

impl Tab {
    fn new() -> Tab {
        Tab { head: W::new(), fix: Vec::new(), kids: Vec::new() }
    }
    fn u16(&mut self, v: u16) -> &mut Self {
        self.head.u16(v);
        self
    }
    fn i16(&mut self, v: i16) -> &mut Self {
        self.head.i16(v);
        self
    }
    /// a 16-bit offset (from the start of this table) to `child`
    fn off(&mut self, child: Vec<u8>) -> &mut Self {
        self.fix.push((self.head.len(), self.kids.len()));
        self.kids.push(child);
        self.head.u16(0);
        self
    }
    fn null(&mut self) -> &mut Self {
        self.head.u16(0);
        self
    }
    /// Children follow the head, in forward or reverse order (salt), identical children may be
    /// shared (salt) — sharing is how real fonts are packed and exercises offset-keyed caches.
    fn finish(self, salt: u32, what: &'static str) -> R<Vec<u8>> {
        let Tab { head, fix, kids } = self;
        let mut out = head;
        let n = kids.len();
        let order: Vec<usize> = if salt_bit(salt, 7) { (0..n).rev().collect() } else { (0..n).collect() };
        let share = salt_bit(salt, 8);
        let mut at: Vec<usize> = vec![0; n];
        let mut placed: Vec<usize> = Vec::new();
        for &k in &order {
            let mut done = false;
            if share {
                for &p in &placed {
                    if kids[p] == kids[k] {
                        at[k] = at[p];
                        done = true;
                        break;
                    }
                }
            }
            if !done {
                at[k] = out.len();
                out.bytes(&kids[k]);
                placed.push(k);
            }
        }
        for (pos, k) in fix {
            out.set_u16(pos, o16(at[k], what)?);
        }
        Ok(out.b)
    }
}

// ---------------------------------------------------------------------------------------------
// GDEF
// ---------------------------------------------------------------------------------------------

#[derive(Clone, Debug)]
pub struct Gdef {
    /// 0, 2 or 3 (version 1.0 / 1.2 / 1.3); mark glyph sets need >= 2
    pub minor: u16,
    pub glyph_class: Option<ClassDef>,
    pub mark_attach: Option<ClassDef>,
    pub mark_sets: Vec<Cov>,
}

impl Gdef {
    pub fn glyph_class(&self, g: u16) -> u16 {
        self.glyph_class.as_ref().map_or(0, |c| c.class(g))
    }
    pub fn attach_class(&self, g: u16) -> u16 {
        self.mark_attach.as_ref().map_or(0, |c| c.class(g))
    }
    pub fn write(&self) -> R<Vec<u8>> {
        let mut w = W::new();
        let header = match self.minor {
            0 => 12,
            2 => 14,
            _ => 18,
        };
        w.u16(1).u16(self.minor);
        // children: glyph classdef, mark attach classdef, mark glyph sets
        let gc = self.glyph_class.as_ref().map(|c| c.write());
        let ma = self.mark_attach.as_ref().map(|c| c.write());
        let ms = if self.minor >= 2 && !self.mark_sets.is_empty() {
            let mut t = W::new();
            t.u16(1).u16(self.mark_sets.len() as u16);
            let mut at = 4 + 4 * self.mark_sets.len();
            let covs: Vec<Vec<u8>> = self.mark_sets.iter().map(|c| c.write()).collect();
            for c in &covs {
                t.u32(at as u32);
                at += c.len();
            }
            for c in &covs {
                t.bytes(c);
            }
            Some(t.b)
        } else {
            None
        };
        let mut at = header;
        let mut place = |b: &Option<Vec<u8>>| -> R<u16> {
            match b {
                Some(b) => {
                    let o = o16(at, "gdef")?;
                    at += b.len();
                    Ok(o)
                }
                None => Ok(0),
            }
        };
        let o_gc = place(&gc)?;
        let o_ma = place(&ma)?;
        let o_ms = place(&ms)?;
        w.u16(o_gc).u16(0).u16(0).u16(o_ma);
        if self.minor >= 2 {
            w.u16(o_ms);
        }
        if self.minor >= 3 {
            w.u32(0);
        }
        for b in [&gc, &ma, &ms].into_iter().flatten() {
            w.bytes(b);
        }
        Ok(w.b)
    }
}

// ---------------------------------------------------------------------------------------------
// GSUB lookups
// ---------------------------------------------------------------------------------------------

#[derive(Clone, Debug, PartialEq)]
pub struct Lig {
    /// components after the first (the first is the covered glyph)
    pub comps: Vec<u16>,
    pub lig: u16,
}

/// One (chained) sequence rule. `input` excludes the first glyph; `back[0]` is the glyph closest
/// to the input. Values are glyph ids (format 1) or classes (format 2).
#[derive(Clone, Debug, PartialEq, Default)]
pub struct Rule {
    pub back: Vec<u16>,
    pub input: Vec<u16>,
    pub ahead: Vec<u16>,
    pub recs: Vec<(u16, u16)>,
}

#[derive(Clone, Debug, PartialEq)]
pub enum Sub {
    Single1 { cov: Cov, delta: i16 },
    Single2 { cov: Cov, subst: Vec<u16> },
    Multiple { cov: Cov, seqs: Vec<Vec<u16>> },
    Alternate { cov: Cov, alts: Vec<Vec<u16>> },
    Ligature { cov: Cov, sets: Vec<Vec<Lig>> },
    Ctx1 { cov: Cov, sets: Vec<Option<Vec<Rule>>>, salt: u32 },
    Ctx2 { cov: Cov, cd: ClassDef, sets: Vec<Option<Vec<Rule>>>, salt: u32 },
    Ctx3 { covs: Vec<Cov>, recs: Vec<(u16, u16)>, salt: u32 },
    Chain1 { cov: Cov, sets: Vec<Option<Vec<Rule>>>, salt: u32 },
    Chain2 { cov: Cov, bcd: ClassDef, icd: ClassDef, acd: ClassDef, sets: Vec<Option<Vec<Rule>>>, salt: u32 },
    Chain3 { back: Vec<Cov>, input: Vec<Cov>, ahead: Vec<Cov>, recs: Vec<(u16, u16)>, salt: u32 },
    Rev { cov: Cov, back: Vec<Cov>, ahead: Vec<Cov>, subst: Vec<u16>, salt: u32 },
}

impl Sub {
    pub fn ltype(&self) -> u16 {
        match self {
            Sub::Single1 { .. } | Sub::Single2 { .. } => 1,
            Sub::Multiple { .. } => 2,
            Sub::Alternate { .. } => 3,
            Sub::Ligature { .. } => 4,
            Sub::Ctx1 { .. } | Sub::Ctx2 { .. } | Sub::Ctx3 { .. } => 5,
            Sub::Chain1 { .. } | Sub::Chain2 { .. } | Sub::Chain3 { .. } => 6,
            Sub::Rev { .. } => 8,
        }
    }
    pub fn name(&self) -> &'static str {
        match self {
            Sub::Single1 { .. } => "single1",
            Sub::Single2 { .. } => "single2",
            Sub::Multiple { .. } => "multiple1",
            Sub::Alternate { .. } => "alternate1",
            Sub::Ligature { .. } => "ligature1",
            Sub::Ctx1 { .. } => "context1",
            Sub::Ctx2 { .. } => "context2",
            Sub::Ctx3 { .. } => "context3",
            Sub::Chain1 { .. } => "chain1",
            Sub::Chain2 { .. } => "chain2",
            Sub::Chain3 { .. } => "chain3",
            Sub::Rev { .. } => "reverse1",
        }
    }
    /// All (sequence index, lookup index) records of this subtable.
    pub fn records(&self) -> Vec<(u16, u16)> {
        match self {
            Sub::Ctx1 { sets, .. } | Sub::Ctx2 { sets, .. } | Sub::Chain1 { sets, .. } | Sub::Chain2 { sets, .. } => {
                sets.iter().flatten().flatten().flat_map(|r| r.recs.iter().copied()).collect()
            }
            Sub::Ctx3 { recs, .. } | Sub::Chain3 { recs, .. } => recs.clone(),
            _ => Vec::new(),
        }
    }

    fn write_rule(r: &Rule, chain: bool) -> Vec<u8> {
        let mut w = W::new();
        if chain {
            w.u16(r.back.len() as u16);
            for &v in &r.back {
                w.u16(v);
            }
            w.u16(r.input.len() as u16 + 1);
            for &v in &r.input {
                w.u16(v);
            }
            w.u16(r.ahead.len() as u16);
            for &v in &r.ahead {
                w.u16(v);
            }
            w.u16(r.recs.len() as u16);
        } else {
            w.u16(r.input.len() as u16 + 1).u16(r.recs.len() as u16);
            for &v in &r.input {
                w.u16(v);
            }
        }
        for &(s, l) in &r.recs {
            w.u16(s).u16(l);
        }
        w.b
    }

    fn write_rule_set(rules: &[Rule], chain: bool, salt: u32) -> R<Vec<u8>> {
        let mut t = Tab::new();
        t.u16(rules.len() as u16);
        for r in rules {
            t.off(Self::write_rule(r, chain));
        }
        t.finish(salt ^ 0x55, "rule-set")
    }

    pub fn write(&self) -> R<Vec<u8>> {
        let mut t = Tab::new();
        let salt;
        match self {
            Sub::Single1 { cov, delta } => {
                salt = cov.salt;
                t.u16(1).off(cov.write()).i16(*delta);
            }
            Sub::Single2 { cov, subst } => {
                salt = cov.salt;
                t.u16(2).off(cov.write()).u16(subst.len() as u16);
                for &g in subst {
                    t.u16(g);
                }
            }
            Sub::Multiple { cov, seqs } => {
                salt = cov.salt;
                t.u16(1).off(cov.write()).u16(seqs.len() as u16);
                for s in seqs {
                    let mut w = W::new();
                    w.u16(s.len() as u16);
                    for &g in s {
                        w.u16(g);
                    }
                    t.off(w.b);
                }
            }
            Sub::Alternate { cov, alts } => {
                salt = cov.salt;
                t.u16(1).off(cov.write()).u16(alts.len() as u16);
                for s in alts {
                    let mut w = W::new();
                    w.u16(s.len() as u16);
                    for &g in s {
                        w.u16(g);
                    }
                    t.off(w.b);
                }
            }
            Sub::Ligature { cov, sets } => {
                salt = cov.salt;
                t.u16(1).off(cov.write()).u16(sets.len() as u16);
                for (k, set) in sets.iter().enumerate() {
                    let mut st = Tab::new();
                    st.u16(set.len() as u16);
                    for l in set {
                        let mut w = W::new();
                        w.u16(l.lig).u16(l.comps.len() as u16 + 1);
                        for &g in &l.comps {
                            w.u16(g);
                        }
                        st.off(w.b);
                    }
                    t.off(st.finish(salt ^ k as u32, "ligature-set")?);
                }
            }
            Sub::Ctx1 { cov, sets, salt: s } | Sub::Chain1 { cov, sets, salt: s } => {
                salt = *s;
                let chain = matches!(self, Sub::Chain1 { .. });
                t.u16(1).off(cov.write()).u16(sets.len() as u16);
                for (k, set) in sets.iter().enumerate() {
                    match set {
                        Some(rules) => {
                            t.off(Self::write_rule_set(rules, chain, salt ^ k as u32)?);
                        }
                        None => {
                            t.null();
                        }
                    }
                }
            }
            Sub::Ctx2 { cov, cd, sets, salt: s } => {
                salt = *s;
                t.u16(2).off(cov.write()).off(cd.write()).u16(sets.len() as u16);
                for (k, set) in sets.iter().enumerate() {
                    match set {
                        Some(rules) => {
                            t.off(Self::write_rule_set(rules, false, salt ^ k as u32)?);
                        }
                        None => {
                            t.null();
                        }
                    }
                }
            }
            Sub::Chain2 { cov, bcd, icd, acd, sets, salt: s } => {
                salt = *s;
                t.u16(2).off(cov.write()).off(bcd.write()).off(icd.write()).off(acd.write()).u16(sets.len() as u16);
                for (k, set) in sets.iter().enumerate() {
                    match set {
                        Some(rules) => {
                            t.off(Self::write_rule_set(rules, true, salt ^ k as u32)?);
                        }
                        None => {
                            t.null();
                        }
                    }
                }
            }
            Sub::Ctx3 { covs, recs, salt: s } => {
                salt = *s;
                t.u16(3).u16(covs.len() as u16).u16(recs.len() as u16);
                for c in covs {
                    t.off(c.write());
                }
                for &(s, l) in recs {
                    t.u16(s).u16(l);
                }
            }
            Sub::Chain3 { back, input, ahead, recs, salt: s } => {
                salt = *s;
                t.u16(3).u16(back.len() as u16);
                for c in back {
                    t.off(c.write());
                }
                t.u16(input.len() as u16);
                for c in input {
                    t.off(c.write());
                }
                t.u16(ahead.len() as u16);
                for c in ahead {
                    t.off(c.write());
                }
                t.u16(recs.len() as u16);
                for &(s, l) in recs {
                    t.u16(s).u16(l);
                }
            }
            Sub::Rev { cov, back, ahead, subst, salt: s } => {
                salt = *s;
                t.u16(1).off(cov.write()).u16(back.len() as u16);
                for c in back {
                    t.off(c.write());
                }
                t.u16(ahead.len() as u16);
                for c in ahead {
                    t.off(c.write());
                }
                t.u16(subst.len() as u16);
                for &g in subst {
                    t.u16(g);
                }
            }
        }
        t.finish(salt, "subtable")
    }
}

#[derive(Clone, Debug)]
pub struct Lookup {
    pub ltype: u16,
    /// lookupFlag incl. markAttachmentType in the high byte and USE_MFS
    pub flag: u16,
    pub mark_set: Option<u16>,
    pub subs: Vec<Sub>,
    /// written as lookup type 7 with one extension subtable per subtable
    pub ext: bool,
    /// bytes of padding between the lookup header and its first subtable
    pub pad: usize,
}

#[derive(Clone, Debug)]
pub struct Feature {
    pub tag: u32,
    pub lookups: Vec<u16>,
}

#[derive(Clone, Debug)]
pub struct LangSys {
    pub required: Option<u16>,
    pub features: Vec<u16>,
}

#[derive(Clone, Debug)]
pub struct Script {
    pub tag: u32,
    pub default: Option<LangSys>,
    pub langs: Vec<(u32, LangSys)>,
}

#[derive(Clone, Debug)]
pub struct Cond {
    pub axis: u16,
    /// raw F2Dot14
    pub min: i16,
    pub max: i16,
}

#[derive(Clone, Debug)]
pub struct FvRecord {
    /// None = condition-set offset 0 (universal)
    pub conds: Option<Vec<Cond>>,
    /// (feature index, substitute lookup list), ascending feature index;
    /// None = featureTableSubstitutionOffset 0 (the record matches but substitutes nothing)
    pub substs: Option<Vec<(u16, Vec<u16>)>>,
}

#[derive(Clone, Debug)]
pub struct Gsub {
    pub scripts: Vec<Script>,
    pub features: Vec<Feature>,
    pub lookups: Vec<Lookup>,
    pub fv: Option<Vec<FvRecord>>,
    /// padding before the extension pool (pushes extension offsets beyond 16 bits)
    pub pool_pad: usize,
    pub salt: u32,
}

fn write_langsys(l: &LangSys) -> Vec<u8> {
    let mut w = W::new();
    w.u16(0).u16(l.required.unwrap_or(0xFFFF)).u16(l.features.len() as u16);
    for &f in &l.features {
        w.u16(f);
    }
    w.b
}

fn write_feature_table(lookups: &[u16]) -> Vec<u8> {
    let mut w = W::new();
    w.u16(0).u16(lookups.len() as u16);
    for &l in lookups {
        w.u16(l);
    }
    w.b
}

impl Gsub {
    fn write_script_list(&self) -> R<Vec<u8>> {
        let mut t = Tab::new();
        t.u16(self.scripts.len() as u16);
        for s in &self.scripts {
            let mut st = Tab::new();
            match &s.default {
                Some(l) => {
                    st.off(write_langsys(l));
                }
                None => {
                    st.null();
                }
            }
            st.u16(s.langs.len() as u16);
            for (tag, l) in &s.langs {
                st.u16((tag >> 16) as u16).u16(*tag as u16).off(write_langsys(l));
            }
            t.u16((s.tag >> 16) as u16).u16(s.tag as u16).off(st.finish(self.salt ^ s.tag, "script")?);
        }
        t.finish(self.salt ^ 1, "script-list")
    }

    fn write_feature_list(&self) -> R<Vec<u8>> {
        let mut t = Tab::new();
        t.u16(self.features.len() as u16);
        for f in &self.features {
            t.u16((f.tag >> 16) as u16).u16(f.tag as u16).off(write_feature_table(&f.lookups));
        }
        t.finish(self.salt ^ 2, "feature-list")
    }

    fn write_lookup_list(&self) -> R<Vec<u8>> {
        let n = self.lookups.len();
        // subtable bytes
        let mut subs: Vec<Vec<Vec<u8>>> = Vec::with_capacity(n);
        for l in &self.lookups {
            let mut v = Vec::new();
            for s in &l.subs {
                v.push(s.write()?);
            }
            subs.push(v);
        }
        // lookup blocks (header + own subtables or extension stubs)
        let head_len = |l: &Lookup| 6 + 2 * l.subs.len() + if l.flag & USE_MFS != 0 { 2 } else { 0 };
        let mut block_len = Vec::with_capacity(n);
        for (l, sb) in self.lookups.iter().zip(&subs) {
            let body: usize = if l.ext { 8 * l.subs.len() } else { sb.iter().map(|b| b.len()).sum() };
            block_len.push(head_len(l) + l.pad + body);
        }
        let list_head = 2 + 2 * n;
        let mut block_at = Vec::with_capacity(n);
        let mut at = list_head;
        for len in &block_len {
            block_at.push(at);
            at += len;
        }
        let pool_at = at + self.pool_pad;
        let mut w = W::new();
        w.u16(n as u16);
        for &a in &block_at {
            w.u16(o16(a, "lookup-offset")?);
        }
        let mut pool = W::new();
        for (i, l) in self.lookups.iter().enumerate() {
            debug_assert_eq!(w.len(), block_at[i]);
            let hl = head_len(l);
            w.u16(if l.ext { 7 } else { l.ltype }).u16(l.flag).u16(l.subs.len() as u16);
            let mut so = hl + l.pad;
            for b in &subs[i] {
                w.u16(o16(so, "subtable-offset")?);
                so += if l.ext { 8 } else { b.len() };
            }
            if l.flag & USE_MFS != 0 {
                w.u16(l.mark_set.unwrap_or(0));
            }
            for k in 0..l.pad {
                w.u8((k as u8).wrapping_mul(37) ^ 0xA5);
            }
            for b in &subs[i] {
                if l.ext {
                    let here = w.len();
                    let target = pool_at + pool.len();
                    w.u16(1).u16(l.ltype).u32((target - here) as u32);
                    pool.bytes(b);
                } else {
                    w.bytes(b);
                }
            }
        }
        for k in 0..self.pool_pad {
            w.u8((k as u8).wrapping_mul(11) ^ 0x3C);
        }
        w.bytes(&pool.b);
        Ok(w.b)
    }

    fn write_fv(recs: &[FvRecord]) -> Vec<u8> {
        let mut w = W::new();
        w.u16(1).u16(0).u32(recs.len() as u32);
        let mut blobs: Vec<(Option<Vec<u8>>, Option<Vec<u8>>)> = Vec::new();
        for r in recs {
            let cs = r.conds.as_ref().map(|conds| {
                let mut c = W::new();
                c.u16(conds.len() as u16);
                for k in 0..conds.len() {
                    c.u32((2 + 4 * conds.len() + 8 * k) as u32);
                }
                for cd in conds {
                    c.u16(1).u16(cd.axis).i16(cd.min).i16(cd.max);
                }
                c.b
            });
            let fts = r.substs.as_ref().map(|substs| {
                let mut f = W::new();
                f.u16(1).u16(0).u16(substs.len() as u16);
                let tabs: Vec<Vec<u8>> = substs.iter().map(|(_, l)| write_feature_table(l)).collect();
                let mut at = 6 + 6 * substs.len();
                for ((idx, _), t) in substs.iter().zip(&tabs) {
                    f.u16(*idx).u32(at as u32);
                    at += t.len();
                }
                for t in &tabs {
                    f.bytes(t);
                }
                f.b
            });
            blobs.push((cs, fts));
        }
        let mut at = 8 + 8 * recs.len();
        for (cs, f) in &blobs {
            match cs {
                Some(c) => {
                    w.u32(at as u32);
                    at += c.len();
                }
                None => {
                    w.u32(0);
                }
            }
            match f {
                Some(f) => {
                    w.u32(at as u32);
                    at += f.len();
                }
                None => {
                    w.u32(0);
                }
            }
        }
        for (cs, f) in &blobs {
            if let Some(c) = cs {
                w.bytes(c);
            }
            if let Some(f) = f {
                w.bytes(f);
            }
        }
        w.b
    }

    pub fn write(&self) -> R<Vec<u8>> {
        let sl = self.write_script_list()?;
        let fl = self.write_feature_list()?;
        let ll = self.write_lookup_list()?;
        let mut w = W::new();
        let header = if self.fv.is_some() { 14 } else { 10 };
        w.u16(1).u16(if self.fv.is_some() { 1 } else { 0 });
        // ScriptList and FeatureList in either order, LookupList (possibly > 64 KiB) last
        let (o_sl, o_fl) = if salt_bit(self.salt, 3) { (header, header + sl.len()) } else { (header + fl.len(), header) };
        let o_ll = header + sl.len() + fl.len();
        w.u16(o16(o_sl, "script-list-offset")?).u16(o16(o_fl, "feature-list-offset")?).u16(o16(o_ll, "lookup-list-offset")?);
        if self.fv.is_some() {
            w.u32((o_ll + ll.len()) as u32);
        }
        if o_sl < o_fl {
            w.bytes(&sl).bytes(&fl);
        } else {
            w.bytes(&fl).bytes(&sl);
        }
        w.bytes(&ll);
        if let Some(fv) = &self.fv {
            w.bytes(&Self::write_fv(fv));
        }
        Ok(w.b)
    }
}

// ---------------------------------------------------------------------------------------------
// Whole program + font
// ---------------------------------------------------------------------------------------------

#[derive(Clone, Debug)]
pub struct Program {
    pub num_glyphs: u16,
    pub gdef: Option<Gdef>,
    pub gsub: Gsub,
    /// number of fvar axes (0 = no fvar table)
    pub axes: usize,
    /// character -> glyph (cmap); several characters may map to one glyph
    pub cmap: BTreeMap<u32, u16>,
}

pub fn write_fvar(axes: usize) -> Vec<u8> {
    let mut w = W::new();
    w.u16(1).u16(0).u16(16).u16(2).u16(axes as u16).u16(20).u16(0).u16(4 * axes as u16 + 4);
    for i in 0..axes {
        w.u32(u32::from_be_bytes([b'a', b'x', b'0', b'0' + i as u8]));
        w.i32(0).i32(50 << 16).i32(100 << 16).u16(0).u16(256 + i as u16);
    }
    w.b
}

pub struct Built {
    pub font: Vec<u8>,
    pub gsub: Vec<u8>,
    pub gdef: Option<Vec<u8>>,
    pub fvar: Option<Vec<u8>>,
}

impl Program {
    pub fn build(&self, cmap_table: Vec<u8>) -> R<Built> {
        let gsub = self.gsub.write()?;
        let gdef = match &self.gdef {
            Some(g) => Some(g.write()?),
            None => None,
        };
        let fvar = if self.axes > 0 { Some(write_fvar(self.axes)) } else { None };
        let mut f = crate::sfnt::tables::minimal_font(cmap_table, self.num_glyphs, None);
        f.sets("GSUB", gsub.clone());
        if let Some(g) = &gdef {
            f.sets("GDEF", g.clone());
        }
        if let Some(v) = &fvar {
            f.sets("fvar", v.clone());
        }
        Ok(Built { font: f.build(), gsub, gdef, fvar })
    }
}
