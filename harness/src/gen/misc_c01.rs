//! Generated `kern` (formats 0 and 2, several sub-tables) and `cvt `/`cvar` tables for C01: the
//! fixture corpus has three format 0 `kern` tables and no `cvar` at all. Written from the OpenType
//! text with the harness's own writer; every interesting field is recorded for targeted faults.

use super::bitmap_c01::Field;
use crate::rt::*;
use crate::sfnt::W;

/// `kern` version 0 with 1-3 sub-tables over glyph ids `< n`.
pub fn gen_kern(rng: &mut Rng, n: u16) -> (Vec<u8>, Vec<Field>) {
    let n = n.max(3);
    let mut fields = Vec::new();
    let nsub = 1 + rng.below(3);
    let mut w = W::new();
    w.u16(0);
    fields.push(Field { at: w.len(), width: 2, what: "kern.nTables" });
    w.u16(nsub as u16);
    for _ in 0..nsub {
        let start = w.len();
        let format2 = rng.chance(1, 2);
        let flags: u16 = *rng.pick(&[1u16, 1, 1, 0, 3, 5, 9]);
        w.u16(0);
        fields.push(Field { at: w.len(), width: 2, what: "kern.subLength" });
        w.u16(0);
        fields.push(Field { at: w.len(), width: 2, what: "kern.coverage" });
        w.u16(flags | if format2 { 0x0200 } else { 0 });
        if !format2 {
            let mut pairs: Vec<(u16, u16, i16)> = (0..rng.below(12)).map(|_| (rng.below(n as usize) as u16, rng.below(n as usize) as u16, rng.range(-300, 300) as i16)).collect();
            pairs.sort_by_key(|p| ((p.0 as u32) << 16) | p.1 as u32);
            pairs.dedup_by_key(|p| (p.0, p.1));
            let (sr, es, rs) = crate::sfnt::search_fields(pairs.len() as u16, 6);
            fields.push(Field { at: w.len(), width: 2, what: "kern0.nPairs" });
            w.u16(pairs.len() as u16).u16(sr).u16(es).u16(rs);
            for (l, r, v) in pairs {
                w.u16(l).u16(r).i16(v);
            }
        } else {
            let rows = 1 + rng.below(4);
            let cols = 1 + rng.below(4);
            let row_width = (cols * 2) as u16;
            let lfirst = rng.below(3) as u16;
            let lcount = 1 + rng.below((n - lfirst).min(10) as usize);
            let rfirst = rng.below(3) as u16;
            let rcount = 1 + rng.below((n - rfirst).min(10) as usize);
            // header: rowWidth, leftClassTable, rightClassTable, array (offsets from the sub-table start)
            let hdr = w.len();
            w.u16(row_width).u16(0).u16(0).u16(0);
            fields.push(Field { at: hdr, width: 2, what: "kern2.rowWidth" });
            fields.push(Field { at: hdr + 2, width: 2, what: "kern2.leftClassOffset" });
            fields.push(Field { at: hdr + 4, width: 2, what: "kern2.rightClassOffset" });
            fields.push(Field { at: hdr + 6, width: 2, what: "kern2.arrayOffset" });
            let array_at = w.len();
            for _ in 0..rows * cols {
                w.i16(rng.range(-300, 300) as i16);
            }
            let left_at = w.len();
            fields.push(Field { at: w.len(), width: 2, what: "kern2.left.firstGlyph" });
            w.u16(lfirst);
            fields.push(Field { at: w.len(), width: 2, what: "kern2.left.nGlyphs" });
            w.u16(lcount as u16);
            for _ in 0..lcount {
                fields.push(Field { at: w.len(), width: 2, what: "kern2.left.class" });
                // left values: byte offset of the row, either from the array or from the sub-table start
                w.u16((rng.below(rows) * cols * 2) as u16);
            }
            let right_at = w.len();
            fields.push(Field { at: w.len(), width: 2, what: "kern2.right.firstGlyph" });
            w.u16(rfirst);
            fields.push(Field { at: w.len(), width: 2, what: "kern2.right.nGlyphs" });
            w.u16(rcount as u16);
            for _ in 0..rcount {
                fields.push(Field { at: w.len(), width: 2, what: "kern2.right.class" });
                w.u16((rng.below(cols) * 2) as u16);
            }
            w.set_u16(hdr + 2, (left_at - start) as u16);
            w.set_u16(hdr + 4, (right_at - start) as u16);
            w.set_u16(hdr + 6, (array_at - start) as u16);
        }
        let len = (w.len() - start) as u16;
        w.set_u16(start + 2, len);
    }
    (w.b, fields)
}

fn packed_points(w: &mut W, rng: &mut Rng, num: u16) {
    if rng.chance(1, 3) || num == 0 {
        w.u8(0); // all
        return;
    }
    let mut pts: Vec<u16> = (0..num).filter(|_| rng.chance(1, 2)).collect();
    if pts.is_empty() {
        pts.push(0);
    }
    let n = pts.len();
    if n >= 128 || rng.chance(1, 8) {
        w.u8(0x80 | (n >> 8) as u8).u8(n as u8);
    } else {
        w.u8(n as u8);
    }
    let mut i = 0;
    let mut prev = 0u16;
    while i < n {
        let run = (1 + rng.below(8)).min(n - i);
        let word = rng.chance(1, 4);
        w.u8((run - 1) as u8 | if word { 0x80 } else { 0 });
        for k in i..i + run {
            let d = pts[k] - prev;
            prev = pts[k];
            if word {
                w.u16(d);
            } else {
                w.u8(d as u8);
            }
        }
        i += run;
    }
}

fn packed_deltas(w: &mut W, rng: &mut Rng, count: usize) {
    let mut i = 0;
    while i < count {
        let run = (1 + rng.below(8)).min(count - i);
        match rng.below(3) {
            0 => {
                w.u8(0x80 | (run - 1) as u8);
            }
            1 => {
                w.u8(0x40 | (run - 1) as u8);
                for _ in 0..run {
                    w.i16(rng.range(-400, 400) as i16);
                }
            }
            _ => {
                w.u8((run - 1) as u8);
                for _ in 0..run {
                    w.i8(rng.range(-100, 100) as i8);
                }
            }
        }
        i += run;
    }
}

/// `cvt ` with `num` values and a `cvar` over `axis_count` axes: 1-3 tuple variations with embedded
/// peaks, optional intermediate regions, shared or private point numbers.
pub fn gen_cvt_cvar(rng: &mut Rng, axis_count: usize, num: u16) -> (Vec<u8>, Vec<u8>, Vec<Field>) {
    let mut cvt = W::new();
    for _ in 0..num {
        cvt.i16(rng.range(-500, 1500) as i16);
    }
    let mut fields = Vec::new();
    let ntuples = 1 + rng.below(3);
    let shared_points = rng.chance(1, 2);
    // serialized data first (sizes are needed by the headers)
    let mut data = W::new();
    if shared_points {
        packed_points(&mut data, rng, num);
    }
    let mut headers = W::new();
    for _ in 0..ntuples {
        let private = !shared_points || rng.chance(1, 3);
        let inter = rng.chance(1, 3);
        let before = data.len();
        let count = if private {
            let mark = data.len();
            packed_points(&mut data, rng, num);
            // "all points" marker or an explicit list: the delta count follows the list length
            let b0 = data.b[mark];
            if b0 == 0 { num as usize } else if b0 & 0x80 != 0 { (((b0 & 0x7F) as usize) << 8) | data.b[mark + 1] as usize } else { b0 as usize }
        } else {
            // shared list: recompute its length from the bytes written at the start of `data`
            let b0 = data.b[0];
            if b0 == 0 { num as usize } else if b0 & 0x80 != 0 { (((b0 & 0x7F) as usize) << 8) | data.b[1] as usize } else { b0 as usize }
        };
        packed_deltas(&mut data, rng, count);
        let size = (data.len() - before) as u16;
        headers.u16(size);
        headers.u16(0x8000 | if inter { 0x4000 } else { 0 } | if private { 0x2000 } else { 0 });
        let peak: Vec<i16> = (0..axis_count).map(|_| *rng.pick(&[0x4000i16, -0x4000, 0x2000, 0, 0x1000])).collect();
        for &p in &peak {
            headers.i16(p);
        }
        if inter {
            for &p in &peak {
                headers.i16(if p > 0 { p / 2 } else { p.max(-0x4000) });
            }
            for &p in &peak {
                headers.i16(if p > 0 { 0x4000 } else { p / 2 });
            }
        }
    }
    let mut w = W::new();
    w.u16(1).u16(0);
    fields.push(Field { at: w.len(), width: 2, what: "cvar.tupleVariationCount" });
    w.u16(ntuples as u16 | if shared_points { 0x8000 } else { 0 });
    fields.push(Field { at: w.len(), width: 2, what: "cvar.dataOffset" });
    w.u16((8 + headers.len()) as u16);
    let hdr_at = w.len();
    w.bytes(&headers.b);
    // header fields: variationDataSize / tupleIndex of the first header, and a few data bytes
    fields.push(Field { at: hdr_at, width: 2, what: "cvar.variationDataSize" });
    fields.push(Field { at: hdr_at + 2, width: 2, what: "cvar.tupleIndex" });
    let data_at = w.len();
    w.bytes(&data.b);
    for k in 0..data.len().min(6) {
        fields.push(Field { at: data_at + k, width: 1, what: "cvar.data-byte" });
    }
    (cvt.b, w.b, fields)
}
