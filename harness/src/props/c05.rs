//! C05 — Glyph positioning follows OpenType GPOS semantics (incl. the legacy kern table).
//!
//! A case is a generated GDEF/GPOS/kern program (AST in c05_gen.rs, written by the independent
//! writer there) wrapped in a minimal sfnt with distinct advances, plus a glyph string. allsorts
//! shapes the string (`Font::shape`, or `gpos::apply_features` directly) and lays it out in both
//! directions (`GlyphLayout::glyph_positions`). The reference interpreter (c05_model.rs) evaluates
//! the same AST; the oracle is relational on absolute pen positions.

#[path = "c05_gen.rs"]
pub mod c05_gen;
#[path = "c05_model.rs"]
pub mod c05_model;

use self::c05_gen::*;
use self::c05_model::*;
use super::Prop;
use crate::rt::*;
use crate::sfnt::cmap as icmap;
use crate::sfnt::tables::{minimal_font, write_hmtx, Hhea};
use allsorts::binary::read::ReadScope;
use allsorts::font_data::FontData;
use allsorts::glyph_position::{GlyphLayout, TextDirection};
use allsorts::gpos::{self, Info, Placement};
use allsorts::gsub::{FeatureInfo, Features, GlyphOrigin, RawGlyph, RawGlyphFlags};
use allsorts::tables::kern::KernTable;
use allsorts::tinyvec::tiny_vec;
use allsorts::Font;

/// UseMarkFilteringSet lookups are generated since /repo commit ae4597e ("fix: a mark filtering set
/// only skips marks outside the set and supersedes the mark attachment type"); before it every
/// non-mark glyph was skipped by such a lookup.
const MFS_ENABLED: bool = true;

pub struct C05 {}

impl C05 {
    pub fn new(_cx: &mut Ctx) -> C05 {
        C05 {}
    }
}

fn build_font(case: &Case, kern_left_incl_array: bool) -> Result<Vec<u8>, String> {
    let n = case.uni.n;
    let groups = vec![(0x41u32, 0x41 + n as u32 - 2, 1u32)];
    let sub = icmap::write_format12(&groups, 0);
    let cmap = icmap::write_cmap(&[icmap::Record { platform: 3, encoding: 10, subtable: 0 }], &[sub]);
    let mut f = minimal_font(cmap, n, Some(0x41));
    let metrics: Vec<(u16, i16)> = case.uni.adv.iter().map(|&a| (a, 0i16)).collect();
    f.sets("hmtx", write_hmtx(&metrics, n as usize));
    let hhea = Hhea { ascender: 800, descender: -200, advance_width_max: 4000, num_h_metrics: n, caret_slope_rise: 1, ..Default::default() };
    f.sets("hhea", hhea.write());
    if case.uni.has_gdef {
        f.sets("GDEF", case.uni.write_gdef()?);
    }
    if let Some(l) = &case.gpos {
        f.sets("GPOS", write_gpos(l, case.rev_layout)?);
    }
    if let Some(k) = &case.kern {
        f.sets("kern", k.write(kern_left_incl_array));
    }
    if !case.liga.is_empty() && !case.direct {
        f.sets("GSUB", write_gsub_liga(&case.liga, &case.gsub_scripts, tag("liga"))?);
    }
    Ok(f.build())
}

#[derive(Clone, Debug)]
struct Observed {
    gids: Vec<u16>,
    kerning: Vec<i32>,
    placement: Vec<Placement>,
    /// per direction (ltr, rtl): (advance, x offset, y offset, vertical advance)
    pos: [Vec<(i32, i32, i32, i32)>; 2],
}

enum RunErr {
    Setup(String),
    Shape(String),
    Layout(String),
}

fn run_allsorts(case: &Case, font_bytes: &[u8]) -> Result<Observed, RunErr> {
    let fd = ReadScope::new(font_bytes).read::<FontData<'_>>().map_err(|e| RunErr::Setup(format!("fontdata {:?}", e)))?;
    let provider = fd.table_provider(0).map_err(|e| RunErr::Setup(format!("provider {:?}", e)))?;
    let mut font = Font::new(provider).map_err(|e| RunErr::Setup(format!("font {:?}", e)))?;
    let glyphs: Vec<RawGlyph<()>> = case
        .input
        .iter()
        .map(|&g| RawGlyph {
            unicodes: tiny_vec![[char; 1] => 'a'],
            glyph_index: g,
            liga_component_pos: 0,
            glyph_origin: GlyphOrigin::Direct,
            flags: RawGlyphFlags::empty(),
            variation: None,
            extra_data: (),
        })
        .collect();
    let feats: Vec<FeatureInfo> = case.custom.iter().map(|&t| FeatureInfo { feature_tag: t, alternate: None }).collect();
    let infos: Vec<Info> = if case.direct && case.gpos.is_some() {
        let cache = match font.gpos_cache() {
            Ok(Some(c)) => c,
            Ok(None) => return Err(RunErr::Setup("no gpos cache".into())),
            Err(e) => return Err(RunErr::Shape(format!("gpos_cache {:?}", e))),
        };
        let gdef = font.gdef_table().map_err(|e| RunErr::Shape(format!("gdef {:?}", e)))?;
        let kern_rc = font.kern_table().map_err(|e| RunErr::Shape(format!("kern {:?}", e)))?;
        let kern = kern_rc.as_ref().map(|k| KernTable::from(k.as_ref()));
        let mut infos = Info::init_from_glyphs(gdef.as_deref(), glyphs);
        let script = cache.layout_table.find_script_or_default(case.script).map_err(|e| RunErr::Shape(format!("script {:?}", e)))?;
        if let Some(script) = script {
            let langsys = script.find_langsys_or_default(case.lang).map_err(|e| RunErr::Shape(format!("langsys {:?}", e)))?;
            if let Some(langsys) = langsys {
                gpos::apply_features(&cache, &cache.layout_table, gdef.as_deref(), kern, langsys, feats.iter().copied(), None, &mut infos)
                    .map_err(|e| RunErr::Shape(format!("apply_features {:?}", e)))?;
            }
        }
        infos
    } else {
        match font.shape(glyphs, case.script, case.lang, &Features::Custom(feats), None, case.kerning) {
            Ok(i) => i,
            Err((e, _)) => return Err(RunErr::Shape(format!("shape {:?}", e))),
        }
    };
    let mut pos: [Vec<(i32, i32, i32, i32)>; 2] = [Vec::new(), Vec::new()];
    for (d, dir) in [TextDirection::LeftToRight, TextDirection::RightToLeft].into_iter().enumerate() {
        let mut layout = GlyphLayout::new(&mut font, &infos, dir, false);
        let p = layout.glyph_positions().map_err(|e| RunErr::Layout(format!("{:?}", e)))?;
        pos[d] = p.iter().map(|p| (p.hori_advance, p.x_offset, p.y_offset, p.vert_advance)).collect();
    }
    Ok(Observed {
        gids: infos.iter().map(|i| i.glyph.glyph_index).collect(),
        kerning: infos.iter().map(|i| i.kerning as i32).collect(),
        placement: infos.iter().map(|i| i.placement).collect(),
        pos,
    })
}

fn tag_s(t: u32) -> String {
    crate::sfnt::tag_str(t)
}

fn case_json(case: &Case, font: &[u8]) -> J {
    J::obj(vec![
        ("scenario", J::s(format!("{:?}", case.scenario))),
        ("input", J::A(case.input.iter().map(|&g| J::U(g as u64)).collect())),
        ("script", J::s(tag_s(case.script))),
        ("lang", J::s(case.lang.map(tag_s).unwrap_or_default())),
        ("custom", J::A(case.custom.iter().map(|&t| J::s(tag_s(t))).collect())),
        ("kerning", J::Bool(case.kerning)),
        ("direct", J::Bool(case.direct)),
        ("gdef_classes", J::s(case.uni.class.iter().map(|c| char::from(b'0' + *c)).collect::<String>())),
        ("mark_attach", J::s(case.uni.mac.iter().map(|c| char::from(b'0' + *c)).collect::<String>())),
        ("has_gdef", J::Bool(case.uni.has_gdef)),
        ("has_glyph_classdef", J::Bool(case.uni.has_classdef)),
        ("features", J::s(case.gpos.as_ref().map(|l| format!("{:?}", l.features.iter().map(|f| (tag_s(f.0), f.1.clone())).collect::<Vec<_>>())).unwrap_or_default())),
        ("lookups", J::s(case.gpos.as_ref().map(|l| format!("{:?}", l.lookups)).unwrap_or_default().chars().take(6000).collect::<String>())),
        ("kern", J::s(format!("{:?}", case.kern).chars().take(1500).collect::<String>())),
        ("liga", J::s(format!("{:?}", case.liga))),
        ("font", J::hex(font)),
    ])
}

fn lookup_types(case: &Case, o: &Outcome) -> String {
    let mut t: Vec<String> = Vec::new();
    for e in &o.events {
        if let Some(rest) = e.strip_prefix("type") {
            let d: String = rest.chars().take_while(|c| c.is_ascii_digit()).collect();
            if !t.contains(&d) {
                t.push(d);
            }
        }
    }
    if o.events.iter().any(|e| e.starts_with("kern")) {
        t.push("kern".into());
    }
    if t.is_empty() {
        t.push(format!("none-applied-{:?}", case.scenario));
    }
    t.join("+")
}

struct Verdict {
    rule: &'static str,
    what: String,
    detail: String,
}

/// The relational oracle. `o`: model outcome; `obs`: allsorts.
fn judge(case: &Case, o: &Outcome, obs: &Observed, classes: &mut Vec<String>) -> Vec<Verdict> {
    let mut v: Vec<Verdict> = Vec::new();
    let n = o.g.len();
    let hm = |i: usize| case.uni.adv.get(o.g[i].gid as usize).copied().unwrap_or(0) as i32;
    let mut in_link = vec![false; n];
    let mut has_incoming = vec![false; n];
    for i in 0..n {
        if let Some(c) = o.g[i].curs {
            in_link[i] = true;
            in_link[c.to] = true;
            has_incoming[c.to] = true;
        }
    }
    // a glyph is judged unless something outside the core touched it or the glyph it hangs on
    let mut nj: Vec<bool> = o.g.iter().map(|g| g.nojudge).collect();
    for i in 0..n {
        if let Some(a) = o.g[i].att {
            if nj[a.base] {
                nj[i] = true;
            }
        }
    }
    // Info level
    for i in 0..n {
        if nj[i] {
            classes.push("glyph-not-judged".into());
            continue;
        }
        let g = &o.g[i];
        if obs.kerning[i] != g.xadv && obs.kerning[i] != g.xadv_alt {
            v.push(Verdict { rule: "info-kerning", what: "kerning".into(), detail: format!("glyph #{} (gid {}): Info.kerning {} expected {}", i, g.gid, obs.kerning[i], g.xadv) });
        } else if g.xadv != g.xadv_alt {
            classes.push(if obs.kerning[i] == g.xadv { "kern:minimum-clamps-from-above".into() } else { "kern:minimum-clamps-from-below".into() });
        }
        match (obs.placement[i], g.att, g.curs) {
            (Placement::MarkAnchor(b, ba, ma), Some(a), _) => {
                let ex = (a.bx - a.mx + g.dx, a.by - a.my + g.dy);
                let got = (ba.x as i32 - ma.x as i32, ba.y as i32 - ma.y as i32);
                if b != a.base || ex != got {
                    v.push(Verdict { rule: "info-placement", what: "mark-anchor".into(), detail: format!("glyph #{}: MarkAnchor(base #{}, delta {:?}) expected base #{} delta {:?}", i, b, got, a.base, ex) });
                }
            }
            (p, Some(a), _) => v.push(Verdict { rule: "info-placement", what: "mark-not-attached".into(), detail: format!("glyph #{} (gid {}): placement {:?}, expected attachment to #{}", i, g.gid, p, a.base) }),
            (Placement::CursiveAnchor(to, flag, _, _), None, Some(c)) => {
                if to != c.to || flag != c.rtl_flag {
                    v.push(Verdict { rule: "info-placement", what: "cursive-link".into(), detail: format!("glyph #{}: CursiveAnchor(to #{}, rtl {}) expected to #{} rtl {}", i, to, flag, c.to, c.rtl_flag) });
                }
            }
            (p, None, Some(c)) => v.push(Verdict { rule: "info-placement", what: "cursive-not-linked".into(), detail: format!("glyph #{} (gid {}): placement {:?}, expected cursive link to #{}", i, g.gid, p, c.to) }),
            (Placement::None, None, None) => {
                if (g.dx, g.dy) != (0, 0) {
                    v.push(Verdict { rule: "info-placement", what: "distance-missing".into(), detail: format!("glyph #{} (gid {}): Placement::None expected distance ({}, {})", i, g.gid, g.dx, g.dy) });
                }
            }
            (Placement::Distance(x, y), None, None) => {
                if (x, y) != (g.dx, g.dy) {
                    v.push(Verdict { rule: "info-placement", what: "distance".into(), detail: format!("glyph #{} (gid {}): Distance({}, {}) expected ({}, {})", i, g.gid, x, y, g.dx, g.dy) });
                }
            }
            (p, None, None) => v.push(Verdict { rule: "info-placement", what: "unexpected-attachment".into(), detail: format!("glyph #{} (gid {}): placement {:?}, expected none/distance ({}, {})", i, g.gid, p, g.dx, g.dy) }),
        }
    }
    // geometry, both directions
    for (d, dname) in ["ltr", "rtl"].iter().enumerate() {
        let rtl = d == 1;
        let p = &obs.pos[d];
        let org = origins(&p.iter().map(|x| (x.0, x.1, x.2)).collect::<Vec<_>>(), rtl);
        for i in 0..n {
            if p[i].3 != 0 {
                v.push(Verdict { rule: "advance", what: format!("vertical-advance:{}", dname), detail: format!("glyph #{}: vert_advance {} in horizontal layout", i, p[i].3) });
            }
            if nj[i] {
                continue;
            }
            let g = &o.g[i];
            // (1) advances
            if !in_link[i] {
                let e = hm(i) + g.xadv;
                let e2 = hm(i) + g.xadv_alt;
                if p[i].0 != e && p[i].0 != e2 {
                    v.push(Verdict { rule: "advance", what: format!("advance:{}", dname), detail: format!("glyph #{} (gid {}): advance {} expected {} (font advance {} + adjustments {})", i, g.gid, p[i].0, e, hm(i), g.xadv) });
                }
            }
            // (2) offsets of glyphs that are not attached
            if g.att.is_none() && !in_link[i] {
                if (p[i].1, p[i].2) != (g.dx, g.dy) {
                    v.push(Verdict { rule: "offset", what: format!("offset:{}", dname), detail: format!("glyph #{} (gid {}): offset ({}, {}) expected ({}, {})", i, g.gid, p[i].1, p[i].2, g.dx, g.dy) });
                }
            }
            // (3) marks
            if let Some(a) = g.att {
                let between: i32 = (a.base + 1..=i).map(|k| hm(k) + o.g[k].xadv).sum();
                let between_unknown = (a.base + 1..i).any(|k| nj[k]);
                if rtl && (between != 0 || between_unknown) {
                    classes.push("rtl:mark-with-advance-between:not-judged".into());
                    let ex = (a.bx - a.mx + g.dx, a.by - a.my + g.dy);
                    let got = (org[i].0 - org[a.base].0, org[i].1 - org[a.base].1);
                    classes.push(if ex == got { "rtl:mark-with-advance-between:agrees".into() } else { "rtl:mark-with-advance-between:disagrees".into() });
                } else {
                    let ex = (a.bx - a.mx + g.dx, a.by - a.my + g.dy);
                    let got = (org[i].0 - org[a.base].0, org[i].1 - org[a.base].1);
                    if ex != got {
                        let kind = if o.g[a.base].att.is_some() {
                            "mark-on-mark"
                        } else if in_link[a.base] {
                            "mark-on-cursive-glyph"
                        } else if (o.g[a.base].dx, o.g[a.base].dy) != (0, 0) {
                            "mark-on-displaced-base"
                        } else {
                            "mark-on-base"
                        };
                        v.push(Verdict {
                            rule: "mark-attach",
                            what: format!("{}:{}", kind, dname),
                            detail: format!("mark #{} (gid {}) on #{} (gid {}): origin difference {:?} expected base anchor - mark anchor (+ own placement) = {:?}", i, g.gid, a.base, o.g[a.base].gid, got, ex),
                        });
                    } else {
                        classes.push(format!("judged:mark-relative-position:{}", dname));
                    }
                }
            }
            // (4) cursive
            if let Some(c) = g.curs {
                if nj[c.to] {
                    continue;
                }
                let lhs = org[i].1 + c.exit.1;
                let rhs = org[c.to].1 + c.entry.1;
                if lhs != rhs {
                    v.push(Verdict {
                        rule: "cursive",
                        what: format!("cross-stream:flag-{}:{}", if c.rtl_flag { "set" } else { "clear" }, dname),
                        detail: format!("glyphs #{} -> #{}: exit anchor at y {} but entry anchor at y {} (y offsets {} and {})", i, c.to, lhs, rhs, org[i].1, org[c.to].1),
                    });
                } else {
                    classes.push(format!("judged:cursive-cross-stream:{}", dname));
                }
                // which end stays on the baseline
                let fixed = if c.rtl_flag { c.to } else { i };
                let is_end = if c.rtl_flag { o.g[c.to].curs.is_none() } else { !has_incoming[i] };
                if is_end && org[fixed].1 != o.g[fixed].dy {
                    v.push(Verdict {
                        rule: "cursive",
                        what: format!("fixed-end:flag-{}:{}", if c.rtl_flag { "set" } else { "clear" }, dname),
                        detail: format!("glyphs #{} -> #{}: glyph #{} should keep y offset {} but has {}", i, c.to, fixed, o.g[fixed].dy, org[fixed].1),
                    });
                }
                // line-layout direction: "the layout engine adjusts the advance of the first glyph
                // [...] so that the anchors are aligned in that direction"
                let l = org[i].0 + c.exit.0;
                let r = org[c.to].0 + c.entry.0;
                let between: i32 = (i + 1..c.to).map(|k| hm(k) + o.g[k].xadv).sum();
                if between != 0 || (i + 1..c.to).any(|k| nj[k]) {
                    // skipped glyphs with an advance between the two: where they go is not defined
                    classes.push("cursive-line:advance-between:not-judged".into());
                } else if l != r {
                    v.push(Verdict {
                        rule: "cursive-line",
                        what: format!("line-direction-anchors-apart:{}", dname),
                        detail: format!("glyphs #{} -> #{}: exit anchor at x {} but entry anchor at x {} (origins {} and {})", i, c.to, l, r, org[i].0, org[c.to].0),
                    });
                } else {
                    classes.push(format!("judged:cursive-line-direction:{}", dname));
                }
            }
        }
    }
    // rules with open findings last, so that they never hide another disagreement
    v.sort_by_key(|x| x.rule == "cursive-line");
    v
}

impl Prop for C05 {
    fn case(&mut self, cx: &mut Ctx, rng: &mut Rng) {
        let wide = cx.mode.contains("wide");
        let only = [Scenario::Adjust, Scenario::Marks, Scenario::Cursive, Scenario::Context, Scenario::KernFallback, Scenario::KernOnly, Scenario::Mixed]
            .into_iter()
            .find(|s| cx.mode.contains(&format!("only={:?}", s)));
        let opts = Opts { wide, mfs: MFS_ENABLED, only };
        let case = generate(rng, &opts);
        let has_f2 = case.kern.as_ref().map_or(false, |k| k.subs.iter().any(|s| matches!(s.data, KernData::F2 { .. })));
        let font = match build_font(&case, false) {
            Ok(f) => f,
            Err(e) => {
                cx.inconclusive(&format!("generator:{}", e));
                return;
            }
        };
        // model, both application orders
        let mut o = Model::new(&case).run(Order::LookupList);
        let mut o2 = Model::new(&case).run(Order::PerFeature);
        finalize(&mut o);
        finalize(&mut o2);
        let order_dependent = o.g != o2.g;

        let len = font.len();
        let obs = cx.guard("shape+layout", len, || run_allsorts(&case, &font));
        let obs = match obs {
            None => return, // panic recorded by the guard
            Some(Err(RunErr::Setup(e))) => {
                cx.inconclusive("generator:font-rejected");
                if cx.verbose {
                    eprintln!("C05 setup: {}", e);
                }
                return;
            }
            Some(Err(RunErr::Shape(e))) => {
                let e: String = normalise_digits(&e);
                cx.violation("shape-error", &format!("shape-error:{}", e), J::obj(vec![("error", J::s(e.clone())), ("case", case_json(&case, &font))]));
                return;
            }
            Some(Err(RunErr::Layout(e))) => {
                cx.violation("layout-error", &format!("layout-error:{}", e), J::obj(vec![("error", J::s(e.clone())), ("case", case_json(&case, &font))]));
                return;
            }
            Some(Ok(o)) => o,
        };
        cx.class(&format!("scenario:{:?}", case.scenario));
        cx.class(if case.direct && case.gpos.is_some() { "path:apply_features" } else { "path:Font::shape" });
        if obs.gids != o.g.iter().map(|g| g.gid).collect::<Vec<_>>() {
            cx.inconclusive("gsub-result-differs-from-setup");
            return;
        }
        if !case.liga.is_empty() && o.g.len() != case.input.len() {
            cx.class("gsub:ligature-formed");
        }
        if order_dependent {
            cx.class("not-judged:feature-order-dependent");
            return;
        }
        if wide {
            for r in &case.wide_reasons {
                cx.class(&format!("wide:{}", r));
            }
        }
        for a in &o.amb {
            cx.class(&format!("outside-core:{}", a));
        }
        let mut classes = Vec::new();
        let mut verdicts = judge(&case, &o, &obs, &mut classes);

        // kern format 2: the left class values may or may not include the array offset; the
        // chapter's wording supports both. Accept the font whose encoding allsorts reads correctly.
        if has_f2 && o.events.iter().any(|e| e.starts_with("kern:fmt2")) {
            let font_b = match build_font(&case, true) {
                Ok(f) => f,
                Err(_) => return,
            };
            let obs_b = cx.guard("shape+layout", font_b.len(), || run_allsorts(&case, &font_b));
            if let Some(Ok(obs_b)) = obs_b {
                let mut cb = Vec::new();
                let vb = judge(&case, &o, &obs_b, &mut cb);
                match (verdicts.is_empty(), vb.is_empty()) {
                    (true, true) => cx.class("kern2:both-encodings-agree"),
                    (true, false) => cx.class("kern2:left-class-relative-to-array"),
                    (false, true) => {
                        cx.class("kern2:left-class-relative-to-subtable");
                        verdicts = vb;
                        classes = cb;
                    }
                    (false, false) => {}
                }
            }
        }

        for c in &classes {
            cx.class(c);
        }
        // the line-direction part of cursive attachment is judged separately: a case where only
        // that rule fails is still evidence for everything else
        let line_only: Vec<Verdict> = if verdicts.iter().all(|x| x.rule == "cursive-line") { std::mem::take(&mut verdicts) } else { Vec::new() };
        let mut seen: Vec<&str> = Vec::new();
        for vd in &line_only {
            if seen.contains(&vd.what.as_str()) {
                continue;
            }
            seen.push(vd.what.as_str());
            cx.violation(
                vd.rule,
                &vd.what,
                J::obj(vec![
                    ("detail", J::s(vd.detail.clone())),
                    ("events", J::A(o.events.iter().map(|e| J::s(e.clone())).collect())),
                    ("observed_placement", J::s(format!("{:?}", obs.placement).chars().take(3000).collect::<String>())),
                    ("observed_ltr", J::s(format!("{:?}", obs.pos[0]))),
                    ("observed_rtl", J::s(format!("{:?}", obs.pos[1]))),
                    ("case", case_json(&case, &font)),
                ]),
            );
        }
        if verdicts.is_empty() {
            for e in &o.events {
                cx.class(e);
            }
            if o.applied > 0 {
                cx.nontrivial(mix(hash_bytes(&font), hash_bytes(&case.input.iter().flat_map(|g| g.to_be_bytes()).collect::<Vec<u8>>())));
                cx.class("judged:nontrivial");
                if cx.want_sample() {
                    cx.sample(J::obj(vec![
                        ("scenario", J::s(format!("{:?}", case.scenario))),
                        ("input", J::A(case.input.iter().map(|&g| J::U(g as u64)).collect())),
                        ("events", J::A(o.events.iter().map(|e| J::s(e.clone())).collect())),
                        ("ltr", J::s(format!("{:?}", obs.pos[0]))),
                        ("rtl", J::s(format!("{:?}", obs.pos[1]))),
                    ]));
                }
            } else {
                cx.class("judged:nothing-applied");
            }
        } else {
            // name the defect class: which single deviation from the specification explains it
            let explain = |q: Quirks| -> Vec<Verdict> {
                let mut oq = Model::with_quirks(&case, q).run(Order::PerFeature);
                finalize(&mut oq);
                let mut scratch = Vec::new();
                judge(&case, &oq, &obs, &mut scratch)
            };
            let mut q = Quirks::all();
            let rest = explain(q);
            let (vd, sig) = if rest.is_empty() {
                for i in 0..Quirks::NAMES.len() {
                    q.set(i, false);
                    if !explain(q).is_empty() {
                        q.set(i, true);
                    }
                }
                (&verdicts[0], (0..Quirks::NAMES.len()).filter(|&i| q.get(i)).map(|i| Quirks::NAMES[i]).collect::<Vec<_>>().join("+"))
            } else if rest.iter().all(|x| x.rule == "mark-attach" || x.rule == "cursive" || x.rule == "cursive-line") {
                // the interpreter-level result is explained; what remains is in the pen model
                (&rest[0], rest[0].what.clone())
            } else {
                (&verdicts[0], format!("undiagnosed:{}:{}", verdicts[0].what, lookup_types(&case, &o)))
            };
            cx.violation(
                vd.rule,
                &sig,
                J::obj(vec![
                    ("detail", J::s(vd.detail.clone())),
                    ("all", J::A(verdicts.iter().take(12).map(|x| J::s(format!("[{}] {}", x.rule, x.detail))).collect())),
                    ("model", J::s(format!("{:?}", o.g).chars().take(4000).collect::<String>())),
                    ("events", J::A(o.events.iter().map(|e| J::s(e.clone())).collect())),
                    ("observed_kerning", J::s(format!("{:?}", obs.kerning))),
                    ("observed_placement", J::s(format!("{:?}", obs.placement).chars().take(3000).collect::<String>())),
                    ("observed_ltr", J::s(format!("{:?}", obs.pos[0]))),
                    ("observed_rtl", J::s(format!("{:?}", obs.pos[1]))),
                    ("case", case_json(&case, &font)),
                ]),
            );
        }
    }
}
