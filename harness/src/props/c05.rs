//! C05 — (stub, under construction)

use super::Prop;
use crate::rt::*;

pub struct C05 {}

impl C05 {
    pub fn new(_cx: &mut Ctx) -> C05 {
        C05 {}
    }
}

impl Prop for C05 {
    fn case(&mut self, cx: &mut Ctx, _rng: &mut Rng) {
        cx.inconclusive("not-implemented");
    }
}
