//! C15 helpers: glyf (simple / composite / empty glyphs, GlyfTable + loca).

use super::tt::*;
use super::*;
use allsorts::binary::read::ReadScope;
use allsorts::binary::write::{WriteBinary, WriteBinaryDep, WriteBuffer};
use allsorts::error::{ParseError, WriteError};
use allsorts::tables::glyf::{
    BoundingBox, CompositeGlyph, CompositeGlyphArgument, CompositeGlyphComponent, CompositeGlyphFlag, CompositeGlyphScale,
    GlyfRecord, GlyfTable, Glyph, Point, SimpleGlyph, SimpleGlyphFlag,
};
use allsorts::tables::loca::{owned as oloca, LocaTable};
use allsorts::tables::{F2Dot14, IndexToLocFormat};

/// Fingerprint of a glyph under the writer's declared normalisations: only ON_CURVE_POINT of the
/// simple-glyph flags is carried (coordinates are always written as words), phantom points are
/// run-time data of the variation code and are not serialised.
pub fn fp_glyph(prefix: &str, g: &Glyph<'_>) -> Fp {
    let p = |s: &str| format!("{}{}", prefix, s);
    match g {
        Glyph::Empty(_) => vec![(p("kind"), "empty".to_string())],
        Glyph::Simple(s) => {
            let on: Vec<u8> = s.coordinates.iter().map(|(f, _)| f.is_on_curve() as u8).collect();
            let pts: Vec<(i16, i16)> = s.coordinates.iter().map(|(_, Point(x, y))| (*x, *y)).collect();
            vec![
                (p("kind"), "simple".to_string()),
                (p("bbox"), format!("{:?}", (s.bounding_box.x_min, s.bounding_box.y_min, s.bounding_box.x_max, s.bounding_box.y_max))),
                (p("contours"), s.end_pts_of_contours.len().to_string()),
                (p("end_pts"), fv(&s.end_pts_of_contours)),
                (p("instructions"), fbytes(s.instructions)),
                (p("points"), pts.len().to_string()),
                (p("on_curve"), fv(&on)),
                (p("coordinates"), fv(&pts)),
            ]
        }
        Glyph::Composite(c) => {
            let mut f = vec![
                (p("kind"), "composite".to_string()),
                (p("bbox"), format!("{:?}", (c.bounding_box.x_min, c.bounding_box.y_min, c.bounding_box.x_max, c.bounding_box.y_max))),
                (p("components"), c.glyphs.len().to_string()),
            ];
            for (i, k) in c.glyphs.iter().enumerate() {
                let scale = match k.scale {
                    None => "none".to_string(),
                    Some(CompositeGlyphScale::Scale(s)) => format!("scale {}", s.raw_value()),
                    Some(CompositeGlyphScale::XY { x_scale, y_scale }) => format!("xy {} {}", x_scale.raw_value(), y_scale.raw_value()),
                    Some(CompositeGlyphScale::Matrix(m)) => format!("matrix {} {} {} {}", m[0][0].raw_value(), m[0][1].raw_value(), m[1][0].raw_value(), m[1][1].raw_value()),
                };
                f.push((p(&format!("component[{}]", i)), format!("flags {:#06x} gid {} {:?} {:?} {}", k.flags.bits(), k.glyph_index, k.argument1, k.argument2, scale)));
            }
            f.push((p("instructions"), fbytes(c.instructions)));
            f
        }
    }
}

pub fn step_glyph(cx: &mut Ctx, bytes: &[u8]) -> Step {
    mk_step(cx, "Glyph", bytes.len(), || ReadScope::new(bytes).read::<Glyph<'_>>(), |g| fp_glyph("", g), |b, g| Glyph::write(b, g))
}

pub fn gen_bbox(rng: &mut Rng) -> BoundingBox {
    BoundingBox { x_min: edge_i16(rng), y_min: edge_i16(rng), x_max: edge_i16(rng), y_max: edge_i16(rng) }
}

pub fn gen_instructions(rng: &mut Rng) -> Vec<u8> {
    let l = match rng.below(200) {
        0 => 65535,
        1 => 65534,
        _ => edge_len(rng, 600),
    };
    if l > 1000 {
        let mut v = vec![0xB0u8; l];
        v[0] = rng.u8();
        v[l - 1] = rng.u8();
        v
    } else {
        rng.bytes(l)
    }
}

pub fn gen_simple<'a>(rng: &mut Rng, instructions: &'a [u8]) -> SimpleGlyph<'a> {
    let contours = match rng.below(12) {
        0 => 0,
        1 => 1,
        _ => rng.small(8),
    };
    let mut end_pts = Vec::new();
    let mut total = 0usize;
    for _ in 0..contours {
        total += 1 + if rng.chance(1, 60) { rng.below(400) } else { rng.small(24) };
        end_pts.push((total - 1) as u16);
    }
    let style = rng.below(4);
    let mut prev = (0i16, 0i16);
    let coordinates = (0..total)
        .map(|_| {
            let flag = SimpleGlyphFlag::from_bits_truncate(rng.u8());
            let pt = match style {
                0 => (edge_i16(rng), edge_i16(rng)),
                1 => (prev.0.wrapping_add(rng.range(-255, 255) as i16), prev.1.wrapping_add(rng.range(-255, 255) as i16)),
                2 => (if rng.bool() { prev.0 } else { rng.u16() as i16 }, if rng.bool() { prev.1 } else { rng.u16() as i16 }),
                _ => (rng.u16() as i16, rng.u16() as i16),
            };
            prev = pt;
            (flag, Point(pt.0, pt.1))
        })
        .collect();
    SimpleGlyph {
        bounding_box: gen_bbox(rng),
        end_pts_of_contours: end_pts,
        instructions,
        coordinates,
        phantom_points: if rng.chance(1, 10) { Some(Box::new([Point(1, 2), Point(3, 4), Point(5, 6), Point(7, 8)])) } else { None },
    }
}

pub fn gen_composite<'a>(rng: &mut Rng, instructions: &'a [u8]) -> CompositeGlyph<'a> {
    let n = 1 + rng.small(6);
    let instr_at = if instructions.is_empty() { if rng.chance(1, 4) { Some(rng.below(n)) } else { None } } else { Some(if rng.chance(3, 4) { n - 1 } else { rng.below(n) }) };
    let f2 = |rng: &mut Rng| F2Dot14::from_raw(edge_i16(rng));
    let glyphs = (0..n)
        .map(|i| {
            let mut flags = CompositeGlyphFlag::from_bits_truncate(rng.u16())
                & (CompositeGlyphFlag::ROUND_XY_TO_GRID | CompositeGlyphFlag::USE_MY_METRICS | CompositeGlyphFlag::OVERLAP_COMPOUND | CompositeGlyphFlag::SCALED_COMPONENT_OFFSET | CompositeGlyphFlag::UNSCALED_COMPONENT_OFFSET);
            let words = rng.bool();
            let xy = rng.bool();
            if words {
                flags |= CompositeGlyphFlag::ARG_1_AND_2_ARE_WORDS;
            }
            if xy {
                flags |= CompositeGlyphFlag::ARGS_ARE_XY_VALUES;
            }
            let arg = |rng: &mut Rng| match (words, xy) {
                (true, true) => CompositeGlyphArgument::I16(edge_i16(rng)),
                (true, false) => CompositeGlyphArgument::U16(edge_u16(rng)),
                (false, true) => CompositeGlyphArgument::I8(edge_u16(rng) as i8),
                (false, false) => CompositeGlyphArgument::U8(edge_u16(rng) as u8),
            };
            let scale = match rng.below(4) {
                0 => None,
                1 => {
                    flags |= CompositeGlyphFlag::WE_HAVE_A_SCALE;
                    Some(CompositeGlyphScale::Scale(f2(rng)))
                }
                2 => {
                    flags |= CompositeGlyphFlag::WE_HAVE_AN_X_AND_Y_SCALE;
                    Some(CompositeGlyphScale::XY { x_scale: f2(rng), y_scale: f2(rng) })
                }
                _ => {
                    flags |= CompositeGlyphFlag::WE_HAVE_A_TWO_BY_TWO;
                    Some(CompositeGlyphScale::Matrix([[f2(rng), f2(rng)], [f2(rng), f2(rng)]]))
                }
            };
            if i + 1 < n {
                flags |= CompositeGlyphFlag::MORE_COMPONENTS;
            }
            if instr_at == Some(i) {
                flags |= CompositeGlyphFlag::WE_HAVE_INSTRUCTIONS;
            }
            CompositeGlyphComponent { flags, glyph_index: edge_u16(rng), argument1: arg(rng), argument2: arg(rng), scale }
        })
        .collect();
    CompositeGlyph { bounding_box: gen_bbox(rng), glyphs, instructions, phantom_points: if rng.chance(1, 10) { Some(Box::new([Point(0, 0); 4])) } else { None } }
}

fn glyph_class(cx: &mut Ctx, g: &Glyph<'_>) {
    match g {
        Glyph::Empty(_) => cx.class("rt:glyph:empty"),
        Glyph::Simple(s) => {
            if s.end_pts_of_contours.is_empty() {
                cx.class("rt:glyph:simple-zero-contours");
            }
            if !s.instructions.is_empty() {
                cx.class("rt:glyph:simple-with-instructions");
            }
        }
        Glyph::Composite(c) => {
            for k in &c.glyphs {
                cx.class(match k.scale {
                    None => "rt:glyph:component-unscaled",
                    Some(CompositeGlyphScale::Scale(_)) => "rt:glyph:component-scale",
                    Some(CompositeGlyphScale::XY { .. }) => "rt:glyph:component-xy-scale",
                    Some(CompositeGlyphScale::Matrix(_)) => "rt:glyph:component-2x2",
                });
                cx.class(match k.argument1 {
                    CompositeGlyphArgument::U8(_) => "rt:glyph:args-u8",
                    CompositeGlyphArgument::I8(_) => "rt:glyph:args-i8",
                    CompositeGlyphArgument::U16(_) => "rt:glyph:args-u16",
                    CompositeGlyphArgument::I16(_) => "rt:glyph:args-i16",
                });
            }
            if !c.instructions.is_empty() {
                cx.class("rt:glyph:composite-with-instructions");
            }
        }
    }
}

pub fn rt_glyph(cx: &mut Ctx, rng: &mut Rng) {
    let instr = if rng.bool() { Vec::new() } else { gen_instructions(rng) };
    let simple = rng.bool();
    let g = if simple { Glyph::Simple(gen_simple(rng, &instr)) } else { Glyph::Composite(gen_composite(rng, &instr)) };
    let exp = fp_glyph("", &g);
    glyph_class(cx, &g);
    let gc = g.clone();
    let w = gwrite(cx, "Glyph::write", instr.len() + 64, |b| Glyph::write(b, gc));
    let wit = || J::s(format!("{:?}", g).chars().take(3000).collect::<String>());
    finish_rt(cx, if simple { "glyph-simple" } else { "glyph-composite" }, &exp, w, &mut |cx, b| step_glyph(cx, b), &wit);
}

// ---- whole glyf table + loca ------------------------------------------------------------------

pub fn fp_glyf(t: &GlyfTable<'_>) -> Result<Fp, ParseError> {
    let mut f = vec![("num_glyphs".to_string(), t.records().len().to_string())];
    for (i, r) in t.records().iter().enumerate() {
        let mut r = r.clone();
        r.parse()?;
        if let GlyfRecord::Parsed(g) = &r {
            let gf = fp_glyph(&format!("glyph[{}].", i), g);
            if t.records().len() <= 40 {
                f.extend(gf);
            } else {
                // large tables: one hashed entry per glyph
                let mut h = 0u64;
                for (k, v) in &gf {
                    h = mix(h, mix(hash_str(k), hash_str(v)));
                }
                f.push((format!("glyph[{}]", i), format!("{} {:016x}", gf[0].1, h)));
            }
        }
    }
    Ok(f)
}

/// glyf bytes + loca bytes -> parse -> (optionally parse every record so that the glyph writers run)
/// -> write glyf -> write the loca it returns. The serialised form is `loca_len(u32) ++ loca ++ glyf`.
pub fn step_glyf(cx: &mut Ctx, packed: &[u8], num_glyphs: usize, fmt: IndexToLocFormat, reparse_records: bool) -> Step {
    if packed.len() < 4 {
        return Step::ParseErr("short".to_string());
    }
    let ll = u32::from_be_bytes([packed[0], packed[1], packed[2], packed[3]]) as usize;
    if packed.len() < 4 + ll {
        return Step::ParseErr("short".to_string());
    }
    let loca_bytes = &packed[4..4 + ll];
    let glyf_bytes = &packed[4 + ll..];
    let loca = match cx.guard("LocaTable::read", ll, || ReadScope::new(loca_bytes).read_dep::<LocaTable<'_>>((num_glyphs, fmt))) {
        None => return Step::Panic,
        Some(Err(e)) => return Step::ParseErr(format!("loca-{}", perr(&e))),
        Some(Ok(l)) => l,
    };
    let parsed = cx.guard("GlyfTable::read", glyf_bytes.len(), || -> Result<(GlyfTable<'_>, Fp), ParseError> {
        let mut t = ReadScope::new(glyf_bytes).read_dep::<GlyfTable<'_>>(&loca)?;
        let f = fp_glyf(&t)?;
        if reparse_records {
            for r in t.records_mut() {
                r.parse()?;
            }
        }
        Ok((t, f))
    });
    let (t, fp) = match parsed {
        None => return Step::Panic,
        Some(Err(e)) => return Step::ParseErr(perr(&e)),
        Some(Ok(x)) => x,
    };
    let out = gwrite(cx, "GlyfTable::write_dep", glyf_bytes.len(), |b| {
        let mut g = WriteBuffer::new();
        let l = GlyfTable::write_dep(&mut g, t, fmt)?;
        let mut lb = WriteBuffer::new();
        oloca::LocaTable::write_dep(&mut lb, l, fmt)?;
        use allsorts::binary::write::WriteContext;
        b.write_bytes(&(lb.len() as u32).to_be_bytes())?;
        b.write_bytes(lb.bytes())?;
        b.write_bytes(g.bytes())?;
        Ok(())
    });
    Step::Parsed { fp, out }
}

pub fn pack_glyf(loca: &[u8], glyf: &[u8]) -> Vec<u8> {
    let mut v = (loca.len() as u32).to_be_bytes().to_vec();
    v.extend_from_slice(loca);
    v.extend_from_slice(glyf);
    v
}

pub fn rt_glyf_table(cx: &mut Ctx, rng: &mut Rng) {
    let n = 1 + rng.small(12);
    let fmt = if rng.bool() { IndexToLocFormat::Short } else { IndexToLocFormat::Long };
    let instrs: Vec<Vec<u8>> = (0..n).map(|_| if rng.bool() { Vec::new() } else { let l = rng.small(40); rng.bytes(l) }).collect();
    // glyph values
    let glyphs: Vec<Glyph<'_>> = (0..n)
        .map(|i| match rng.below(5) {
            0 => Glyph::Empty(allsorts::tables::glyf::EmptyGlyph::new()),
            1 | 2 => Glyph::Simple(gen_simple(rng, &instrs[i])),
            _ => Glyph::Composite(gen_composite(rng, &instrs[i])),
        })
        .collect();
    // some records are handed over as raw `Present` scopes (bytes produced by the glyph writer)
    let mut raws: Vec<Option<Vec<u8>>> = Vec::new();
    for g in &glyphs {
        if !matches!(g, Glyph::Empty(_)) && rng.chance(1, 3) {
            let gc = g.clone();
            match gwrite(cx, "Glyph::write", 64, |b| Glyph::write(b, gc)) {
                Wr::Ok(b) if b.len() >= 2 => raws.push(Some(b)),
                _ => raws.push(None),
            }
        } else {
            raws.push(None);
        }
    }
    let mut exp: Fp = vec![("num_glyphs".to_string(), n.to_string())];
    let mut records = Vec::new();
    for (i, g) in glyphs.iter().enumerate() {
        exp.extend(fp_glyph(&format!("glyph[{}].", i), g));
        match &raws[i] {
            Some(b) => {
                cx.class("rt:glyf:present-record");
                records.push(GlyfRecord::Present { number_of_contours: i16::from_be_bytes([b[0], b[1]]), scope: ReadScope::new(b) })
            }
            None => records.push(GlyfRecord::Parsed(g.clone())),
        }
    }
    let table = match GlyfTable::new(records) {
        Ok(t) => t,
        Err(_) => {
            cx.inconclusive("glyf-gen");
            return;
        }
    };
    let w = gwrite(cx, "GlyfTable::write_dep", 4096, |b| {
        let mut g = WriteBuffer::new();
        let l = GlyfTable::write_dep(&mut g, table, fmt)?;
        let mut lb = WriteBuffer::new();
        oloca::LocaTable::write_dep(&mut lb, l, fmt)?;
        use allsorts::binary::write::WriteContext;
        b.write_bytes(&(lb.len() as u32).to_be_bytes())?;
        b.write_bytes(lb.bytes())?;
        b.write_bytes(g.bytes())?;
        Ok(())
    });
    let wit = || J::obj(vec![("format", J::s(i2l(fmt))), ("glyphs", J::s(format!("{:?}", glyphs).chars().take(3000).collect::<String>()))]);
    let name = if fmt == IndexToLocFormat::Short { "glyf-table-short-loca" } else { "glyf-table-long-loca" };
    let reparse = rng.bool();
    finish_rt(cx, name, &exp, w, &mut |cx, b| step_glyf(cx, b, n, fmt, reparse), &wit);
}

// ---- overflow ----------------------------------------------------------------------------------

pub fn overflow_glyph(cx: &mut Ctx, rng: &mut Rng) {
    match rng.below(6) {
        0 | 1 => {
            // instruction count is a uint16
            let l = *rng.pick(&[65535usize, 65536, 65537, 100_000]);
            let instr = vec![0x4Fu8; l];
            let simple = rng.bool();
            let g = if simple {
                let mut s = gen_simple(rng, &instr);
                s.phantom_points = None;
                Glyph::Simple(s)
            } else {
                let mut c = gen_composite(rng, &instr);
                c.phantom_points = None;
                Glyph::Composite(c)
            };
            let exp = fp_glyph("", &g);
            let gc = g.clone();
            let w = gwrite(cx, "Glyph::write", l, |b| Glyph::write(b, gc));
            expect_refused_or_exact(cx, if simple { "glyph-simple-instructions" } else { "glyph-composite-instructions" }, &exp, w, &mut |cx, b| rd_of(step_glyph(cx, b)), &|| J::obj(vec![("instruction_len", J::U(l as u64))]));
        }
        2 | 3 => {
            // numberOfContours is an int16: one single-point contour each
            let n = *rng.pick(&[32767usize, 32768, 32769, 40000, 65535, 65536, 65537]);
            let g = Glyph::Simple(SimpleGlyph {
                bounding_box: gen_bbox(rng),
                end_pts_of_contours: (0..n).map(|i| i.min(65535) as u16).collect(),
                instructions: &[],
                coordinates: (0..n.min(65536)).map(|i| (SimpleGlyphFlag::ON_CURVE_POINT, Point(i as i16, 0))).collect(),
                phantom_points: None,
            });
            let exp = fp_glyph("", &g);
            let gc = g.clone();
            let w = gwrite(cx, "Glyph::write", n * 8, |b| Glyph::write(b, gc));
            expect_refused_or_exact(cx, "glyph-simple-contours", &exp, w, &mut |cx, b| rd_of(step_glyph(cx, b)), &|| J::obj(vec![("contours", J::U(n as u64)), ("what", J::s("n single-point contours, end_pts 0..n-1"))]));
        }
        4 => {
            // the largest point count the last uint16 end point can announce. (A value with more
            // coordinates than its own end points announce is inconsistent rather than too large
            // for a field: the statement does not say what becomes of it, so it is not generated.)
            let n = 65536usize;
            let g = Glyph::Simple(SimpleGlyph {
                bounding_box: gen_bbox(rng),
                end_pts_of_contours: vec![65535],
                instructions: &[],
                coordinates: (0..n).map(|i| (SimpleGlyphFlag::ON_CURVE_POINT, Point(i as i16, 1))).collect(),
                phantom_points: None,
            });
            let exp = fp_glyph("", &g);
            let gc = g.clone();
            let w = gwrite(cx, "Glyph::write", n * 8, |b| Glyph::write(b, gc));
            expect_refused_or_exact(cx, "glyph-simple-points-at-limit", &exp, w, &mut |cx, b| rd_of(step_glyph(cx, b)), &|| J::obj(vec![("points", J::U(n as u64)), ("end_pts", J::s("[65535]"))]));
        }
        _ => {
            // glyf data too large for short loca offsets
            let l = *rng.pick(&[65000usize, 65535]);
            let instr = vec![0x4Fu8; l];
            let mk = |rng: &mut Rng| {
                let mut s = gen_simple(rng, &instr);
                s.phantom_points = None;
                Glyph::Simple(s)
            };
            let glyphs = vec![mk(rng), mk(rng), mk(rng)];
            let mut exp: Fp = vec![("num_glyphs".to_string(), "3".to_string())];
            for (i, g) in glyphs.iter().enumerate() {
                exp.extend(fp_glyph(&format!("glyph[{}].", i), g));
            }
            let table = match GlyfTable::new(glyphs.iter().cloned().map(GlyfRecord::Parsed).collect()) {
                Ok(t) => t,
                Err(_) => return,
            };
            let fmt = IndexToLocFormat::Short;
            let w = gwrite(cx, "GlyfTable::write_dep", 3 * l, |b| {
                let mut g = WriteBuffer::new();
                let lo = GlyfTable::write_dep(&mut g, table, fmt)?;
                let mut lb = WriteBuffer::new();
                oloca::LocaTable::write_dep(&mut lb, lo, fmt)?;
                use allsorts::binary::write::WriteContext;
                b.write_bytes(&(lb.len() as u32).to_be_bytes())?;
                b.write_bytes(lb.bytes())?;
                b.write_bytes(g.bytes())?;
                Ok(())
            });
            expect_refused_or_exact(cx, "glyf-short-loca-size", &exp, w, &mut |cx, b| rd_of(step_glyf(cx, b, 3, fmt, false)), &|| J::obj(vec![("glyph_instruction_len", J::U(l as u64)), ("glyphs", J::U(3))]));
        }
    }
}

pub fn overflow_loca(cx: &mut Ctx, rng: &mut Rng) {
    let n = 2 + rng.small(6);
    let mut offs = gen_loca_offsets(rng, n, true);
    offs.sort();
    let what = rng.below(4);
    match what {
        0 => *offs.last_mut().unwrap() = *rng.pick(&[131072u32, 131074, 200000, u32::MAX - 1]),
        1 => {
            let k = rng.below(n);
            offs[k] |= 1;
        }
        2 => {
            // a middle offset out of range, the last one small
            let k = rng.below(n - 1);
            offs[k] = *rng.pick(&[131072u32, 131074, 1 << 20]);
        }
        _ => *offs.last_mut().unwrap() = 131070,
    }
    let exp: Fp = fp!["format" => "Short", "count" => n, "offsets" => fv(&offs)];
    let t = oloca::LocaTable { offsets: offs.clone() };
    let w = gwrite(cx, "owned::LocaTable::write_dep", n * 4, |b| oloca::LocaTable::write_dep(b, t, IndexToLocFormat::Short));
    let name = ["loca-short-last-too-big", "loca-short-odd", "loca-short-middle-too-big", "loca-short-at-limit"][what];
    expect_refused_or_exact(cx, name, &exp, w, &mut |cx, b| rd_of(step_loca(cx, b, n - 1, IndexToLocFormat::Short)), &|| J::s(fv(&offs)));
}

#[allow(dead_code)]
fn _unused(_: WriteError) {}

/// bytes that parse: a simple glyph whose last REPEAT flag runs past the point count announced by
/// endPtsOfContours (the reader keeps the surplus points)
pub fn edge_repeat_overshoot(cx: &mut Ctx, rng: &mut Rng) {
    let declared = 1 + rng.below(4); // points announced
    let surplus = 1 + rng.below(5);
    let mut b: Vec<u8> = vec![0, 1, 0, 0, 0, 0, 0, 10, 0, 10];
    b.extend_from_slice(&((declared - 1) as u16).to_be_bytes());
    b.extend_from_slice(&[0, 0]); // no instructions
    b.push(0x09); // on-curve | repeat
    b.push((declared + surplus - 1) as u8);
    for i in 0..2 * (declared + surplus) {
        b.extend_from_slice(&(i as i16 + 1).to_be_bytes());
    }
    let wit = || J::obj(vec![("what", J::s("simple glyph, REPEAT flag count exceeds the declared point count")), ("declared_points", J::U(declared as u64)), ("flags_after_repeat", J::U((declared + surplus) as u64)), ("bytes", J::hex(&b))]);
    stability(cx, "glyph(repeat-overshoot)", true, &b, &mut |cx, x| step_glyph(cx, x), &wit);
}
