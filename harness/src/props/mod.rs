//! One workload + oracle per property.

use crate::rt::*;

pub trait Prop {
    /// Run one randomly generated case (all randomness from `rng`, which is seeded by the case seed).
    fn case(&mut self, cx: &mut Ctx, rng: &mut Rng);
    /// Finite sub-spaces that are enumerated completely, split over shards.
    fn exhaustive(&mut self, _cx: &mut Ctx, _shard: u64, _of: u64) {}
    fn finish(&mut self, _cx: &mut Ctx) {}
}

pub mod entry;
pub mod c01;
pub mod c02;
pub mod c03;
pub mod c04;
pub mod c05;
pub mod c06;
pub mod c07;
pub mod c08;
pub mod c09;
pub mod c10;
pub mod c11;
pub mod c12;
pub mod c13;
pub mod c14;
pub mod c15;
pub mod c16;
pub mod c17;
pub mod c18;

pub fn make(prop: &str, cx: &mut Ctx) -> Option<Box<dyn Prop>> {
    Some(match prop {
        "C01" => Box::new(c01::C01::new(cx)),
        "C02" => Box::new(c02::C02::new(cx)),
        "C03" => Box::new(c03::C03::new(cx)),
        "C04" => Box::new(c04::C04::new(cx)),
        "C05" => Box::new(c05::C05::new(cx)),
        "C06" => Box::new(c06::C06::new(cx)),
        "C07" => Box::new(c07::C07::new(cx)),
        "C08" => Box::new(c08::C08::new(cx)),
        "C09" => Box::new(c09::C09::new(cx)),
        "C10" => Box::new(c10::C10::new(cx)),
        "C11" => Box::new(c11::C11::new(cx)),
        "C12" => Box::new(c12::C12::new(cx)),
        "C13" => Box::new(c13::C13::new(cx)),
        "C14" => Box::new(c14::C14::new(cx)),
        "C15" => Box::new(c15::C15::new(cx)),
        "C16" => Box::new(c16::C16::new(cx)),
        "C17" => Box::new(c17::C17::new(cx)),
        "C18" => Box::new(c18::C18::new(cx)),
        _ => return None,
    })
}

pub fn selftest() -> bool {
    let mut ok = true;
    ok &= crate::sfnt::selftest();
    ok
}
