//! One workload + oracle per property.

use crate::rt::*;

pub trait Prop {
    /// Run one randomly generated case (all randomness from `rng`, which is seeded by the case seed).
    fn case(&mut self, cx: &mut Ctx, rng: &mut Rng);
    /// Finite sub-spaces that are enumerated completely, split over shards.
    fn exhaustive(&mut self, _cx: &mut Ctx, _shard: u64, _of: u64) {}
    fn finish(&mut self, _cx: &mut Ctx) {}
}

pub mod entry;
pub mod c14;

pub fn make(prop: &str, cx: &mut Ctx) -> Option<Box<dyn Prop>> {
    Some(match prop {
        "C14" => Box::new(c14::C14::new(cx)),
        _ => return None,
    })
}

pub fn selftest() -> bool {
    let mut ok = true;
    ok &= crate::sfnt::selftest();
    ok
}
