//! INDEPENDENT CFF / CFF2 table writer and Type 2 charstring primitives.
//!
//! Written from Adobe Technical Note #5176 (The Compact Font Format Specification), #5177 (The
//! Type 2 Charstring Format) and the OpenType CFF2 / CFF2 CharString chapters. Shares no code with
//! allsorts: only `crate::sfnt::W` (the harness' own big-endian byte writer) and `crate::rt::Rng`.
//!
//! Layers:
//!  * number / operator encoders for charstrings (`cs_*`) and DICTs (`dict_*`),
//!  * `Tok`: one atomic charstring token (number, operator (+ mask bytes), subroutine call) with its
//!    effect on the argument stack, so that callers can cut programs at token boundaries only,
//!  * `SubrSpace` + `factor`: random local/global subroutine factoring with the bias rule,
//!  * `CffFont` (name-keyed / CID-keyed) and `Cff2Font` (+ `VStore`) serialisers.

#![allow(dead_code)]

use crate::rt::Rng;
use crate::sfnt::W;
use std::collections::BTreeMap;

// ---------------------------------------------------------------------------------------------
// Type 2 operators
// ---------------------------------------------------------------------------------------------

pub mod op {
    pub const HSTEM: u8 = 1;
    pub const VSTEM: u8 = 3;
    pub const VMOVETO: u8 = 4;
    pub const RLINETO: u8 = 5;
    pub const HLINETO: u8 = 6;
    pub const VLINETO: u8 = 7;
    pub const RRCURVETO: u8 = 8;
    pub const CALLSUBR: u8 = 10;
    pub const RETURN: u8 = 11;
    pub const ESCAPE: u8 = 12;
    pub const ENDCHAR: u8 = 14;
    /// CFF2 only
    pub const VSINDEX: u8 = 15;
    /// CFF2 only
    pub const BLEND: u8 = 16;
    pub const HSTEMHM: u8 = 18;
    pub const HINTMASK: u8 = 19;
    pub const CNTRMASK: u8 = 20;
    pub const RMOVETO: u8 = 21;
    pub const HMOVETO: u8 = 22;
    pub const VSTEMHM: u8 = 23;
    pub const RCURVELINE: u8 = 24;
    pub const RLINECURVE: u8 = 25;
    pub const VVCURVETO: u8 = 26;
    pub const HHCURVETO: u8 = 27;
    pub const SHORTINT: u8 = 28;
    pub const CALLGSUBR: u8 = 29;
    pub const VHCURVETO: u8 = 30;
    pub const HVCURVETO: u8 = 31;
    // second byte after ESCAPE (12)
    pub const HFLEX: u8 = 34;
    pub const FLEX: u8 = 35;
    pub const HFLEX1: u8 = 36;
    pub const FLEX1: u8 = 37;
}

/// DICT operators (CFF and CFF2). Two-byte operators are `0x0c00 | b1`.
pub mod dop {
    pub const VERSION: u16 = 0;
    pub const NOTICE: u16 = 1;
    pub const FULL_NAME: u16 = 2;
    pub const FAMILY_NAME: u16 = 3;
    pub const WEIGHT: u16 = 4;
    pub const FONT_BBOX: u16 = 5;
    pub const BLUE_VALUES: u16 = 6;
    pub const OTHER_BLUES: u16 = 7;
    pub const STD_HW: u16 = 10;
    pub const STD_VW: u16 = 11;
    pub const CHARSET: u16 = 15;
    pub const ENCODING: u16 = 16;
    pub const CHAR_STRINGS: u16 = 17;
    pub const PRIVATE: u16 = 18;
    pub const SUBRS: u16 = 19;
    pub const DEFAULT_WIDTH_X: u16 = 20;
    pub const NOMINAL_WIDTH_X: u16 = 21;
    /// CFF2 Private DICT
    pub const VSINDEX: u16 = 22;
    /// CFF2 Private DICT
    pub const BLEND: u16 = 23;
    /// CFF2 Top DICT
    pub const VSTORE: u16 = 24;
    pub const FONT_MATRIX: u16 = 0x0c07;
    pub const ROS: u16 = 0x0c1e;
    pub const CID_COUNT: u16 = 0x0c22;
    pub const FD_ARRAY: u16 = 0x0c24;
    pub const FD_SELECT: u16 = 0x0c25;
    pub const FONT_NAME: u16 = 0x0c26;
}

// ---------------------------------------------------------------------------------------------
// Charstring number encodings (TN #5177 section 3.2)
// ---------------------------------------------------------------------------------------------

#[derive(Copy, Clone, Debug, PartialEq, Eq)]
pub enum NumEnc {
    /// one byte 32..246: -107..107
    One,
    /// two bytes 247..254: +-108..+-1131
    Two,
    /// three bytes: 28 + i16
    Three,
    /// five bytes: 255 + 16.16 fixed
    Five,
}

impl NumEnc {
    pub fn name(self) -> &'static str {
        match self {
            NumEnc::One => "1-byte",
            NumEnc::Two => "2-byte",
            NumEnc::Three => "3-byte",
            NumEnc::Five => "5-byte-fixed",
        }
    }
}

/// All charstring encodings able to represent the integer `v` exactly.
pub fn int_encodings(v: i64) -> Vec<NumEnc> {
    let mut out = Vec::with_capacity(4);
    if (-107..=107).contains(&v) {
        out.push(NumEnc::One);
    }
    if (108..=1131).contains(&v) || (-1131..=-108).contains(&v) {
        out.push(NumEnc::Two);
    }
    if (-32768..=32767).contains(&v) {
        out.push(NumEnc::Three);
        out.push(NumEnc::Five);
    }
    out
}

/// Append the integer `v` in encoding `enc`; false when `enc` cannot represent it.
pub fn cs_int(out: &mut Vec<u8>, v: i64, enc: NumEnc) -> bool {
    match enc {
        NumEnc::One => {
            if !(-107..=107).contains(&v) {
                return false;
            }
            out.push((v + 139) as u8);
        }
        NumEnc::Two => {
            if (108..=1131).contains(&v) {
                let w = v - 108;
                out.push((247 + (w >> 8)) as u8);
                out.push((w & 0xff) as u8);
            } else if (-1131..=-108).contains(&v) {
                let w = -v - 108;
                out.push((251 + (w >> 8)) as u8);
                out.push((w & 0xff) as u8);
            } else {
                return false;
            }
        }
        NumEnc::Three => {
            if !(-32768..=32767).contains(&v) {
                return false;
            }
            out.push(op::SHORTINT);
            out.extend_from_slice(&(v as i16).to_be_bytes());
        }
        NumEnc::Five => {
            if !(-32768..=32767).contains(&v) {
                return false;
            }
            out.push(255);
            out.extend_from_slice(&((v as i32) << 16).to_be_bytes());
        }
    }
    true
}

/// Append a 16.16 fixed number (raw value).
pub fn cs_fixed(out: &mut Vec<u8>, raw: i32) {
    out.push(255);
    out.extend_from_slice(&raw.to_be_bytes());
}

/// Shortest encoding of an integer.
pub fn cs_int_short(out: &mut Vec<u8>, v: i64) -> bool {
    match int_encodings(v).first() {
        Some(&e) => cs_int(out, v, e),
        None => false,
    }
}

// ---------------------------------------------------------------------------------------------
// DICT encodings (TN #5176 section 4)
// ---------------------------------------------------------------------------------------------

/// Shortest DICT integer operand.
pub fn dict_int(out: &mut Vec<u8>, v: i32) {
    if (-107..=107).contains(&v) {
        out.push((v + 139) as u8);
    } else if (108..=1131).contains(&v) {
        let w = v - 108;
        out.push((247 + (w >> 8)) as u8);
        out.push((w & 0xff) as u8);
    } else if (-1131..=-108).contains(&v) {
        let w = -v - 108;
        out.push((251 + (w >> 8)) as u8);
        out.push((w & 0xff) as u8);
    } else if (-32768..=32767).contains(&v) {
        out.push(28);
        out.extend_from_slice(&(v as i16).to_be_bytes());
    } else {
        dict_int5(out, v);
    }
}

/// Five byte DICT integer (29 + i32): fixed size, used for offsets.
pub fn dict_int5(out: &mut Vec<u8>, v: i32) {
    out.push(29);
    out.extend_from_slice(&v.to_be_bytes());
}

/// DICT real operand (30 + packed nibbles) from its decimal text, e.g. "-0.001", "1E-3".
pub fn dict_real(out: &mut Vec<u8>, text: &str) {
    let mut nibbles: Vec<u8> = Vec::new();
    let b = text.as_bytes();
    let mut i = 0;
    while i < b.len() {
        match b[i] {
            b'0'..=b'9' => nibbles.push(b[i] - b'0'),
            b'.' => nibbles.push(0xa),
            b'E' | b'e' => {
                if i + 1 < b.len() && b[i + 1] == b'-' {
                    nibbles.push(0xc);
                    i += 1;
                } else {
                    nibbles.push(0xb);
                }
            }
            b'-' => nibbles.push(0xe),
            _ => {}
        }
        i += 1;
    }
    nibbles.push(0xf);
    if nibbles.len() % 2 == 1 {
        nibbles.push(0xf);
    }
    out.push(30);
    for p in nibbles.chunks(2) {
        out.push((p[0] << 4) | p[1]);
    }
}

pub fn dict_op(out: &mut Vec<u8>, o: u16) {
    if o >= 0x0c00 {
        out.push(12);
        out.push((o & 0xff) as u8);
    } else {
        out.push(o as u8);
    }
}

// ---------------------------------------------------------------------------------------------
// INDEX
// ---------------------------------------------------------------------------------------------

fn min_off_size(last: usize) -> u8 {
    if last <= 0xff {
        1
    } else if last <= 0xffff {
        2
    } else if last <= 0xff_ffff {
        3
    } else {
        4
    }
}

/// INDEX structure. `count_bytes` = 2 (CFF: Card16 count) or 4 (CFF2: uint32 count).
/// `off_size`: None = minimal; Some(n) = at least n (raised when too small).
/// An empty CFF INDEX is the 2 byte count only; an empty CFF2 INDEX the 4 byte count only.
pub fn index(objs: &[Vec<u8>], count_bytes: u8, off_size: Option<u8>) -> Vec<u8> {
    let mut w = W::new();
    if count_bytes == 2 {
        w.u16(objs.len() as u16);
    } else {
        w.u32(objs.len() as u32);
    }
    if objs.is_empty() {
        return w.b;
    }
    let total: usize = objs.iter().map(|o| o.len()).sum();
    let need = min_off_size(total + 1);
    let os = off_size.map_or(need, |o| o.max(need).min(4));
    w.u8(os);
    let mut off = 1usize;
    let put = |w: &mut W, v: usize| match os {
        1 => {
            w.u8(v as u8);
        }
        2 => {
            w.u16(v as u16);
        }
        3 => {
            w.u24(v as u32);
        }
        _ => {
            w.u32(v as u32);
        }
    };
    put(&mut w, off);
    for o in objs {
        off += o.len();
        put(&mut w, off);
    }
    w.b.reserve(total);
    for o in objs {
        w.bytes(o);
    }
    w.b
}

/// Subroutine bias (TN #5176 section 16 / TN #5177 section 4.7).
pub fn subr_bias(count: usize) -> i64 {
    if count < 1240 {
        107
    } else if count < 33900 {
        1131
    } else {
        32768
    }
}

// ---------------------------------------------------------------------------------------------
// Charstring tokens
// ---------------------------------------------------------------------------------------------

/// Effect of a token on the Type 2 argument stack.
#[derive(Clone, Debug, PartialEq)]
pub enum Effect {
    /// a number: pushes one value
    Push,
    /// stack clearing operator; `args` = number of operands it is given
    Clear,
    /// hstem / hstemhm / vstem / vstemhm: clears, declares (args / 2) stems (an odd extra is the width)
    Stems,
    /// hintmask / cntrmask: remaining args are implicit vstems, then `mask_len` mask bytes follow
    Mask { mask_len: usize },
    /// CFF2 blend of n values over k regions: pops n*(k+1)+1, pushes n
    Blend { n: usize, k: usize },
    /// vsindex (pops 1)
    Pop1,
    /// return / (no stack effect)
    None,
    /// endchar
    End,
    /// call of subroutine `index` (unbiased) of the local / global INDEX. The operand is part of
    /// the token: `bytes` = encoded (index - bias) followed by callsubr / callgsubr.
    Call { global: bool, index: usize },
}

#[derive(Clone, Debug)]
pub struct Tok {
    pub bytes: Vec<u8>,
    pub effect: Effect,
}

impl Tok {
    pub fn int(v: i64, enc: NumEnc) -> Option<Tok> {
        let mut b = Vec::with_capacity(5);
        if cs_int(&mut b, v, enc) {
            Some(Tok { bytes: b, effect: Effect::Push })
        } else {
            None
        }
    }
    pub fn fixed(raw: i32) -> Tok {
        let mut b = Vec::with_capacity(5);
        cs_fixed(&mut b, raw);
        Tok { bytes: b, effect: Effect::Push }
    }
    pub fn op(o: u8) -> Tok {
        let effect = match o {
            op::HSTEM | op::VSTEM | op::HSTEMHM | op::VSTEMHM => Effect::Stems,
            op::RETURN => Effect::None,
            op::ENDCHAR => Effect::End,
            op::VSINDEX => Effect::Pop1,
            _ => Effect::Clear,
        };
        Tok { bytes: vec![o], effect }
    }
    pub fn op2(o: u8) -> Tok {
        Tok { bytes: vec![op::ESCAPE, o], effect: Effect::Clear }
    }
    pub fn mask(o: u8, mask: &[u8]) -> Tok {
        let mut b = vec![o];
        b.extend_from_slice(mask);
        Tok { bytes: b, effect: Effect::Mask { mask_len: mask.len() } }
    }
    pub fn blend(n: usize, k: usize) -> Tok {
        Tok { bytes: vec![op::BLEND], effect: Effect::Blend { n, k } }
    }
}

pub fn toks_bytes(toks: &[Tok]) -> Vec<u8> {
    let mut out = Vec::with_capacity(toks.iter().map(|t| t.bytes.len()).sum());
    for t in toks {
        out.extend_from_slice(&t.bytes);
    }
    out
}

/// Stack depth *before* each token and after the last one (len = toks.len() + 1), for a flat
/// (call free) token list starting with an empty stack. None when a token underflows.
pub fn flat_depths(toks: &[Tok]) -> Option<Vec<usize>> {
    let mut d = Vec::with_capacity(toks.len() + 1);
    let mut cur = 0usize;
    for t in toks {
        d.push(cur);
        match &t.effect {
            Effect::Push => cur += 1,
            Effect::Clear | Effect::Stems | Effect::Mask { .. } | Effect::End => cur = 0,
            Effect::Blend { n, k } => {
                let need = n * (k + 1) + 1;
                if cur < need {
                    return None;
                }
                cur = cur - need + n;
            }
            Effect::Pop1 => {
                if cur < 1 {
                    return None;
                }
                cur -= 1;
            }
            Effect::None => {}
            Effect::Call { .. } => {}
        }
    }
    d.push(cur);
    Some(d)
}

// ---------------------------------------------------------------------------------------------
// Subroutine factoring
// ---------------------------------------------------------------------------------------------

/// One subroutine INDEX under construction: `count` slots, the used ones hold token lists, the
/// others are filled with `filler` when serialised.
#[derive(Clone, Debug)]
pub struct SubrSpace {
    pub count: usize,
    pub used: BTreeMap<usize, Vec<Tok>>,
    /// candidate free slots (popped from the back)
    free: Vec<usize>,
}

impl SubrSpace {
    pub fn empty() -> SubrSpace {
        SubrSpace { count: 0, used: BTreeMap::new(), free: Vec::new() }
    }

    /// `count` slots; up to `want` of them are reserved as candidates for real subroutines:
    /// first / last slot, the slots whose biased number sits on a number-encoding boundary
    /// (-108/-107/107/108/-1131/1131/1132) and random ones.
    pub fn new(count: usize, want: usize, rng: &mut Rng) -> SubrSpace {
        let mut cand: Vec<usize> = Vec::new();
        if count > 0 {
            let bias = subr_bias(count);
            let mut interesting: Vec<i64> = vec![0, count as i64 - 1, 1, count as i64 - 2];
            for b in [-1132i64, -1131, -108, -107, 0, 107, 108, 1131, 1132, -32768, 32767] {
                interesting.push(b + bias);
            }
            rng.shuffle(&mut interesting);
            for v in interesting {
                if v >= 0 && (v as usize) < count && !cand.contains(&(v as usize)) && rng.chance(2, 3) {
                    cand.push(v as usize);
                }
            }
            let mut tries = 0;
            while cand.len() < want.min(count) && tries < want * 8 + 16 {
                let v = rng.below(count);
                if !cand.contains(&v) {
                    cand.push(v);
                }
                tries += 1;
            }
            cand.truncate(want.min(count));
            rng.shuffle(&mut cand);
        }
        SubrSpace { count, used: BTreeMap::new(), free: cand }
    }

    /// `count` slots of which exactly `slots` (in pop order: last first) may hold real subroutines.
    pub fn with_candidates(count: usize, slots: Vec<usize>) -> SubrSpace {
        SubrSpace { count, used: BTreeMap::new(), free: slots.into_iter().filter(|s| *s < count).collect() }
    }

    pub fn bias(&self) -> i64 {
        subr_bias(self.count)
    }
    pub fn has_free(&self) -> bool {
        !self.free.is_empty()
    }
    pub fn alloc(&mut self, body: Vec<Tok>) -> Option<usize> {
        let i = self.free.pop()?;
        self.used.insert(i, body);
        Some(i)
    }

    /// Serialise the slots: used slots as they are, unused ones through `filler(slot)`.
    pub fn to_vecs(&self, filler: &dyn Fn(usize) -> Vec<u8>) -> Vec<Vec<u8>> {
        (0..self.count)
            .map(|i| match self.used.get(&i) {
                Some(t) => toks_bytes(t),
                None => filler(i),
            })
            .collect()
    }
}

/// Token for calling subroutine `index` of a space with `count` entries; the operand encoding is
/// picked at random among those able to hold (index - bias).
pub fn call_tok(index: usize, count: usize, global: bool, rng: &mut Rng) -> Option<(Tok, NumEnc)> {
    let operand = index as i64 - subr_bias(count);
    let encs = int_encodings(operand);
    if encs.is_empty() {
        return None;
    }
    // a subroutine number is an integer: interpreters that keep the operand type refuse the 16.16
    // form, so only the integer encodings belong to the unambiguous core
    let e: Vec<NumEnc> = encs.iter().copied().filter(|e| *e != NumEnc::Five).collect();
    if e.is_empty() {
        return None;
    }
    let enc = *rng.pick(&e);
    let mut b = Vec::with_capacity(6);
    if !cs_int(&mut b, operand, enc) {
        return None;
    }
    b.push(if global { op::CALLGSUBR } else { op::CALLSUBR });
    Some((Tok { bytes: b, effect: Effect::Call { global, index } }, enc))
}

#[derive(Clone, Debug)]
pub struct FactorCfg {
    /// argument stack limit (48 for CFF, 513 for CFF2): a call needs one free slot for its operand
    pub stack_limit: usize,
    /// deepest subroutine level (Type 2: 10)
    pub max_depth: usize,
    /// CFF: subroutines end with `return`; CFF2: they just end
    pub emit_return: bool,
    /// drive one chain of calls as deep as possible
    pub deep: bool,
    /// per range probability (percent) of cutting at all
    pub cut_pct: u32,
}

#[derive(Clone, Debug, Default)]
pub struct FactorStats {
    pub local_calls: u32,
    pub global_calls: u32,
    pub max_depth: usize,
    pub endchar_in_subr: bool,
    pub operand_encs: Vec<NumEnc>,
}

/// Cut the flat token list `toks` (with `depths` = stack depth before each token, see
/// `flat_depths`) at random token boundaries into nested local / global subroutines. Returns the
/// tokens of the top-level charstring; the subroutine bodies are stored in the spaces.
pub fn factor(
    toks: &[Tok],
    depths: &[usize],
    local: &mut SubrSpace,
    global: &mut SubrSpace,
    cfg: &FactorCfg,
    rng: &mut Rng,
    stats: &mut FactorStats,
) -> Vec<Tok> {
    factor_range(toks, depths, 0, toks.len(), 0, local, global, cfg, rng, stats)
}

#[allow(clippy::too_many_arguments)]
fn factor_range(
    toks: &[Tok],
    depths: &[usize],
    a: usize,
    b: usize,
    level: usize,
    local: &mut SubrSpace,
    global: &mut SubrSpace,
    cfg: &FactorCfg,
    rng: &mut Rng,
    stats: &mut FactorStats,
) -> Vec<Tok> {
    let n = b - a;
    let flat = |out: &mut Vec<Tok>, s: usize, e: usize| out.extend_from_slice(&toks[s..e]);
    let mut out: Vec<Tok> = Vec::with_capacity(n);
    let can = level < cfg.max_depth && n >= 1 && (local.has_free() || global.has_free());
    let cut = can && (cfg.deep || rng.chance(cfg.cut_pct, 100));
    if !cut {
        flat(&mut out, a, b);
        return out;
    }
    // pick the sub-ranges
    let mut ranges: Vec<(usize, usize)> = Vec::new();
    if cfg.deep {
        // one range covering (almost) everything so that the chain can go on
        let s = a + if n > 2 { rng.below(2) } else { 0 };
        let e = if n > 3 && rng.chance(1, 3) { b - 1 } else { b };
        if s < e {
            ranges.push((s, e));
        }
    } else {
        let want = 1 + rng.below(3);
        let mut pts: Vec<usize> = (0..2 * want).map(|_| a + rng.below(n + 1)).collect();
        pts.sort();
        for p in pts.chunks(2) {
            if p[0] < p[1] {
                ranges.push((p[0], p[1]));
            }
        }
    }
    let mut pos = a;
    for (s, e) in ranges {
        if s < pos {
            continue;
        }
        // the operand of the call needs a free stack slot
        if depths[s] + 1 > cfg.stack_limit {
            continue;
        }
        let use_global = match (local.has_free(), global.has_free()) {
            (true, true) => rng.bool(),
            (false, true) => true,
            (true, false) => false,
            (false, false) => break,
        };
        flat(&mut out, pos, s);
        pos = s;
        let mut body = factor_range(toks, depths, s, e, level + 1, local, global, cfg, rng, stats);
        let space = if use_global { &mut *global } else { &mut *local };
        let count = space.count;
        let call = if space.has_free() { space.free.last().and_then(|&idx| call_tok(idx, count, use_global, rng)) } else { None };
        let (call, enc) = match call {
            Some(c) => c,
            None => {
                // the nested levels used up the free slots: keep the range inline
                out.extend(body);
                pos = e;
                continue;
            }
        };
        let ends_with_endchar = matches!(toks[e - 1].effect, Effect::End);
        if ends_with_endchar {
            stats.endchar_in_subr = true;
        } else if cfg.emit_return {
            body.push(Tok::op(op::RETURN));
        }
        if space.alloc(body).is_none() {
            break;
        }
        out.push(call);
        stats.operand_encs.push(enc);
        if use_global {
            stats.global_calls += 1;
        } else {
            stats.local_calls += 1;
        }
        stats.max_depth = stats.max_depth.max(level + 1);
        pos = e;
    }
    flat(&mut out, pos, b);
    out
}

// ---------------------------------------------------------------------------------------------
// Standard encoding (TN #5176 appendix B): code -> SID
// ---------------------------------------------------------------------------------------------

/// SID of the glyph at `code` in the Adobe Standard Encoding (0 = not encoded).
pub fn standard_encoding_sid(code: u8) -> u16 {
    let c = code as u16;
    match code {
        32..=126 => c - 31,   // space .. asciitilde  -> 1..95
        161..=175 => c - 65,  // exclamdown .. fl     -> 96..110
        177..=180 => c - 66,  // endash .. periodcentered -> 111..114
        182..=189 => c - 67,  // paragraph .. perthousand -> 115..122
        191 => 123,           // questiondown
        193..=200 => c - 69,  // grave .. dieresis    -> 124..131
        202..=203 => c - 70,  // ring, cedilla        -> 132..133
        205..=208 => c - 71,  // hungarumlaut, ogonek, caron, emdash -> 134..137
        225 => 138,           // AE
        227 => 139,           // ordfeminine
        232..=235 => c - 92,  // Lslash, Oslash, OE, ordmasculine -> 140..143
        241 => 144,           // ae
        245 => 145,           // dotlessi
        248..=251 => c - 102, // lslash, oslash, oe, germandbls -> 146..149
        _ => 0,
    }
}

/// Number of predefined standard strings (SIDs 0..=390); custom strings start at SID 391.
pub const N_STD_STRINGS: u16 = 391;
/// Last SID of the predefined ISOAdobe charset (charset id 0): glyph id == SID.
pub const ISO_ADOBE_LAST_SID: u16 = 228;

// ---------------------------------------------------------------------------------------------
// CFF (version 1)
// ---------------------------------------------------------------------------------------------

#[derive(Clone, Debug, Default)]
pub struct Private {
    /// None: no Subrs operator in the Private DICT
    pub local_subrs: Option<Vec<Vec<u8>>>,
    pub default_width_x: Option<i32>,
    pub nominal_width_x: Option<i32>,
    /// extra, already encoded DICT entries (e.g. BlueValues), placed first
    pub extra: Vec<u8>,
}

#[derive(Clone, Debug)]
pub enum Charset {
    /// predefined charset id 0 (ISOAdobe): gid == SID; `explicit_op`: write `0 charset` or rely
    /// on the default
    IsoAdobe { explicit_op: bool },
    /// custom charset in format 0 / 1 / 2; `ids` = SID (or CID) of glyphs 1..n
    Custom { format: u8, ids: Vec<u16> },
}

#[derive(Clone, Debug)]
pub enum CffKind {
    NameKeyed {
        private: Private,
        charset: Charset,
    },
    CidKeyed {
        /// one Private DICT (+ local subrs) per Font DICT
        fds: Vec<Private>,
        /// Font DICT index of every glyph
        fd_select: Vec<u8>,
        /// 0 or 3
        fdselect_format: u8,
        /// charset holds CIDs; identity (cid == gid) in this format
        charset_format: u8,
    },
}

#[derive(Clone, Debug)]
pub struct CffFont {
    pub name: Vec<u8>,
    /// charstrings, glyph 0 = .notdef
    pub glyphs: Vec<Vec<u8>>,
    pub global_subrs: Vec<Vec<u8>>,
    pub kind: CffKind,
    /// custom strings (SID 391 + i); ROS strings of CID fonts are appended automatically
    pub strings: Vec<Vec<u8>>,
    /// offSize used for the INDEXes (None = minimal)
    pub off_size: Option<u8>,
    /// write a FontBBox entry first in the Top DICT of name-keyed fonts
    pub with_bbox: bool,
}

fn charset_bytes(format: u8, ids: &[u16]) -> Vec<u8> {
    let mut w = W::new();
    match format {
        1 | 2 => {
            w.u8(format);
            let max_left: usize = if format == 1 { 255 } else { 65535 };
            let mut i = 0;
            while i < ids.len() {
                let first = ids[i];
                let mut left = 0usize;
                while i + left + 1 < ids.len()
                    && left < max_left
                    && ids[i + left + 1] as usize == first as usize + left + 1
                {
                    left += 1;
                }
                w.u16(first);
                if format == 1 {
                    w.u8(left as u8);
                } else {
                    w.u16(left as u16);
                }
                i += left + 1;
            }
        }
        _ => {
            w.u8(0);
            for &s in ids {
                w.u16(s);
            }
        }
    }
    w.b
}

fn fdselect_bytes(format: u8, fds: &[u8]) -> Vec<u8> {
    let mut w = W::new();
    if format == 3 {
        w.u8(3);
        let mut ranges: Vec<(u16, u8)> = Vec::new();
        for (g, &fd) in fds.iter().enumerate() {
            if ranges.last().map_or(true, |r| r.1 != fd) {
                ranges.push((g as u16, fd));
            }
        }
        w.u16(ranges.len() as u16);
        for (first, fd) in ranges {
            w.u16(first).u8(fd);
        }
        w.u16(fds.len() as u16); // sentinel
    } else {
        w.u8(0);
        w.bytes(fds);
    }
    w.b
}

/// Private DICT bytes; the local Subr INDEX (if any) is expected directly after the DICT.
fn private_bytes_v1(p: &Private) -> Vec<u8> {
    let mut d = p.extra.clone();
    if let Some(v) = p.default_width_x {
        dict_int(&mut d, v);
        dict_op(&mut d, dop::DEFAULT_WIDTH_X);
    }
    if let Some(v) = p.nominal_width_x {
        dict_int(&mut d, v);
        dict_op(&mut d, dop::NOMINAL_WIDTH_X);
    }
    if p.local_subrs.is_some() {
        // offset of the Subr INDEX relative to the start of the Private DICT = size of the DICT
        let size = d.len() + 5 + 1;
        dict_int5(&mut d, size as i32);
        dict_op(&mut d, dop::SUBRS);
    }
    d
}

impl CffFont {
    pub fn build(&self) -> Vec<u8> {
        let n_glyphs = self.glyphs.len();
        let os = self.off_size;
        let name_index = index(&[self.name.clone()], 2, os);
        let gsubr_index = index(&self.global_subrs, 2, os);
        let charstrings = index(&self.glyphs, 2, os);
        let mut strings = self.strings.clone();
        let is_cid = matches!(self.kind, CffKind::CidKeyed { .. });
        let (sid_registry, sid_ordering) = if is_cid {
            let r = N_STD_STRINGS as usize + strings.len();
            strings.push(b"Adobe".to_vec());
            strings.push(b"Identity".to_vec());
            (r as i32, r as i32 + 1)
        } else {
            (0, 0)
        };
        let string_index = index(&strings, 2, os);

        // charset / fdselect bodies
        let (charset_body, charset_predefined): (Vec<u8>, Option<bool>) = match &self.kind {
            CffKind::NameKeyed { charset: Charset::IsoAdobe { explicit_op }, .. } => (Vec::new(), Some(*explicit_op)),
            CffKind::NameKeyed { charset: Charset::Custom { format, ids }, .. } => (charset_bytes(*format, ids), None),
            CffKind::CidKeyed { charset_format, .. } => {
                let ids: Vec<u16> = (1..n_glyphs as u16).collect();
                (charset_bytes(*charset_format, &ids), None)
            }
        };
        let fdselect_body = match &self.kind {
            CffKind::CidKeyed { fd_select, fdselect_format, .. } => fdselect_bytes(*fdselect_format, fd_select),
            _ => Vec::new(),
        };
        let privates: Vec<&Private> = match &self.kind {
            CffKind::NameKeyed { private, .. } => vec![private],
            CffKind::CidKeyed { fds, .. } => fds.iter().collect(),
        };
        let private_dicts: Vec<Vec<u8>> = privates.iter().map(|p| private_bytes_v1(p)).collect();
        let private_subrs: Vec<Vec<u8>> = privates
            .iter()
            .map(|p| p.local_subrs.as_ref().map_or(Vec::new(), |s| index(s, 2, os)))
            .collect();

        // Top DICT with all offsets as 5 byte integers: its size does not depend on the offsets
        struct Offs {
            charset: i32,
            charstrings: i32,
            private: (i32, i32),
            fdarray: i32,
            fdselect: i32,
        }
        let top = |o: &Offs| -> Vec<u8> {
            let mut d = Vec::new();
            if is_cid {
                dict_int(&mut d, sid_registry);
                dict_int(&mut d, sid_ordering);
                dict_int(&mut d, 0);
                dict_op(&mut d, dop::ROS);
                dict_int(&mut d, n_glyphs as i32);
                dict_op(&mut d, dop::CID_COUNT);
            } else if self.with_bbox {
                for v in [-100, -200, 1000, 900] {
                    dict_int(&mut d, v);
                }
                dict_op(&mut d, dop::FONT_BBOX);
            }
            match charset_predefined {
                Some(true) => {
                    dict_int(&mut d, 0);
                    dict_op(&mut d, dop::CHARSET);
                }
                Some(false) => {}
                None => {
                    dict_int5(&mut d, o.charset);
                    dict_op(&mut d, dop::CHARSET);
                }
            }
            dict_int5(&mut d, o.charstrings);
            dict_op(&mut d, dop::CHAR_STRINGS);
            if is_cid {
                dict_int5(&mut d, o.fdarray);
                dict_op(&mut d, dop::FD_ARRAY);
                dict_int5(&mut d, o.fdselect);
                dict_op(&mut d, dop::FD_SELECT);
            } else {
                dict_int5(&mut d, o.private.0);
                dict_int5(&mut d, o.private.1);
                dict_op(&mut d, dop::PRIVATE);
            }
            d
        };
        let zero = Offs { charset: 0, charstrings: 0, private: (0, 0), fdarray: 0, fdselect: 0 };
        let top_index_len = index(&[top(&zero)], 2, os).len();
        // Font DICTs (CID): fixed size as well
        let font_dict = |size: i32, off: i32| -> Vec<u8> {
            let mut d = Vec::new();
            dict_int5(&mut d, size);
            dict_int5(&mut d, off);
            dict_op(&mut d, dop::PRIVATE);
            d
        };
        let fdarray_len = if is_cid {
            let fds: Vec<Vec<u8>> = private_dicts.iter().map(|_| font_dict(0, 0)).collect();
            index(&fds, 2, os).len()
        } else {
            0
        };

        // layout
        let mut at = 4 + name_index.len() + top_index_len + string_index.len() + gsubr_index.len();
        let mut o = Offs { charset: 0, charstrings: 0, private: (0, 0), fdarray: 0, fdselect: 0 };
        o.charset = at as i32;
        at += charset_body.len();
        o.fdselect = at as i32;
        at += fdselect_body.len();
        o.charstrings = at as i32;
        at += charstrings.len();
        o.fdarray = at as i32;
        at += fdarray_len;
        let mut private_at: Vec<(i32, i32)> = Vec::new();
        for (d, s) in private_dicts.iter().zip(private_subrs.iter()) {
            private_at.push((d.len() as i32, at as i32));
            at += d.len() + s.len();
        }
        if !is_cid {
            o.private = private_at[0];
        }

        let mut w = W::new();
        w.u8(1).u8(0).u8(4).u8(os.unwrap_or(4).clamp(1, 4));
        w.bytes(&name_index);
        w.bytes(&index(&[top(&o)], 2, os));
        w.bytes(&string_index);
        w.bytes(&gsubr_index);
        w.bytes(&charset_body);
        w.bytes(&fdselect_body);
        w.bytes(&charstrings);
        if is_cid {
            let fds: Vec<Vec<u8>> = private_at.iter().map(|&(size, off)| font_dict(size, off)).collect();
            w.bytes(&index(&fds, 2, os));
        }
        for (d, s) in private_dicts.iter().zip(private_subrs.iter()) {
            w.bytes(d);
            w.bytes(s);
        }
        debug_assert_eq!(w.len(), at);
        w.b
    }
}

// ---------------------------------------------------------------------------------------------
// CFF2
// ---------------------------------------------------------------------------------------------

/// One variation region: (start, peak, end) per axis as raw F2Dot14.
#[derive(Clone, Debug)]
pub struct VarRegion {
    pub axes: Vec<(i16, i16, i16)>,
}

/// ItemVariationData subtable: for CFF2 only its region list matters (no delta sets; the deltas
/// live in the charstrings).
#[derive(Clone, Debug)]
pub struct VarData {
    pub region_indexes: Vec<u16>,
}

#[derive(Clone, Debug)]
pub struct VStore {
    pub axis_count: u16,
    pub regions: Vec<VarRegion>,
    pub data: Vec<VarData>,
}

impl VStore {
    /// ItemVariationStore bytes (without the CFF2 uint16 length prefix).
    pub fn item_variation_store(&self) -> Vec<u8> {
        let mut w = W::new();
        let header = 2 + 4 + 2 + 4 * self.data.len();
        let region_list_len = 4 + self.regions.len() * self.axis_count as usize * 6;
        w.u16(1);
        w.u32(header as u32);
        w.u16(self.data.len() as u16);
        let mut at = header + region_list_len;
        for d in &self.data {
            w.u32(at as u32);
            at += 6 + 2 * d.region_indexes.len();
        }
        w.u16(self.axis_count);
        w.u16(self.regions.len() as u16);
        for r in &self.regions {
            for a in 0..self.axis_count as usize {
                let (s, p, e) = r.axes.get(a).copied().unwrap_or((0, 0, 0));
                w.i16(s).i16(p).i16(e);
            }
        }
        for d in &self.data {
            w.u16(0); // itemCount
            w.u16(0); // wordDeltaCount
            w.u16(d.region_indexes.len() as u16);
            for &r in &d.region_indexes {
                w.u16(r);
            }
        }
        w.b
    }

    /// Reference scalar of region `r` at the normalized coordinates `tuple` (raw F2Dot14): product
    /// over the axes of the tent function of the OpenType variations overview.
    pub fn region_scalar(&self, r: usize, tuple: &[i16]) -> f64 {
        let mut s = 1.0f64;
        for (a, &(start, peak, end)) in self.regions[r].axes.iter().enumerate() {
            let c = tuple.get(a).copied().unwrap_or(0) as i32;
            let (start, peak, end) = (start as i32, peak as i32, end as i32);
            let f = if start > peak || peak > end {
                1.0
            } else if start < 0 && end > 0 && peak != 0 {
                1.0
            } else if peak == 0 {
                1.0
            } else if c < start || c > end {
                0.0
            } else if c == peak {
                1.0
            } else if c < peak {
                (c - start) as f64 / (peak - start) as f64
            } else {
                (end - c) as f64 / (end - peak) as f64
            };
            s *= f;
        }
        s
    }

    /// Scalars of the regions of ItemVariationData `vsindex`, in blend operand order.
    pub fn scalars(&self, vsindex: usize, tuple: &[i16]) -> Vec<f64> {
        self.data[vsindex].region_indexes.iter().map(|&r| self.region_scalar(r as usize, tuple)).collect()
    }
}

#[derive(Clone, Debug, Default)]
pub struct Cff2Private {
    pub local_subrs: Option<Vec<Vec<u8>>>,
    /// `vsindex` entry of the Private DICT (default 0 when absent)
    pub vsindex: Option<u16>,
    /// extra, already encoded DICT entries (may use the DICT `blend` operator), placed after vsindex
    pub extra: Vec<u8>,
}

#[derive(Clone, Debug)]
pub struct Cff2Font {
    pub glyphs: Vec<Vec<u8>>,
    pub global_subrs: Vec<Vec<u8>>,
    pub fds: Vec<Cff2Private>,
    /// (format 0 | 3, Font DICT index per glyph); required when there is more than one Font DICT
    pub fd_select: Option<(u8, Vec<u8>)>,
    pub vstore: Option<VStore>,
    pub off_size: Option<u8>,
    pub with_font_matrix: bool,
}

fn private_bytes_v2(p: &Cff2Private) -> Vec<u8> {
    let mut d = Vec::new();
    if let Some(v) = p.vsindex {
        dict_int(&mut d, v as i32);
        dict_op(&mut d, dop::VSINDEX);
    }
    d.extend_from_slice(&p.extra);
    if p.local_subrs.is_some() {
        let size = d.len() + 5 + 1;
        dict_int5(&mut d, size as i32);
        dict_op(&mut d, dop::SUBRS);
    }
    d
}

impl Cff2Font {
    pub fn build(&self) -> Vec<u8> {
        let os = self.off_size;
        let gsubr_index = index(&self.global_subrs, 4, os);
        let charstrings = index(&self.glyphs, 4, os);
        let fdselect_body = self.fd_select.as_ref().map_or(Vec::new(), |(f, v)| fdselect_bytes(*f, v));
        let vstore_body = self.vstore.as_ref().map_or(Vec::new(), |v| {
            let ivs = v.item_variation_store();
            let mut w = W::new();
            w.u16(ivs.len() as u16);
            w.bytes(&ivs);
            w.b
        });
        let private_dicts: Vec<Vec<u8>> = self.fds.iter().map(private_bytes_v2).collect();
        let private_subrs: Vec<Vec<u8>> =
            self.fds.iter().map(|p| p.local_subrs.as_ref().map_or(Vec::new(), |s| index(s, 4, os))).collect();

        let has_fdselect = self.fd_select.is_some();
        let has_vstore = self.vstore.is_some();
        let top = |charstrings: i32, fdarray: i32, fdselect: i32, vstore: i32| -> Vec<u8> {
            let mut d = Vec::new();
            if self.with_font_matrix {
                for t in ["0.001", "0", "0", "0.001", "0", "0"] {
                    dict_real(&mut d, t);
                }
                dict_op(&mut d, dop::FONT_MATRIX);
            }
            dict_int5(&mut d, charstrings);
            dict_op(&mut d, dop::CHAR_STRINGS);
            dict_int5(&mut d, fdarray);
            dict_op(&mut d, dop::FD_ARRAY);
            if has_fdselect {
                dict_int5(&mut d, fdselect);
                dict_op(&mut d, dop::FD_SELECT);
            }
            if has_vstore {
                dict_int5(&mut d, vstore);
                dict_op(&mut d, dop::VSTORE);
            }
            d
        };
        let top_len = top(0, 0, 0, 0).len();
        let font_dict = |size: i32, off: i32| -> Vec<u8> {
            let mut d = Vec::new();
            dict_int5(&mut d, size);
            dict_int5(&mut d, off);
            dict_op(&mut d, dop::PRIVATE);
            d
        };
        let fdarray_len = {
            let fds: Vec<Vec<u8>> = private_dicts.iter().map(|_| font_dict(0, 0)).collect();
            index(&fds, 4, os).len()
        };
        let mut at = 5 + top_len + gsubr_index.len();
        let o_charstrings = at as i32;
        at += charstrings.len();
        let o_fdselect = at as i32;
        at += fdselect_body.len();
        let o_vstore = at as i32;
        at += vstore_body.len();
        let o_fdarray = at as i32;
        at += fdarray_len;
        let mut private_at = Vec::new();
        for (d, s) in private_dicts.iter().zip(private_subrs.iter()) {
            private_at.push((d.len() as i32, at as i32));
            at += d.len() + s.len();
        }
        let mut w = W::new();
        w.u8(2).u8(0).u8(5).u16(top_len as u16);
        w.bytes(&top(o_charstrings, o_fdarray, o_fdselect, o_vstore));
        w.bytes(&gsubr_index);
        w.bytes(&charstrings);
        w.bytes(&fdselect_body);
        w.bytes(&vstore_body);
        let fds: Vec<Vec<u8>> = private_at.iter().map(|&(size, off)| font_dict(size, off)).collect();
        w.bytes(&index(&fds, 4, os));
        for (d, s) in private_dicts.iter().zip(private_subrs.iter()) {
            w.bytes(d);
            w.bytes(s);
        }
        debug_assert_eq!(w.len(), at);
        w.b
    }
}

/// Minimal `fvar` table with `axis_count` axes (-1 / 0 / +1 user ranges), no instances.
pub fn fvar_table(axis_count: u16) -> Vec<u8> {
    let mut w = W::new();
    w.u16(1).u16(0).u16(16).u16(2).u16(axis_count).u16(20).u16(0).u16(axis_count * 4 + 4);
    for a in 0..axis_count {
        w.u32(u32::from_be_bytes([b'a', b'x', b'0' + (a / 10) as u8, b'0' + (a % 10) as u8]));
        w.i32(-(1 << 16)).i32(0).i32(1 << 16);
        w.u16(0).u16(256 + a);
    }
    w.b
}

pub fn selftest() -> bool {
    let mut ok = true;
    let mut b = Vec::new();
    ok &= cs_int(&mut b, 0, NumEnc::One) && b == [139];
    b.clear();
    ok &= cs_int(&mut b, 108, NumEnc::Two) && b == [247, 0];
    b.clear();
    ok &= cs_int(&mut b, 1131, NumEnc::Two) && b == [250, 255];
    b.clear();
    ok &= cs_int(&mut b, -108, NumEnc::Two) && b == [251, 0];
    b.clear();
    ok &= cs_int(&mut b, -1131, NumEnc::Two) && b == [254, 255];
    b.clear();
    ok &= cs_int(&mut b, -2, NumEnc::Five) && b == [255, 0xff, 0xfe, 0, 0];
    ok &= !cs_int(&mut b, 108, NumEnc::One);
    ok &= index(&[], 2, None) == [0, 0];
    ok &= index(&[vec![7, 8], vec![], vec![9]], 2, None) == [0, 3, 1, 1, 3, 3, 4, 7, 8, 9];
    ok &= standard_encoding_sid(65) == 34 && standard_encoding_sid(194) == 125 && standard_encoding_sid(245) == 145;
    ok &= subr_bias(1239) == 107 && subr_bias(1240) == 1131 && subr_bias(33899) == 1131 && subr_bias(33900) == 32768;
    let mut r = Vec::new();
    dict_real(&mut r, "-2.25");
    ok &= r == [30, 0xe2, 0xa2, 0x5f];
    ok
}
