//! C10 — OpenType, collection and WOFF containers yield exactly the stored tables.

use super::Prop;
use crate::rt::*;
use crate::sfnt::woff::{build_woff, WoffTable};
use crate::sfnt::{self, tag};
use allsorts::binary::read::ReadScope;
use allsorts::font_data::FontData;
use allsorts::tables::{FontTableProvider, OpenTypeFont, SfntVersion};
use allsorts::woff::WoffFont;

pub struct C10 {}

impl C10 {
    pub fn new(_cx: &mut Ctx) -> C10 {
        C10 {}
    }
}

/// End of the last byte any directory or table of an sfnt / TTC file occupies (the file may legally
/// stop there: padding after the physically last table is not something a reader may rely on).
fn used_extent(b: &[u8]) -> usize {
    let be16 = |o: usize| if o + 2 <= b.len() { u16::from_be_bytes([b[o], b[o + 1]]) as usize } else { 0 };
    let be32 = |o: usize| if o + 4 <= b.len() { u32::from_be_bytes([b[o], b[o + 1], b[o + 2], b[o + 3]]) as usize } else { 0 };
    let mut end = 0usize;
    let mut dir = |at: usize, end: &mut usize| {
        let n = be16(at + 4);
        *end = (*end).max(at + 12 + 16 * n);
        for k in 0..n {
            let o = at + 12 + 16 * k;
            let (off, len) = (be32(o + 8), be32(o + 12));
            if len > 0 {
                *end = (*end).max(off + len);
            }
        }
    };
    if b.len() >= 12 && &b[0..4] == b"ttcf" {
        let n = be32(8);
        end = 12 + 4 * n + if be32(4) >= 0x0002_0000 { 12 } else { 0 };
        for k in 0..n {
            dir(be32(12 + 4 * k), &mut end);
        }
    } else {
        dir(0, &mut end);
    }
    end.min(b.len())
}

/// One container in three ends with the last byte of its physically last table (no trailing pad).
fn maybe_strip_trailing_pad(cx: &mut Ctx, rng: &mut Rng, bytes: &mut Vec<u8>) {
    if rng.chance(1, 3) {
        let e = used_extent(bytes);
        if e < bytes.len() && bytes[e..].iter().all(|x| *x == 0) && bytes.len() - e < 4 {
            bytes.truncate(e);
            cx.class("file-ends-with-unpadded-table");
        }
    }
}

fn gen_tag(rng: &mut Rng, used: &mut Vec<u32>) -> u32 {
    loop {
        let t = match rng.below(6) {
            0 => {
                let names: [&str; 12] = ["head", "glyf", "loca", "cmap", "hmtx", "CFF ", "OS/2", "name", "GSUB", "post", "maxp", "hhea"];
                tag(names[rng.below(12)])
            }
            1 => rng.u32(),
            2 => u32::from_be_bytes([b' ' + rng.below(95) as u8, b' ' + rng.below(95) as u8, b' ' + rng.below(95) as u8, b' ' + rng.below(95) as u8]),
            3 => *rng.pick(&[0u32, 1, 0xFFFF_FFFF, 0x8000_0000, 0x7FFF_FFFF]),
            _ => u32::from_be_bytes([b'a' + rng.below(26) as u8, b'a' + rng.below(26) as u8, b'a' + rng.below(26) as u8, b'0' + rng.below(10) as u8]),
        };
        if !used.contains(&t) {
            used.push(t);
            return t;
        }
    }
}

fn gen_data(rng: &mut Rng) -> Vec<u8> {
    let len = match rng.below(10) {
        0 => 0,
        1 => 1,
        2 => 1 + rng.below(7),
        3 => 65_536 + rng.below(10_000),
        _ => rng.below(600),
    };
    match rng.below(4) {
        0 => vec![rng.u8(); len],                          // highly compressible
        1 => (0..len).map(|i| (i % 7) as u8).collect(),    // compressible
        _ => rng.bytes(len),                               // incompressible
    }
}

struct Expect {
    version: u32,
    tables: Vec<(u32, Vec<u8>)>,
}

fn check_provider<P: FontTableProvider + SfntVersion>(cx: &mut Ctx, rng: &mut Rng, p: &P, exp: &Expect, via: &str, witness: &dyn Fn() -> J) -> bool {
    let fail = |cx: &mut Ctx, rule: &str, what: String| {
        cx.violation(rule, &format!("{}:{}", via, rule), J::obj(vec![("what", J::s(what)), ("container", witness())]));
    };
    if p.sfnt_version() != exp.version {
        fail(cx, "flavour", format!("sfnt_version {:#x} expected {:#x}", p.sfnt_version(), exp.version));
        return false;
    }
    for (t, d) in &exp.tables {
        if !p.has_table(*t) {
            fail(cx, "has-table", format!("has_table({}) = false", sfnt::tag_str(*t)));
            return false;
        }
        match p.table_data(*t) {
            Ok(Some(got)) => {
                if got.as_ref() != d.as_slice() {
                    let pos = got.iter().zip(d.iter()).position(|(a, b)| a != b).unwrap_or(got.len().min(d.len()));
                    fail(cx, "table-bytes", format!("table {} ({:#x}): {} bytes returned, {} stored, first difference at {}", sfnt::tag_str(*t), t, got.len(), d.len(), pos));
                    return false;
                }
            }
            other => {
                fail(cx, "table-missing", format!("table_data({}) = {:?}", sfnt::tag_str(*t), other.map(|o| o.map(|c| c.len()))));
                return false;
            }
        }
        match p.read_table_data(*t) {
            Ok(got) if got.as_ref() == d.as_slice() => {}
            _ => {
                fail(cx, "table-bytes", format!("read_table_data({}) differs", sfnt::tag_str(*t)));
                return false;
            }
        }
    }
    // tags as a multiset
    match p.table_tags() {
        Some(mut tags) => {
            let mut want: Vec<u32> = exp.tables.iter().map(|t| t.0).collect();
            tags.sort();
            want.sort();
            if tags != want {
                fail(cx, "table-tags", format!("table_tags() = {:x?} expected {:x?}", tags, want));
                return false;
            }
        }
        None => {
            fail(cx, "table-tags", "table_tags() = None".into());
            return false;
        }
    }
    // absent tags
    for _ in 0..4 {
        let t = match rng.below(3) {
            0 => rng.u32(),
            1 => exp.tables.first().map_or(7, |x| x.0 ^ 1),
            _ => exp.tables.last().map_or(9, |x| x.0.wrapping_add(1)),
        };
        if exp.tables.iter().any(|x| x.0 == t) {
            continue;
        }
        if p.has_table(t) || !matches!(p.table_data(t), Ok(None)) || p.read_table_data(t).is_ok() {
            fail(cx, "absent-table", format!("absent tag {:#x} reported as present", t));
            return false;
        }
    }
    true
}

impl Prop for C10 {
    fn case(&mut self, cx: &mut Ctx, rng: &mut Rng) {
        let version = *rng.pick(&[0x0001_0000u32, 0x4F54_544F, 0x7472_7565]);
        let kind = rng.below(3);
        let ntables = if rng.chance(1, 10) { 0 } else { 1 + rng.small(39) };
        let mut used = Vec::new();
        let tables: Vec<(u32, Vec<u8>)> = (0..ntables).map(|_| (gen_tag(rng, &mut used), gen_data(rng))).collect();
        match kind {
            0 => {
                // bare sfnt, random physical order
                let f = sfnt::Font { version, tables: tables.clone() };
                let mut phys: Vec<usize> = (0..ntables).collect();
                rng.shuffle(&mut phys);
                let sort_dir = !rng.chance(1, 5);
                let mut bytes = f.build_opts(&phys, sort_dir, false);
                maybe_strip_trailing_pad(cx, rng, &mut bytes);
                let exp = Expect { version, tables };
                let wit = || J::obj(vec![("kind", J::s("sfnt")), ("bytes_head", J::hex(&bytes[..bytes.len().min(12 + 16 * 8)])), ("len", J::U(bytes.len() as u64))]);
                let fd = match ReadScope::new(&bytes).read::<FontData<'_>>() {
                    Ok(f) => f,
                    Err(e) => {
                        cx.violation("rejected", "sfnt:rejected", J::obj(vec![("error", J::s(format!("{:?}", e))), ("container", wit())]));
                        return;
                    }
                };
                let mut ok = true;
                match fd.table_provider(0) {
                    Ok(p) => ok &= check_provider(cx, rng, &p, &exp, "sfnt/FontData", &wit),
                    Err(e) => {
                        cx.violation("rejected", "sfnt:provider-rejected", J::s(format!("{:?}", e)));
                        return;
                    }
                }
                if let Ok(otf) = ReadScope::new(&bytes).read::<OpenTypeFont<'_>>() {
                    // a single font ignores the index by design
                    for idx in [0usize, 1, 7] {
                        if let Ok(p) = otf.table_provider(idx) {
                            ok &= check_provider(cx, rng, &p, &exp, "sfnt/OpenTypeFont", &wit);
                        }
                    }
                }
                if ok {
                    cx.class("sfnt");
                    cx.class(if sort_dir { "dir:sorted" } else { "dir:unsorted" });
                }
                if ntables > 0 {
                    cx.nontrivial(hash_bytes(&bytes));
                }
            }
            1 => {
                // TTC with shared tables
                let nmembers = 1 + rng.below(5);
                let pool = tables.clone();
                let mut members: Vec<(u32, Vec<usize>)> = Vec::new();
                for _ in 0..nmembers {
                    let v = *rng.pick(&[0x0001_0000u32, 0x4F54_544F, 0x7472_7565]);
                    // a member uses each tag at most once: pool tags are unique already
                    let idx: Vec<usize> = (0..pool.len()).filter(|_| rng.chance(2, 3)).collect();
                    members.push((v, idx));
                }
                let ttc_version = if rng.bool() { 0x0001_0000 } else { 0x0002_0000 };
                let interleaved = rng.chance(1, 3);
                let mut bytes = if interleaved { sfnt::build_ttc_interleaved(ttc_version, &pool, &members) } else { sfnt::build_ttc(ttc_version, &pool, &members) };
                maybe_strip_trailing_pad(cx, rng, &mut bytes);
                let wit = || J::obj(vec![("kind", J::s("ttc")), ("members", J::U(nmembers as u64)), ("bytes_head", J::hex(&bytes[..bytes.len().min(200)])), ("len", J::U(bytes.len() as u64))]);
                let fd = match ReadScope::new(&bytes).read::<FontData<'_>>() {
                    Ok(f) => f,
                    Err(e) => {
                        cx.violation("rejected", "ttc:rejected", J::obj(vec![("error", J::s(format!("{:?}", e))), ("container", wit())]));
                        return;
                    }
                };
                let mut ok = true;
                for (k, (v, idx)) in members.iter().enumerate() {
                    let exp = Expect { version: *v, tables: idx.iter().map(|&i| pool[i].clone()).collect() };
                    match fd.table_provider(k) {
                        Ok(p) => ok &= check_provider(cx, rng, &p, &exp, "ttc/FontData", &wit),
                        Err(e) => {
                            cx.violation("rejected", "ttc:member-rejected", J::obj(vec![("member", J::U(k as u64)), ("error", J::s(format!("{:?}", e))), ("container", wit())]));
                            ok = false;
                        }
                    }
                }
                // index beyond the end: error / absence, never another member's data
                for beyond in [nmembers, nmembers + 1, nmembers + 1000, usize::MAX] {
                    match fd.table_provider(beyond) {
                        Err(_) => cx.class("ttc:index-beyond-end-rejected"),
                        Ok(p) => {
                            let any = pool.iter().any(|(t, _)| p.has_table(*t) || matches!(p.table_data(*t), Ok(Some(_))));
                            if any || p.table_tags().map_or(false, |t| !t.is_empty()) {
                                cx.violation("index-beyond-end", "ttc:index-beyond-end-has-data", J::obj(vec![("index", J::U(beyond as u64)), ("container", wit())]));
                                ok = false;
                            }
                        }
                    }
                }
                if ok {
                    cx.class("ttc");
                    if interleaved && nmembers > 1 {
                        cx.class("ttc:offset-tables-interleaved-with-table-data");
                    }
                    if members.iter().any(|m| members.iter().filter(|n| n.1.iter().any(|i| m.1.contains(i))).count() > 1) {
                        cx.class("ttc:shared-tables");
                    }
                }
                if pool.iter().any(|t| !t.1.is_empty()) {
                    cx.nontrivial(hash_bytes(&bytes));
                }
            }
            _ => {
                let wt: Vec<WoffTable> = tables
                    .iter()
                    .map(|(t, d)| WoffTable { tag: *t, data: d.clone(), compress: rng.chance(2, 3), level: *rng.pick(&[1u32, 6, 9]) })
                    .collect();
                let meta: Option<Vec<u8>> = if rng.chance(1, 3) { Some(format!("<metadata version=\"1.0\"><x>{}</x></metadata>", rng.u32()).into_bytes()) } else { None };
                let private: Option<Vec<u8>> = if rng.chance(1, 4) {
                    let n = rng.below(40);
                    Some(rng.bytes(n))
                } else {
                    None
                };
                let sort_dir = !rng.chance(1, 5);
                let (bytes, comp) = build_woff(version, &wt, meta.as_deref(), private.as_deref(), sort_dir);
                // Reading must not depend on what was read before, on this thread or any other object: one
                // case in four first reads a damaged copy of the same file (a byte flipped inside a
                // compressed table, or the file truncated) and ignores the outcome.
                if rng.chance(1, 4) && bytes.len() > 44 + 20 * wt.len() {
                    let mut bad = bytes.clone();
                    if rng.bool() {
                        let at = 44 + 20 * wt.len() + rng.below(bad.len() - 44 - 20 * wt.len());
                        bad[at] ^= 1 << rng.below(8);
                    } else {
                        let cut = 44 + 20 * wt.len() + rng.below(bad.len() - 44 - 20 * wt.len());
                        bad.truncate(cut);
                    }
                    let r = cx.guard("damaged-sibling", bad.len(), || {
                        if let Ok(fd) = ReadScope::new(&bad).read::<FontData<'_>>() {
                            if let Ok(p) = fd.table_provider(0) {
                                for (t, _) in &tables {
                                    let _ = p.table_data(*t);
                                }
                            }
                        }
                    });
                    if r.is_some() {
                        cx.class("woff:damaged-copy-read-first");
                    }
                }
                let exp = Expect { version, tables };
                let wit = || J::obj(vec![("kind", J::s("woff")), ("bytes_head", J::hex(&bytes[..bytes.len().min(44 + 20 * 6)])), ("len", J::U(bytes.len() as u64))]);
                let fd = match ReadScope::new(&bytes).read::<FontData<'_>>() {
                    Ok(f) => f,
                    Err(e) => {
                        cx.violation("rejected", "woff:rejected", J::obj(vec![("error", J::s(format!("{:?}", e))), ("container", wit())]));
                        return;
                    }
                };
                let mut ok = true;
                for idx in [0usize, 3] {
                    match fd.table_provider(idx) {
                        Ok(p) => ok &= check_provider(cx, rng, &p, &exp, "woff/FontData", &wit),
                        Err(e) => {
                            cx.violation("rejected", "woff:provider-rejected", J::s(format!("{:?}", e)));
                            ok = false;
                        }
                    }
                }
                if let Ok(w) = ReadScope::new(&bytes).read::<WoffFont<'_>>() {
                    ok &= check_provider(cx, rng, &w, &exp, "woff/WoffFont", &wit);
                    match (w.extended_metadata(), &meta) {
                        (Ok(Some(s)), Some(m)) if s.as_bytes() == m.as_slice() => cx.class("woff:metadata"),
                        (Ok(None), None) => {}
                        (other, _) => {
                            cx.violation("metadata", "woff:metadata", J::s(format!("extended_metadata = {:?} expected {:?}", other, meta.as_ref().map(|m| String::from_utf8_lossy(m).to_string()))));
                            ok = false;
                        }
                    }
                }
                if ok {
                    cx.class("woff");
                    if comp.iter().any(|c| *c) {
                        cx.class("woff:compressed-table");
                    }
                    if comp.iter().zip(wt.iter()).any(|(c, t)| !*c && t.compress) {
                        cx.class("woff:compression-not-smaller-stored");
                    }
                    if comp.iter().any(|c| !*c) {
                        cx.class("woff:stored-table");
                    }
                }
                if ntables > 0 {
                    cx.nontrivial(hash_bytes(&bytes));
                }
            }
        }
        if exp_empty(&used) {
            cx.class("empty-table-set");
        }
        if cx.want_sample() {
            cx.sample(J::obj(vec![("container", J::s(["sfnt", "ttc", "woff"][kind])), ("tables", J::U(ntables as u64)), ("version", J::s(format!("{:#x}", version)))]));
        }
    }
}

fn exp_empty(used: &[u32]) -> bool {
    used.is_empty()
}
