//! C10 — (stub, under construction)

use super::Prop;
use crate::rt::*;

pub struct C10 {}

impl C10 {
    pub fn new(_cx: &mut Ctx) -> C10 {
        C10 {}
    }
}

impl Prop for C10 {
    fn case(&mut self, cx: &mut Ctx, _rng: &mut Rng) {
        cx.inconclusive("not-implemented");
    }
}
