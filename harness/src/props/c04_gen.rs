//! C04 — generator of GSUB lookup programs (core / wide) and of input glyph strings.

use crate::gen::layout_c04::*;
use crate::model::gsub_c04::skip_reason;
use crate::rt::Rng;
use std::collections::BTreeMap;

pub fn tag(s: &str) -> u32 {
    let b = s.as_bytes();
    u32::from_be_bytes([b[0], b[1], b[2], b[3]])
}

/// Feature tags that `Features::Mask` can express and that are plain "apply to the whole run"
/// features for Default-type scripts.
pub const CORE_MASK_TAGS: &[&str] = &["liga", "ccmp", "calt", "clig", "rlig", "locl", "dlig", "smcp", "c2sc", "init", "medi", "isol", "lnum", "onum", "pres", "psts", "rclt", "hlig", "zero", "tnum"];
/// Tags only `Features::Custom` can request.
pub const CUSTOM_ONLY_TAGS: &[&str] = &["ss01", "ss02", "test", "aalt", "salt", "swsh"];
/// Tags with engine-specific treatment in allsorts (wide mode only).
pub const WIDE_TAGS: &[&str] = &["fina", "rvrn", "vert", "vrt2", "frac"];

#[derive(Clone, Copy, PartialEq, Debug)]
pub struct Kind {
    pub class: u16,
    pub attach: u16,
    pub sets: u8,
}

pub struct G<'r> {
    pub rng: &'r mut Rng,
    pub n: u16,
    pub kind_of: Vec<Kind>,
    pub hot: Vec<u16>,
    pub nsets: usize,
    pub core: bool,
    pub classes: bool,
    pub gdef: Option<Gdef>,
}

type Hints = Vec<Vec<u16>>;

impl<'r> G<'r> {
    fn fmt_salt(&mut self) -> (u8, u32) {
        (if self.rng.bool() { 1 } else { 2 }, self.rng.u32())
    }
    fn glyph(&mut self) -> u16 {
        if self.rng.chance(7, 10) {
            *self.rng.pick(&self.hot)
        } else {
            self.rng.below(self.n as usize) as u16
        }
    }
    fn skipped(&self, flag: u16, ms: Option<u16>, g: u16) -> bool {
        skip_reason(self.gdef.as_ref(), flag, ms, g).is_some()
    }
    /// a glyph the lookup flags do not skip (best effort)
    fn glyph_ns(&mut self, flag: u16, ms: Option<u16>) -> u16 {
        for _ in 0..8 {
            let g = self.glyph();
            if !self.skipped(flag, ms, g) {
                return g;
            }
        }
        self.glyph()
    }
    fn glyph_like(&mut self, g: u16) -> u16 {
        let k = self.kind_of[g as usize];
        let c: Vec<u16> = (0..self.n).filter(|&x| self.kind_of[x as usize] == k).collect();
        // prefer hot members so that later rules see them
        let hc: Vec<u16> = c.iter().copied().filter(|x| self.hot.contains(x)).collect();
        if !hc.is_empty() && self.rng.chance(2, 3) {
            *self.rng.pick(&hc)
        } else {
            *self.rng.pick(&c)
        }
    }
    fn out_glyph(&mut self, src: u16, sigpres: bool) -> u16 {
        if sigpres {
            self.glyph_like(src)
        } else if !self.core && self.rng.chance(1, 40) {
            self.n + self.rng.below(3) as u16
        } else {
            self.glyph()
        }
    }
    fn cov_of(&mut self, glyphs: Vec<u16>) -> Cov {
        let (f, s) = self.fmt_salt();
        Cov::new(glyphs, f, s)
    }
    fn cov(&mut self, lo: usize, hi: usize) -> Cov {
        let k = self.rng.urange(lo, hi);
        let mut v = Vec::new();
        if self.rng.chance(1, 6) {
            // a contiguous range (good for format 2)
            let s = self.rng.below(self.n as usize) as u16;
            for g in s..(s + k as u16 + 2).min(self.n) {
                v.push(g);
            }
        }
        for _ in 0..k {
            v.push(self.glyph());
        }
        self.cov_of(v)
    }
    fn cov_with(&mut self, must: &[u16], extra: usize) -> Cov {
        let mut v = must.to_vec();
        for _ in 0..self.rng.urange(0, extra) {
            v.push(self.glyph());
        }
        self.cov_of(v)
    }
    fn classdef(&mut self) -> ClassDef {
        let nclass = self.rng.urange(1, 3) as u16;
        let mut map = BTreeMap::new();
        let k = self.rng.urange(2, 10);
        for _ in 0..k {
            let g = self.glyph();
            map.insert(g, 1 + self.rng.below(nclass as usize) as u16);
        }
        if self.rng.chance(1, 4) {
            let s = self.rng.below(self.n as usize) as u16;
            let c = 1 + self.rng.below(nclass as usize) as u16;
            for g in s..(s + 5).min(self.n) {
                map.insert(g, c);
            }
        }
        let (f, s) = self.fmt_salt();
        ClassDef::new(map, f, s)
    }
    pub fn flags(&mut self) -> (u16, Option<u16>) {
        if !self.classes || self.rng.chance(9, 20) {
            return (0, None);
        }
        loop {
            let mut f = 0u16;
            let mut ms = None;
            if self.rng.chance(1, 4) {
                f |= IGNORE_BASE;
            }
            if self.rng.chance(1, 4) {
                f |= IGNORE_LIG;
            }
            if self.rng.chance(1, 4) {
                f |= IGNORE_MARKS;
            }
            if self.nsets > 0 && self.rng.chance(1, 3) {
                f |= USE_MFS;
                ms = Some(if !self.core && self.rng.chance(1, 20) { self.nsets as u16 + 1 } else { self.rng.below(self.nsets) as u16 });
            }
            if self.rng.chance(1, 3) {
                f |= (1 + self.rng.below(3) as u16) << 8;
            }
            if f != 0 {
                // rightToLeft (cursive attachment only) has no meaning for GSUB
                if self.rng.chance(1, 10) {
                    f |= 0x0001;
                }
                return (f, ms);
            }
        }
    }

    fn finish_lookup(&mut self, ltype: u16, flag: u16, mark_set: Option<u16>, subs: Vec<Sub>) -> Lookup {
        let ext = self.rng.chance(1, 4);
        let pad = if self.rng.chance(1, 60) { self.rng.urange(1000, 30000) * 2 } else if self.rng.chance(1, 10) { self.rng.urange(1, 8) * 2 } else { 0 };
        Lookup { ltype, flag, mark_set, subs, ext, pad }
    }

    /// Lookup of type 1-4. `hints[0]` = glyphs the lookup should cover, `hints[1..]` = glyphs that
    /// follow (for ligature components).
    fn simple(&mut self, ltype: u16, flag: u16, ms: Option<u16>, sigpres: bool, hints: &Hints) -> Lookup {
        let nsub = if self.rng.chance(1, 3) { self.rng.urange(2, 3) } else { 1 };
        let mut subs = Vec::new();
        for si in 0..nsub {
            let mut firsts: Vec<u16> = Vec::new();
            if let Some(h) = hints.first() {
                for &g in h.iter().take(3) {
                    if si == 0 || self.rng.bool() {
                        firsts.push(g);
                    }
                }
            }
            for _ in 0..self.rng.urange(if firsts.is_empty() { 1 } else { 0 }, 5) {
                let g = self.glyph_ns(flag, ms);
                firsts.push(g);
            }
            let cov = self.cov_of(firsts);
            let sub = match ltype {
                1 => {
                    if self.rng.chance(2, 5) {
                        let delta = self.rng.range(-6, 6) as i16;
                        let ok: Vec<u16> = cov
                            .glyphs
                            .iter()
                            .copied()
                            .filter(|&g| {
                                let t = g as i32 + delta as i32;
                                if !self.core && !sigpres {
                                    return true;
                                }
                                t >= 0 && t < self.n as i32 && (!sigpres || self.kind_of[t as usize] == self.kind_of[g as usize])
                            })
                            .collect();
                        if !ok.is_empty() {
                            let c = self.cov_of(ok);
                            subs.push(Sub::Single1 { cov: c, delta });
                            continue;
                        }
                    }
                    let subst = cov.glyphs.clone().into_iter().map(|g| self.out_glyph(g, sigpres)).collect();
                    Sub::Single2 { cov, subst }
                }
                2 => {
                    let seqs = cov
                        .glyphs
                        .clone()
                        .into_iter()
                        .map(|g| {
                            let len = if !self.core && self.rng.chance(1, 8) { 0 } else if !self.core && self.rng.chance(1, 30) { self.rng.urange(4, 6) } else { self.rng.urange(1, 3) };
                            (0..len).map(|_| self.out_glyph(g, sigpres)).collect()
                        })
                        .collect();
                    Sub::Multiple { cov, seqs }
                }
                3 => {
                    let alts = cov
                        .glyphs
                        .clone()
                        .into_iter()
                        .map(|g| {
                            let len = self.rng.urange(1, 3);
                            (0..len).map(|_| self.out_glyph(g, sigpres)).collect()
                        })
                        .collect();
                    Sub::Alternate { cov, alts }
                }
                _ => {
                    let sets = cov
                        .glyphs
                        .clone()
                        .into_iter()
                        .map(|g| {
                            let nl = self.rng.urange(1, 3);
                            (0..nl)
                                .map(|_| {
                                    // hinted glyphs (after the first) that this lookup does not skip
                                    let avail = hints.iter().skip(1).filter(|h| h.first().map_or(false, |&g| !self.skipped(flag, ms, g))).count();
                                    let nc = if self.rng.chance(1, 12) {
                                        0
                                    } else if avail >= 1 && self.rng.chance(3, 4) {
                                        self.rng.urange(1, avail.min(3))
                                    } else {
                                        self.rng.urange(1, 3)
                                    };
                                    let mut comps = Vec::new();
                                    let mut hp = 1;
                                    for _ in 0..nc {
                                        // next hinted glyph this lookup does not skip
                                        let mut c = None;
                                        while let Some(h) = hints.get(hp) {
                                            hp += 1;
                                            if h.is_empty() {
                                                break;
                                            }
                                            let g = *self.rng.pick(h);
                                            if !self.skipped(flag, ms, g) {
                                                c = Some(g);
                                                break;
                                            }
                                        }
                                        let c = match c {
                                            Some(g) if self.rng.chance(5, 6) => g,
                                            _ => self.glyph_ns(flag, ms),
                                        };
                                        comps.push(c);
                                    }
                                    Lig { comps, lig: self.out_glyph(g, sigpres) }
                                })
                                .collect()
                        })
                        .collect();
                    Sub::Ligature { cov, sets }
                }
            };
            subs.push(sub);
        }
        self.finish_lookup(ltype, flag, ms, subs)
    }

    /// Create (or reuse) a lookup to be referenced from a sequence lookup record.
    fn nested_for(&mut self, pflag: u16, pms: Option<u16>, hints: &Hints, lookups: &mut Vec<Lookup>, depth: usize) -> u16 {
        if self.core {
            let sigpres = pflag != 0;
            let t = self.rng.below(100);
            // nested lookups carry their own flags: the parent's, none, or unrelated ones
            let (flag, ms) = match self.rng.below(4) {
                0 => (pflag, pms),
                1 => (0, None),
                _ => self.flags(),
            };
            let (mut lflag, mut lms) = match self.rng.below(5) {
                0 => (pflag, pms),
                1 => (0, None),
                _ => self.flags(),
            };
            // aim: the ligature lookup skips the parent's second input glyph but not the first
            if hints.len() >= 3 && self.rng.chance(3, 4) {
                if let (Some(&g0), Some(&g1)) = (hints[0].first(), hints[1].first()) {
                    for _ in 0..8 {
                        let (f, m) = self.flags();
                        if self.skipped(f, m, g1) && !self.skipped(f, m, g0) {
                            lflag = f;
                            lms = m;
                            break;
                        }
                    }
                }
            }
            if t < 30 {
                let l = self.simple(1, flag, ms, sigpres, hints);
                lookups.push(l);
            } else if t < 47 {
                let l = self.simple(2, flag, ms, sigpres, hints);
                lookups.push(l);
            } else if t < 55 {
                let l = self.simple(3, flag, ms, sigpres, hints);
                lookups.push(l);
            } else if t < 85 || depth > 0 {
                // nested ligature with its own flags; its components are taken from the parent's
                // following input glyphs that the ligature lookup itself does not skip
                let l = self.simple(4, lflag, lms, sigpres, hints);
                lookups.push(l);
            } else {
                // inner context whose nested lookups are single substitutions
                let chain = self.rng.bool();
                let l = self.context(chain, Some((flag, ms)), lookups, depth + 1, Some(hints), sigpres || flag != 0);
                lookups.push(l);
            }
            return (lookups.len() - 1) as u16;
        }
        // wide: anything goes
        if !lookups.is_empty() && self.rng.chance(1, 4) {
            return self.rng.below(lookups.len()) as u16;
        }
        if self.rng.chance(1, 40) {
            return lookups.len() as u16 + 5; // out of range
        }
        let (flag, ms) = self.flags();
        let t = self.rng.below(100);
        let l = if t < 60 {
            let lt = 1 + self.rng.below(4) as u16;
            let sp = self.rng.chance(1, 3);
            self.simple(lt, flag, ms, sp, hints)
        } else if t < 90 && depth < 3 {
            let chain = self.rng.bool();
            self.context(chain, None, lookups, depth + 1, Some(hints), false)
        } else {
            self.reverse()
        };
        lookups.push(l);
        (lookups.len() - 1) as u16
    }

    fn records(&mut self, seqlen: usize, pflag: u16, pms: Option<u16>, hints: &Hints, lookups: &mut Vec<Lookup>, depth: usize, singles_only: bool, sigpres: bool) -> Vec<(u16, u16)> {
        let n = match self.rng.below(10) {
            0 => 0,
            1..=5 => 1,
            6..=8 => 2,
            _ => 3,
        };
        if !singles_only && self.rng.chance(1, 5) {
            if let Some(r) = self.growing_records(seqlen, pflag, pms, hints, lookups, sigpres || pflag != 0) {
                return r;
            }
        }
        let mut recs = Vec::new();
        for _ in 0..n {
            let seq = if !self.core && self.rng.chance(1, 15) { seqlen + self.rng.below(2) } else { self.rng.below(seqlen) };
            let h: Hints = hints.iter().skip(seq).cloned().collect();
            let li = if singles_only && self.core && depth == 1 && self.rng.chance(1, 4) {
                // third level: context > context > context > single substitutions (three context
                // lookups nested is what allsorts' nesting limit still applies completely)
                let chain = self.rng.bool();
                let (flag, ms) = if self.rng.bool() { (pflag, pms) } else { (0, None) };
                let l = self.context(chain, Some((flag, ms)), lookups, depth + 1, Some(&h), sigpres || flag != 0);
                lookups.push(l);
                (lookups.len() - 1) as u16
            } else if singles_only {
                let (flag, ms) = if self.rng.bool() { (pflag, pms) } else { (0, None) };
                let lt = if self.rng.chance(4, 5) { 1 } else { 3 };
                let l = self.simple(lt, flag, ms, sigpres, &h);
                lookups.push(l);
                (lookups.len() - 1) as u16
            } else {
                self.nested_for(pflag, pms, &h, lookups, depth)
            };
            recs.push((seq as u16, li));
        }
        recs
    }

    /// Two records: a multiple substitution that lengthens the matched sequence, then a record
    /// whose sequence index lies in the part that only exists after the first one
    /// (index in [original glyph count, current count)).
    fn growing_records(&mut self, seqlen: usize, pflag: u16, pms: Option<u16>, hints: &Hints, lookups: &mut Vec<Lookup>, sigpres: bool) -> Option<Vec<(u16, u16)>> {
        let s0 = self.rng.below(seqlen);
        let src: Vec<u16> = hints.get(s0)?.iter().copied().take(3).collect();
        if src.is_empty() {
            return None;
        }
        let m = self.rng.urange(2, 3);
        let cov = self.cov_of(src);
        let seqs: Vec<Vec<u16>> = cov.glyphs.clone().into_iter().map(|g| (0..m).map(|_| self.out_glyph(g, sigpres)).collect()).collect();
        let (f0, m0) = if self.rng.bool() { (pflag, pms) } else { (0, None) };
        let t = seqlen + self.rng.below(m - 1);
        let h_t: Vec<u16> = if t <= s0 + m - 1 { seqs.iter().map(|q| q[t - s0]).collect() } else { hints.get(t - (m - 1)).cloned().unwrap_or_default() };
        let l0 = self.finish_lookup(2, f0, m0, vec![Sub::Multiple { cov, seqs }]);
        lookups.push(l0);
        let i0 = (lookups.len() - 1) as u16;
        let (f1, m1) = if self.rng.bool() { (pflag, pms) } else { (0, None) };
        let lt = *self.rng.pick(&[1u16, 1, 2, 3]);
        let l1 = self.simple(lt, f1, m1, sigpres, &vec![h_t]);
        lookups.push(l1);
        let i1 = (lookups.len() - 1) as u16;
        let mut recs = vec![(s0 as u16, i0), (t as u16, i1)];
        if self.rng.chance(1, 4) {
            // an unrelated record in front (does not change the length: single substitution)
            let s = self.rng.below(seqlen);
            let h: Hints = hints.iter().skip(s).cloned().collect();
            let l = self.simple(1, 0, None, sigpres, &h);
            lookups.push(l);
            recs.insert(0, (s as u16, (lookups.len() - 1) as u16));
        }
        Some(recs)
    }

    fn seq_glyphs(&mut self, lo: usize, hi: usize, flag: u16, ms: Option<u16>) -> Vec<u16> {
        (0..self.rng.urange(lo, hi)).map(|_| self.glyph_ns(flag, ms)).collect()
    }

    /// A context (type 5) or chained context (type 6) lookup.
    /// `force_flags`: flags to use; `inner`: Some(hints) when this is a nested context (its own
    /// records are then single substitutions in core mode).
    pub fn context(&mut self, chain: bool, force_flags: Option<(u16, Option<u16>)>, lookups: &mut Vec<Lookup>, depth: usize, inner: Option<&Hints>, sigpres: bool) -> Lookup {
        let (flag, ms) = force_flags.unwrap_or_else(|| self.flags());
        let singles_only = self.core && inner.is_some();
        let sigpres = sigpres || (self.core && flag != 0);
        let nsub = if self.rng.chance(1, 3) { self.rng.urange(2, 3) } else { 1 };
        let mut subs = Vec::new();
        let blen = |g: &mut Self| if chain { g.rng.small(2) } else { 0 };
        for _ in 0..nsub {
            let salt = self.rng.u32();
            let hint0: Vec<u16> = inner.and_then(|h| h.first()).cloned().unwrap_or_default();
            match self.rng.below(3) {
                0 => {
                    let mut firsts: Vec<u16> = hint0.iter().copied().take(2).collect();
                    for _ in 0..self.rng.urange(if firsts.is_empty() { 1 } else { 0 }, 3) {
                        firsts.push(self.glyph_ns(flag, ms));
                    }
                    let cov = self.cov_of(firsts);
                    let mut sets = Vec::new();
                    for &first in &cov.glyphs.clone() {
                        if self.rng.chance(1, 7) {
                            sets.push(None);
                            continue;
                        }
                        let mut rules = Vec::new();
                        for _ in 0..self.rng.urange(1, 3) {
                            let input = self.seq_glyphs(0, 3, flag, ms);
                            let nb = blen(self);
                            let na = blen(self);
                            let back = self.seq_glyphs(nb, nb, flag, ms);
                            let ahead = self.seq_glyphs(na, na, flag, ms);
                            let mut hints: Hints = vec![vec![first]];
                            hints.extend(input.iter().map(|&g| vec![g]));
                            let recs = self.records(1 + input.len(), flag, ms, &hints, lookups, depth, singles_only, sigpres);
                            rules.push(Rule { back, input, ahead, recs });
                        }
                        sets.push(Some(rules));
                    }
                    if !self.core && self.rng.chance(1, 30) {
                        sets.pop();
                    }
                    subs.push(if chain { Sub::Chain1 { cov, sets, salt } } else { Sub::Ctx1 { cov, sets, salt } });
                }
                1 => {
                    let icd = self.classdef();
                    let (bcd, acd) = if self.rng.chance(1, 3) { (icd.clone(), icd.clone()) } else { (self.classdef(), self.classdef()) };
                    let maxc = icd.max_class();
                    // coverage: members of the classes plus class-0 glyphs
                    let mut cg: Vec<u16> = hint0.iter().copied().take(2).collect();
                    for _ in 0..self.rng.urange(2, 6) {
                        let g = if self.rng.chance(3, 5) && !icd.map.is_empty() { *self.rng.pick(&icd.map.keys().copied().collect::<Vec<_>>()) } else { self.glyph_ns(flag, ms) };
                        cg.push(g);
                    }
                    let cov = self.cov_of(cg);
                    let mut sets = Vec::new();
                    for c in 0..=maxc {
                        if self.rng.chance(1, 5) {
                            sets.push(None);
                            continue;
                        }
                        let mut rules = Vec::new();
                        for _ in 0..self.rng.urange(1, 3) {
                            let cls = |g: &mut Self, cd: &ClassDef, k: usize| -> Vec<u16> { (0..k).map(|_| g.rng.below(cd.max_class() as usize + 1) as u16).collect() };
                            let ni = self.rng.urange(0, 3);
                            let input = cls(self, &icd, ni);
                            let nb = blen(self);
                            let na = blen(self);
                            let back = cls(self, &bcd, nb);
                            let ahead = cls(self, &acd, na);
                            let members = |g: &Self, cd: &ClassDef, c: u16| -> Vec<u16> {
                                let mut m: Vec<u16> = cd.glyphs_of(c, g.n).into_iter().filter(|x| !g.skipped(flag, ms, *x)).collect();
                                m.sort_by_key(|x| !g.hot.contains(x));
                                m.truncate(4);
                                m
                            };
                            let mut hints: Hints = vec![members(self, &icd, c).into_iter().filter(|g| cov.contains(*g)).collect()];
                            hints.extend(input.iter().map(|&ic| members(self, &icd, ic)));
                            let recs = self.records(1 + input.len(), flag, ms, &hints, lookups, depth, singles_only, sigpres);
                            rules.push(Rule { back, input, ahead, recs });
                        }
                        sets.push(Some(rules));
                    }
                    if !self.core && self.rng.chance(1, 30) {
                        sets.pop();
                    }
                    subs.push(if chain { Sub::Chain2 { cov, bcd, icd, acd, sets, salt } } else { Sub::Ctx2 { cov, cd: icd, sets, salt } });
                }
                _ => {
                    let ni = self.rng.urange(1, 4);
                    let mut input = Vec::new();
                    for k in 0..ni {
                        let must: Vec<u16> = if k == 0 { hint0.iter().copied().take(2).collect() } else { Vec::new() };
                        let extra: Vec<u16> = (0..self.rng.urange(1, 4)).map(|_| self.glyph_ns(flag, ms)).collect();
                        let all: Vec<u16> = must.into_iter().chain(extra).collect();
                        input.push(self.cov_of(all));
                    }
                    let nb = blen(self);
                    let na = blen(self);
                    let back: Vec<Cov> = (0..nb).map(|_| self.cov(1, 5)).collect();
                    let ahead: Vec<Cov> = (0..na).map(|_| self.cov(1, 5)).collect();
                    let hints: Hints = input.iter().map(|c| c.glyphs.iter().copied().take(4).collect()).collect();
                    let recs = self.records(ni, flag, ms, &hints, lookups, depth, singles_only, sigpres);
                    subs.push(if chain { Sub::Chain3 { back, input, ahead, recs, salt } } else { Sub::Ctx3 { covs: input, recs, salt } });
                }
            }
        }
        self.finish_lookup(if chain { 6 } else { 5 }, flag, ms, subs)
    }

    pub fn reverse(&mut self) -> Lookup {
        let (flag, ms) = self.flags();
        let nsub = if self.rng.chance(1, 3) { 2 } else { 1 };
        let mut subs = Vec::new();
        for _ in 0..nsub {
            let firsts: Vec<u16> = (0..self.rng.urange(1, 5)).map(|_| self.glyph_ns(flag, ms)).collect();
            let cov = self.cov_of(firsts);
            let sp = self.rng.chance(1, 2);
            let subst = cov.glyphs.clone().into_iter().map(|g| self.out_glyph(g, sp)).collect();
            let nb = self.rng.small(2);
            let na = self.rng.small(2);
            let back = (0..nb).map(|_| self.cov(1, 6)).collect();
            let ahead = (0..na).map(|_| self.cov(1, 6)).collect();
            subs.push(Sub::Rev { cov, back, ahead, subst, salt: self.rng.u32() });
        }
        self.finish_lookup(8, flag, ms, subs)
    }
}

fn remap_sub(s: &mut Sub, perm: &[u16]) {
    let fix = |recs: &mut Vec<(u16, u16)>| {
        for r in recs.iter_mut() {
            if (r.1 as usize) < perm.len() {
                r.1 = perm[r.1 as usize];
            }
        }
    };
    match s {
        Sub::Ctx1 { sets, .. } | Sub::Ctx2 { sets, .. } | Sub::Chain1 { sets, .. } | Sub::Chain2 { sets, .. } => {
            for set in sets.iter_mut().flatten() {
                for r in set.iter_mut() {
                    fix(&mut r.recs);
                }
            }
        }
        Sub::Ctx3 { recs, .. } | Sub::Chain3 { recs, .. } => fix(recs),
        _ => {}
    }
}

pub struct GenOut {
    pub prog: Program,
    /// lookup indices referenced by some feature (after permutation)
    pub top: Vec<u16>,
    pub hot: Vec<u16>,
}

pub fn gen_program(rng: &mut Rng, core: bool) -> GenOut {
    let n = rng.urange(20, 60) as u16;
    let classes = rng.chance(9, 10);
    let nsets = if classes { rng.below(4) } else { 0 };
    // glyph kinds
    let nk = rng.urange(4, 8);
    let mut kinds = Vec::new();
    for _ in 0..nk {
        let class = match rng.below(100) {
            0..=39 => 1,
            40..=52 => 2,
            53..=89 => 3,
            90..=94 => 4,
            _ => 0,
        };
        let attach = if class == 3 { rng.below(4) as u16 } else if rng.chance(1, 10) { 1 + rng.below(3) as u16 } else { 0 };
        let sets = if nsets == 0 { 0 } else if class == 3 { rng.below(1 << nsets) as u8 } else if rng.chance(1, 8) { rng.below(1 << nsets) as u8 } else { 0 };
        kinds.push(Kind { class, attach, sets });
    }
    if classes {
        kinds[0] = Kind { class: 1, attach: 0, sets: 0 };
        kinds[1] = Kind { class: 3, attach: 1, sets: if nsets > 0 { 1 } else { 0 } };
        kinds[2] = Kind { class: 3, attach: rng.below(3) as u16, sets: if nsets > 0 { rng.below(1 << nsets) as u8 } else { 0 } };
    } else {
        for k in kinds.iter_mut() {
            *k = Kind { class: 0, attach: 0, sets: 0 };
        }
    }
    let kind_of: Vec<Kind> = (0..n).map(|_| kinds[rng.below(nk)]).collect();
    // hot alphabet: a few glyphs of each of the first kinds
    let mut hot: Vec<u16> = Vec::new();
    for _ in 0..rng.urange(6, 12) {
        hot.push(rng.below(n as usize) as u16);
    }
    for k in 0..3 {
        let c: Vec<u16> = (0..n).filter(|&g| kind_of[g as usize] == kinds[k]).collect();
        for _ in 0..2 {
            if !c.is_empty() {
                hot.push(*rng.pick(&c));
            }
        }
    }
    hot.sort_unstable();
    hot.dedup();
    let gdef = if classes {
        let mut gc = BTreeMap::new();
        let mut ma = BTreeMap::new();
        for g in 0..n {
            gc.insert(g, kind_of[g as usize].class);
            ma.insert(g, kind_of[g as usize].attach);
        }
        let mark_sets: Vec<Cov> = (0..nsets).map(|s| Cov::new((0..n).filter(|&g| kind_of[g as usize].sets >> s & 1 == 1).collect(), if rng.bool() { 1 } else { 2 }, rng.u32())).collect();
        let minor = if nsets > 0 { *rng.pick(&[2u16, 3]) } else { *rng.pick(&[0u16, 0, 2, 3]) };
        let has_ma = ma.values().any(|&c| c != 0) || rng.bool();
        Some(Gdef {
            minor,
            glyph_class: Some(ClassDef::new(gc, if rng.bool() { 1 } else { 2 }, rng.u32())),
            mark_attach: if has_ma { Some(ClassDef::new(ma, if rng.bool() { 1 } else { 2 }, rng.u32())) } else { None },
            mark_sets,
        })
    } else {
        None
    };
    let mut lookups: Vec<Lookup> = Vec::new();
    let ntop = rng.urange(1, 5);
    let mut tops: Vec<usize> = Vec::new();
    {
        let mut g = G { rng, n, kind_of, hot: hot.clone(), nsets, core, classes, gdef: gdef.clone() };
        for _ in 0..ntop {
            let t = g.rng.below(100);
            let l = if t < 15 {
                let (f, m) = g.flags();
                g.simple(1, f, m, false, &Vec::new())
            } else if t < 25 {
                let (f, m) = g.flags();
                g.simple(2, f, m, false, &Vec::new())
            } else if t < 33 {
                let (f, m) = g.flags();
                g.simple(3, f, m, false, &Vec::new())
            } else if t < 50 {
                let (f, m) = g.flags();
                g.simple(4, f, m, false, &Vec::new())
            } else if t < 67 {
                g.context(false, None, &mut lookups, 0, None, false)
            } else if t < 87 {
                g.context(true, None, &mut lookups, 0, None, false)
            } else {
                g.reverse()
            };
            lookups.push(l);
            tops.push(lookups.len() - 1);
        }
    }
    // random permutation of the lookup list
    let nl = lookups.len();
    let mut perm: Vec<u16> = (0..nl as u16).collect();
    rng.shuffle(&mut perm);
    let mut placed: Vec<Option<Lookup>> = (0..nl).map(|_| None).collect();
    for (old, mut l) in lookups.into_iter().enumerate() {
        for s in l.subs.iter_mut() {
            remap_sub(s, &perm);
        }
        placed[perm[old] as usize] = Some(l);
    }
    let lookups: Vec<Lookup> = placed.into_iter().map(|l| l.unwrap()).collect();
    let mut top: Vec<u16> = tops.iter().map(|&t| perm[t]).collect();
    // nested lookups may also be used directly by features (not reverse/invalid ones)
    for l in 0..nl as u16 {
        if !top.contains(&l) && rng.chance(1, 5) {
            top.push(l);
        }
    }
    // features
    let mut tagpool: Vec<&str> = CORE_MASK_TAGS.iter().chain(CUSTOM_ONLY_TAGS.iter()).copied().collect();
    if !core {
        tagpool.extend(WIDE_TAGS.iter().copied());
        tagpool.extend(WIDE_TAGS.iter().copied());
    }
    let nf = rng.urange(2, 6);
    let mut features = Vec::new();
    for _ in 0..nf {
        let t = tag(*rng.pick(&tagpool));
        let mut ls: Vec<u16> = top.iter().copied().filter(|_| rng.chance(1, 2)).collect();
        if ls.is_empty() {
            ls.push(*rng.pick(&top));
        }
        if !core && rng.chance(1, 30) {
            ls.push(nl as u16 + 3);
        }
        rng.shuffle(&mut ls);
        features.push(Feature { tag: t, lookups: ls });
    }
    let mk_langsys = |rng: &mut Rng, features: &Vec<Feature>| -> LangSys {
        let mut idx: Vec<u16> = (0..features.len() as u16).collect();
        rng.shuffle(&mut idx);
        let mut out: Vec<u16> = Vec::new();
        for i in idx {
            if rng.chance(3, 4) {
                let dup = out.iter().any(|&o| features[o as usize].tag == features[i as usize].tag);
                if dup && (core || rng.chance(2, 3)) {
                    continue;
                }
                out.push(i);
            }
        }
        let required = if !core && rng.chance(1, 8) { Some(rng.below(features.len()) as u16) } else { None };
        LangSys { required, features: out }
    };
    let mut stags = vec![tag("DFLT"), tag("latn"), tag("cyrl"), tag("grek")];
    rng.shuffle(&mut stags);
    stags.truncate(rng.urange(1, 3));
    stags.sort_unstable();
    let mut scripts = Vec::new();
    for st in stags {
        let default = if rng.chance(9, 10) { Some(mk_langsys(rng, &features)) } else { None };
        let mut ltags = vec![tag("ENG "), tag("TRK "), tag("DEU ")];
        rng.shuffle(&mut ltags);
        ltags.truncate(rng.below(3));
        ltags.sort_unstable();
        let langs = ltags.into_iter().map(|t| (t, mk_langsys(rng, &features))).collect();
        scripts.push(Script { tag: st, default, langs });
    }
    // feature variations
    let axes = if rng.chance(1, 3) { rng.urange(1, 2) } else { 0 };
    let fv = if axes > 0 {
        let mut recs: Vec<FvRecord> = Vec::new();
        // a few cut points per axis so that the ranges of different records overlap, nest and abut
        let cuts: Vec<Vec<i16>> = (0..axes).map(|_| (0..3).map(|_| rng.range(-16384, 16384) as i16).collect()).collect();
        for _ in 0..rng.urange(1, 4) {
            let conds = if rng.chance(1, 10) {
                None
            } else if rng.chance(1, 12) {
                Some(Vec::new())
            } else {
                Some(
                    (0..rng.urange(1, 2))
                        .map(|_| {
                            let axis = if !core && rng.chance(1, 20) { axes as u16 } else { rng.below(axes) as u16 };
                            let mut pt = |rng: &mut Rng| -> i16 {
                                match rng.below(4) {
                                    0 => rng.range(-16384, 16384) as i16,
                                    1 => *rng.pick(&[-16384i16, 0, 16384]),
                                    _ => *rng.pick(&cuts[(axis as usize).min(axes - 1)]),
                                }
                            };
                            let (a, b) = (pt(rng), pt(rng));
                            Cond { axis, min: a.min(b), max: a.max(b) }
                        })
                        .collect(),
                )
            };
            let mut fis: Vec<u16> = (0..features.len() as u16).filter(|_| rng.chance(1, 2)).collect();
            if fis.is_empty() {
                fis.push(rng.below(features.len()) as u16);
            }
            let substs = if rng.chance(1, 4) {
                None // NULL featureTableSubstitutionOffset
            } else if rng.chance(1, 8) {
                Some(Vec::new()) // a substitution table without records
            } else {
                Some(
                    fis.into_iter()
                        .map(|fi| {
                            let mut ls: Vec<u16> = top.iter().copied().filter(|_| rng.chance(1, 2)).collect();
                            rng.shuffle(&mut ls);
                            (fi, ls)
                        })
                        .collect(),
                )
            };
            recs.push(FvRecord { conds, substs });
        }
        Some(recs)
    } else {
        None
    };
    let mut cmap = BTreeMap::new();
    for g in 1..n {
        cmap.insert(0x100 + 2 * g as u32, g);
        cmap.insert(0x101 + 2 * g as u32, g);
    }
    let pool_pad = if rng.chance(1, 40) { 66000 + rng.below(3000) * 2 } else { 0 };
    let gsub = Gsub { scripts, features, lookups, fv, pool_pad, salt: rng.u32() };
    GenOut { prog: Program { num_glyphs: n, gdef, gsub, axes, cmap }, top, hot }
}

/// A glyph sequence that lookup `li` is likely to match (back + input + lookahead of a random
/// rule), with glyphs the lookup skips sprinkled inside.
pub fn witness(rng: &mut Rng, p: &Program, li: usize, depth: usize) -> Vec<u16> {
    let lk = match p.gsub.lookups.get(li) {
        Some(l) => l,
        None => return Vec::new(),
    };
    if lk.subs.is_empty() {
        return Vec::new();
    }
    let sub = rng.pick(&lk.subs);
    let n = p.num_glyphs;
    let pickc = |rng: &mut Rng, c: &Cov| -> Option<u16> { if c.glyphs.is_empty() { None } else { Some(*rng.pick(&c.glyphs)) } };
    let pickcl = |rng: &mut Rng, cd: &ClassDef, c: u16| -> Option<u16> {
        let m = cd.glyphs_of(c, n);
        if m.is_empty() {
            None
        } else {
            Some(*rng.pick(&m))
        }
    };
    let mut back: Vec<Option<u16>> = Vec::new();
    let mut seq: Vec<Option<u16>> = Vec::new();
    let mut ahead: Vec<Option<u16>> = Vec::new();
    let mut recs: Vec<(u16, u16)> = Vec::new();
    match sub {
        Sub::Single1 { cov, .. } | Sub::Single2 { cov, .. } | Sub::Multiple { cov, .. } | Sub::Alternate { cov, .. } => seq.push(pickc(rng, cov)),
        Sub::Ligature { cov, sets } => {
            if let Some(g) = pickc(rng, cov) {
                seq.push(Some(g));
                if let Some(set) = cov.index(g).and_then(|i| sets.get(i)) {
                    if !set.is_empty() {
                        let l = rng.pick(set);
                        seq.extend(l.comps.iter().map(|&c| Some(c)));
                    }
                }
            }
        }
        Sub::Ctx1 { cov, sets, .. } | Sub::Chain1 { cov, sets, .. } => {
            if let Some(g) = pickc(rng, cov) {
                seq.push(Some(g));
                if let Some(Some(rules)) = cov.index(g).and_then(|i| sets.get(i)) {
                    if !rules.is_empty() {
                        let r = rng.pick(rules);
                        seq.extend(r.input.iter().map(|&c| Some(c)));
                        back.extend(r.back.iter().map(|&c| Some(c)));
                        ahead.extend(r.ahead.iter().map(|&c| Some(c)));
                        recs = r.recs.clone();
                    }
                }
            }
        }
        Sub::Ctx2 { cov, cd, sets, .. } => {
            if let Some(g) = pickc(rng, cov) {
                seq.push(Some(g));
                if let Some(Some(rules)) = sets.get(cd.class(g) as usize) {
                    if !rules.is_empty() {
                        let r = rng.pick(rules);
                        seq.extend(r.input.iter().map(|&c| pickcl(rng, cd, c)));
                        recs = r.recs.clone();
                    }
                }
            }
        }
        Sub::Chain2 { cov, bcd, icd, acd, sets, .. } => {
            if let Some(g) = pickc(rng, cov) {
                seq.push(Some(g));
                if let Some(Some(rules)) = sets.get(icd.class(g) as usize) {
                    if !rules.is_empty() {
                        let r = rng.pick(rules);
                        seq.extend(r.input.iter().map(|&c| pickcl(rng, icd, c)));
                        back.extend(r.back.iter().map(|&c| pickcl(rng, bcd, c)));
                        ahead.extend(r.ahead.iter().map(|&c| pickcl(rng, acd, c)));
                        recs = r.recs.clone();
                    }
                }
            }
        }
        Sub::Ctx3 { covs, recs: r, .. } => {
            seq.extend(covs.iter().map(|c| pickc(rng, c)));
            recs = r.clone();
        }
        Sub::Chain3 { back: b, input, ahead: a, recs: r, .. } => {
            seq.extend(input.iter().map(|c| pickc(rng, c)));
            back.extend(b.iter().map(|c| pickc(rng, c)));
            ahead.extend(a.iter().map(|c| pickc(rng, c)));
            recs = r.clone();
        }
        Sub::Rev { cov, back: b, ahead: a, .. } => {
            seq.push(pickc(rng, cov));
            back.extend(b.iter().map(|c| pickc(rng, c)));
            ahead.extend(a.iter().map(|c| pickc(rng, c)));
        }
    }
    // let a nested lookup's needs override part of the input (so that it fires)
    if depth < 2 && !recs.is_empty() && rng.chance(1, 2) {
        let (s, l) = *rng.pick(&recs);
        let w = witness(rng, p, l as usize, depth + 1);
        if lk.flag == p.gsub.lookups.get(l as usize).map_or(0, |x| x.flag) || rng.bool() {
            for (k, g) in w.into_iter().enumerate() {
                if let Some(slot) = seq.get_mut(s as usize + k) {
                    // only where the parent rule would still match is unknowable here; overriding
                    // the first position keeps the parent's coverage, so start after it
                    if k > 0 && rng.chance(1, 3) {
                        *slot = Some(g);
                    }
                }
            }
        }
    }
    back.reverse();
    let all: Vec<u16> = back.into_iter().chain(seq).chain(ahead).map(|g| g.unwrap_or_else(|| rng.below(n as usize) as u16)).collect();
    // sprinkle skipped glyphs
    let skippable: Vec<u16> = (0..n).filter(|&g| skip_reason(p.gdef.as_ref(), lk.flag, lk.mark_set, g).is_some()).collect();
    let mut out = Vec::new();
    for (k, g) in all.into_iter().enumerate() {
        if k > 0 && !skippable.is_empty() && rng.chance(1, 3) {
            for _ in 0..rng.urange(1, 2) {
                out.push(*rng.pick(&skippable));
            }
        }
        out.push(g);
    }
    out
}

pub fn gen_string(rng: &mut Rng, g: &GenOut, selected: &[u16]) -> Vec<u16> {
    let p = &g.prog;
    let n = p.num_glyphs as usize;
    let mut s: Vec<u16> = Vec::new();
    let target = match rng.below(12) {
        0 => 0,
        1 => 1,
        _ => rng.urange(2, 24),
    };
    let filler = |rng: &mut Rng| -> u16 { if rng.chance(3, 4) && !g.hot.is_empty() { *rng.pick(&g.hot) } else { rng.below(n) as u16 } };
    while s.len() < target {
        if !selected.is_empty() && rng.chance(1, 2) {
            let li = *rng.pick(selected) as usize;
            s.extend(witness(rng, p, li, 0));
        } else {
            for _ in 0..rng.urange(1, 3) {
                s.push(filler(rng));
            }
        }
    }
    s.truncate(24.max(target));
    s
}
