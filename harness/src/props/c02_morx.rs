//! C02: small hostile `morx` (extended state tables) and `kern` writers. Independent of allsorts.

use crate::rt::Rng;
use crate::sfnt::W;

fn gid(rng: &mut Rng, hot: &[u16], n: u16, wild: bool) -> u16 {
    if wild && rng.chance(1, 8) {
        return *rng.pick(&[n, n.wrapping_add(1), 0xFFFF, 0x7FFF]);
    }
    if rng.chance(3, 4) {
        *rng.pick(hot)
    } else {
        rng.below(n as usize) as u16
    }
}

/// AAT lookup table mapping some hot glyphs to `value(rng)`.
fn lookup_table(rng: &mut Rng, hot: &[u16], n: u16, wild: bool, mut value: impl FnMut(&mut Rng) -> u16) -> Vec<u8> {
    let mut w = W::new();
    let mut glyphs: Vec<u16> = hot.to_vec();
    glyphs.sort();
    glyphs.dedup();
    match rng.below(if wild { 7 } else { 6 }) {
        0 => {
            w.u16(0);
            let count = if wild && rng.chance(1, 3) { n.saturating_sub(1) } else { n };
            for g in 0..count {
                let v = if glyphs.contains(&g) { value(rng) } else { 1 };
                w.u16(v);
            }
        }
        1 => {
            // format 2: segment single
            w.u16(2).u16(6).u16(glyphs.len() as u16 + 1).u16(0).u16(0).u16(0);
            for &g in &glyphs {
                let last = if rng.chance(1, 4) { g.saturating_add(rng.below(3) as u16) } else { g };
                w.u16(last).u16(g).u16(value(rng));
            }
            w.u16(0xFFFF).u16(0xFFFF).u16(0);
        }
        2 => {
            // format 4: segment array
            let nseg = glyphs.len();
            w.u16(4).u16(6).u16(nseg as u16 + 1).u16(0).u16(0).u16(0);
            let data_at = 12 + 6 * (nseg + 1);
            for (i, &g) in glyphs.iter().enumerate() {
                let off = if wild && rng.chance(1, 6) { rng.u16() } else { (data_at + 2 * i) as u16 };
                w.u16(g).u16(g).u16(off);
            }
            w.u16(0xFFFF).u16(0xFFFF).u16(0);
            for _ in 0..nseg {
                w.u16(value(rng));
            }
        }
        3 => {
            w.u16(6).u16(4).u16(glyphs.len() as u16 + 1).u16(0).u16(0).u16(0);
            for &g in &glyphs {
                w.u16(g).u16(value(rng));
            }
            w.u16(0xFFFF).u16(0xFFFF);
        }
        4 => {
            let first = glyphs[0];
            let last = glyphs[glyphs.len() - 1];
            let count = (last - first + 1).min(400);
            w.u16(8).u16(first).u16(count);
            for g in first..first + count {
                let v = if glyphs.contains(&g) { value(rng) } else { 1 };
                w.u16(v);
            }
        }
        5 => {
            let first = glyphs[0];
            let last = glyphs[glyphs.len() - 1];
            let count = (last - first + 1).min(400);
            let unit = if wild { *rng.pick(&[1u16, 2, 4, 8]) } else { *rng.pick(&[1u16, 2]) };
            w.u16(10).u16(unit).u16(first).u16(count);
            for g in first..first + count {
                let v = if glyphs.contains(&g) { value(rng) } else { 1 };
                match unit {
                    1 => {
                        w.u8(v as u8);
                    }
                    2 => {
                        w.u16(v);
                    }
                    4 => {
                        w.u32(v as u32);
                    }
                    _ => {
                        w.u32(0).u32(v as u32);
                    }
                }
            }
        }
        _ => {
            w.u16(*rng.pick(&[1u16, 3, 12, 0xFFFF])).u16(rng.u16()).u16(rng.u16());
        }
    }
    w.b
}

struct Stx {
    n_classes: u32,
    class_table: Vec<u8>,
    states: Vec<Vec<u16>>,
}

fn stx(rng: &mut Rng, hot: &[u16], n: u16, wild: bool, n_entries: usize) -> Stx {
    let user = 1 + rng.below(3);
    let n_classes = 4 + user as u32;
    let class_table = lookup_table(rng, hot, n, wild, |rng| 4 + rng.below(user + if wild { 2 } else { 0 }) as u16);
    let n_states = 2 + rng.below(4);
    let states = (0..n_states)
        .map(|_| {
            (0..n_classes)
                .map(|c| {
                    if wild && rng.chance(1, 12) {
                        rng.u16()
                    } else if c < 4 && rng.chance(1, 2) {
                        0
                    } else {
                        rng.below(n_entries) as u16
                    }
                })
                .collect()
        })
        .collect();
    Stx { n_classes, class_table, states }
}

fn next_state(rng: &mut Rng, n_states: usize, wild: bool) -> u16 {
    if wild && rng.chance(1, 8) {
        *rng.pick(&[n_states as u16, 0xFFFF, 0x7FFF])
    } else {
        rng.below(n_states) as u16
    }
}

fn contextual(rng: &mut Rng, hot: &[u16], n: u16, wild: bool) -> Vec<u8> {
    let n_entries = 2 + rng.below(5);
    let s = stx(rng, hot, n, wild, n_entries);
    let n_subst = 1 + rng.below(3);
    let mut w = W::new();
    w.u32(s.n_classes);
    let hdr = 20;
    let class_at = hdr;
    let state_at = class_at + s.class_table.len() + (s.class_table.len() & 1);
    // the state array is read up to the end of the subtable; put the entry table and the
    // substitution tables *before* it so that rows stay rows
    let mut entries = W::new();
    for i in 0..n_entries {
        let flags: u16 = match rng.below(6) {
            0 => 0x8000,
            1 => 0x4000,
            2 => 0xC000,
            3 if wild => rng.u16(),
            _ => 0,
        };
        let idx = |rng: &mut Rng| -> u16 {
            if i == 0 || rng.chance(1, 3) {
                0xFFFF
            } else if wild && rng.chance(1, 6) {
                *rng.pick(&[n_subst as u16, 0x7FFF, 0xFFFE])
            } else {
                rng.below(n_subst) as u16
            }
        };
        let ns = if i == 0 { 0 } else { next_state(rng, s.states.len(), wild) };
        let (m, c) = (idx(rng), idx(rng));
        entries.u16(ns).u16(flags).u16(m).u16(c);
    }
    let mut subst = W::new();
    let tables: Vec<Vec<u8>> = (0..n_subst).map(|_| lookup_table(rng, hot, n, wild, |rng| gid(rng, hot, n, wild))).collect();
    let mut at = 4 * n_subst;
    for tb in &tables {
        subst.u32(at as u32);
        at += tb.len();
    }
    for tb in &tables {
        subst.bytes(tb);
    }
    // layout: header | class table | entry table | substitution tables | state array
    let entry_at = state_at;
    let subst_at = entry_at + entries.len();
    let state_at = subst_at + subst.len() + (subst.len() & 1);
    w.u32(class_at as u32).u32(state_at as u32).u32(entry_at as u32).u32(subst_at as u32);
    w.bytes(&s.class_table);
    if w.len() & 1 == 1 {
        w.u8(0);
    }
    w.bytes(&entries.b).bytes(&subst.b);
    if w.len() & 1 == 1 {
        w.u8(0);
    }
    for row in &s.states {
        for v in row {
            w.u16(*v);
        }
    }
    w.b
}

fn ligature(rng: &mut Rng, hot: &[u16], n: u16, wild: bool) -> Vec<u8> {
    let n_entries = 2 + rng.below(5);
    let s = stx(rng, hot, n, wild, n_entries);
    let n_actions = 2 + rng.below(6);
    let n_components = 2 + rng.below(10);
    let n_ligs = 1 + rng.below(6);
    let mut entries = W::new();
    for i in 0..n_entries {
        let flags: u16 = match rng.below(7) {
            0 => 0x8000,
            1 => 0x2000,
            2 => 0xA000,
            3 => 0x4000,
            4 => 0xE000,
            5 if wild => rng.u16(),
            _ => 0x8000,
        };
        let ns = if i == 0 { 0 } else { next_state(rng, s.states.len(), wild) };
        let ai = if wild && rng.chance(1, 6) { *rng.pick(&[n_actions as u16, 0xFFFF]) } else { rng.below(n_actions) as u16 };
        entries.u16(ns).u16(if i == 0 { 0 } else { flags }).u16(ai);
    }
    let mut actions = W::new();
    for i in 0..n_actions {
        let mut a: u32 = 0;
        if i + 1 == n_actions || rng.chance(1, 3) {
            a |= 0x8000_0000;
        }
        if rng.chance(1, 2) {
            a |= 0x4000_0000;
        }
        // offset: component index = glyph id + offset (30-bit signed)
        let g = *rng.pick(hot) as i32;
        let off: i32 = if wild && rng.chance(1, 5) { *rng.pick(&[0x1FFF_FFFF, -0x2000_0000, -1, 70000]) } else { rng.below(n_components) as i32 - g };
        a |= (off as u32) & 0x3FFF_FFFF;
        actions.u32(a);
    }
    let mut comps = W::new();
    for _ in 0..n_components {
        comps.u16(if wild && rng.chance(1, 6) { rng.u16() } else { rng.below(n_ligs) as u16 });
    }
    let mut ligs = W::new();
    for _ in 0..n_ligs {
        ligs.u16(gid(rng, hot, n, wild));
    }
    let hdr = 28;
    let class_at = hdr;
    let entry_at = class_at + s.class_table.len() + (s.class_table.len() & 1);
    let action_at = entry_at + entries.len();
    // component table and ligature list are read to the end of the subtable as well
    let state_at = action_at + actions.len();
    let state_len = s.states.len() * s.n_classes as usize * 2;
    let comp_at = state_at + state_len;
    let lig_at = comp_at + comps.len();
    let mut w = W::new();
    w.u32(s.n_classes).u32(class_at as u32).u32(state_at as u32).u32(entry_at as u32).u32(action_at as u32).u32(comp_at as u32).u32(lig_at as u32);
    w.bytes(&s.class_table);
    if w.len() & 1 == 1 {
        w.u8(0);
    }
    w.bytes(&entries.b).bytes(&actions.b);
    for row in &s.states {
        for v in row {
            w.u16(*v);
        }
    }
    w.bytes(&comps.b).bytes(&ligs.b);
    w.b
}

pub fn gen_morx(rng: &mut Rng, hot: &[u16], n: u16, wild: bool) -> Vec<u8> {
    let mut w = W::new();
    let n_chains = 1 + rng.below(2);
    w.u16(if rng.chance(1, 4) { 3 } else { 2 }).u16(0).u32(n_chains as u32);
    for _ in 0..n_chains {
        let feats: &[(u16, u16)] = &[(1, 2), (1, 3), (1, 18), (21, 0), (21, 1), (6, 0), (11, 2), (11, 1), (11, 0), (14, 4), (37, 1), (38, 1), (10, 3), (99, 99)];
        let nf = rng.below(4);
        let ns = 1 + rng.below(4);
        let mut body = W::new();
        for _ in 0..nf {
            let (ft, fs) = *rng.pick(feats);
            body.u16(ft).u16(fs).u32(if rng.bool() { 0xFFFF_FFFF } else { rng.u32() }).u32(if rng.bool() { 0xFFFF_FFFF } else { rng.u32() });
        }
        for _ in 0..ns {
            let ty = *rng.pick(&[1u32, 1, 2, 2, 4, 4, 0, 5]);
            let sub = match ty {
                1 => contextual(rng, hot, n, wild),
                2 => ligature(rng, hot, n, wild),
                4 => lookup_table(rng, hot, n, wild, |rng| gid(rng, hot, n, wild)),
                _ => {
                    let k = rng.below(40);
                    rng.bytes(k)
                }
            };
            let mut sub = sub;
            while sub.len() % 4 != 0 {
                sub.push(0);
            }
            let cov_flags = *rng.pick(&[0u32, 0, 0x2000_0000, 0x8000_0000, 0x4000_0000, 0x1000_0000, 0x5000_0000]);
            let ty_field = if wild && rng.chance(1, 10) { *rng.pick(&[3u32, 6, 0xFF]) } else { ty };
            let length = if wild && rng.chance(1, 10) { *rng.pick(&[0u32, 11, 12, sub.len() as u32, 0xFFFF_FFFF]) } else { 12 + sub.len() as u32 };
            body.u32(length).u32(cov_flags | ty_field).u32(if rng.chance(3, 4) { 0xFFFF_FFFF } else { 1 << rng.below(32) });
            body.bytes(&sub);
        }
        let default_flags = if rng.chance(3, 4) { 0xFFFF_FFFF } else { rng.u32() };
        let chain_len = 16 + body.len() as u32;
        w.u32(default_flags).u32(if wild && rng.chance(1, 10) { chain_len.wrapping_add(*rng.pick(&[1u32, 4, 0xFFFF_FFF0])) } else { chain_len }).u32(nf as u32).u32(ns as u32);
        w.bytes(&body.b);
    }
    w.b
}

pub fn gen_kern(rng: &mut Rng, hot: &[u16], n: u16, wild: bool) -> Vec<u8> {
    let mut w = W::new();
    let nt = 1 + rng.below(2);
    w.u16(0).u16(nt as u16);
    for _ in 0..nt {
        if rng.chance(3, 4) {
            let mut pairs: Vec<(u16, u16, i16)> = Vec::new();
            for _ in 0..rng.below(20) {
                let v = match rng.below(6) {
                    0 => *rng.pick(&[i16::MAX, i16::MIN]),
                    _ => rng.range(-500, 500) as i16,
                };
                pairs.push((gid(rng, hot, n, wild), gid(rng, hot, n, wild), v));
            }
            if !wild || rng.chance(3, 4) {
                pairs.sort();
                pairs.dedup_by_key(|p| (p.0, p.1));
            }
            let (sr, es, rs) = crate::sfnt::search_fields(pairs.len() as u16, 6);
            let cov: u16 = *rng.pick(&[0x0001u16, 0x0001, 0x0003, 0x0005, 0x0009, 0x0000]);
            let len = 14 + 6 * pairs.len();
            w.u16(0).u16(if wild && rng.chance(1, 6) { rng.u16() } else { len as u16 }).u16(cov);
            w.u16(if wild && rng.chance(1, 6) { pairs.len() as u16 + 1 } else { pairs.len() as u16 }).u16(sr).u16(es).u16(rs);
            for p in pairs {
                w.u16(p.0).u16(p.1).i16(p.2);
            }
        } else {
            // format 2: class tables + 2D array
            let start = w.len();
            let (lc, rc) = (1 + rng.below(3), 1 + rng.below(3));
            let row_width = (rc * 2) as u16;
            let first = hot.iter().copied().min().unwrap_or(0);
            let last = hot.iter().copied().max().unwrap_or(0);
            let count = (last - first + 1).min(300) as usize;
            let hdr = 6 + 8;
            let left_at = hdr;
            let right_at = left_at + 4 + 2 * count;
            let array_at = right_at + 4 + 2 * count;
            let total = array_at + lc * rc * 2;
            w.u16(0).u16(total as u16).u16(0x0201);
            w.u16(row_width).u16(left_at as u16).u16(right_at as u16).u16(array_at as u16);
            // left class values are byte offsets of rows (pre-multiplied), right ones of columns
            w.u16(first).u16(count as u16);
            for _ in 0..count {
                let v = if wild && rng.chance(1, 8) { rng.u16() } else { (array_at + rng.below(lc) * row_width as usize) as u16 };
                w.u16(v);
            }
            w.u16(first).u16(count as u16);
            for _ in 0..count {
                let v = if wild && rng.chance(1, 8) { rng.u16() } else { (rng.below(rc) * 2) as u16 };
                w.u16(v);
            }
            for _ in 0..lc * rc {
                w.i16(rng.range(-300, 300) as i16);
            }
            debug_assert_eq!(w.len() - start, total);
        }
    }
    w.b
}
