//! C02: version 0 `kern` tables whose kerning comes from FORMAT 2 (class based) sub-tables, next to
//! ordinary format 0 ones. Independent of allsorts.
//!
//! A format 2 sub-table is: the 6-byte sub-table header (version, length, coverage = 0x02xx),
//! rowWidth, leftClassTable, rightClassTable, array (three offsets from the start of the
//! sub-table), two class tables (firstGlyph, nGlyphs, nGlyphs values) and the kerning array. Class
//! values are byte offsets: left ones pre-multiplied by the row width, right ones by two, so that
//! left + right is the position of the kerning value in the array. The format has no row count; the
//! extent of the array that follows from the header fields alone is rowWidth x nGlyphs(right) bytes
//! ("array size" below). Nothing forces a class value to stay inside it.
//!
//! The generator writes well-formed sub-tables and hostile ones: class values whose sum for some
//! pair of glyphs is exactly the array size, the size minus one (one byte left), plus one, the last
//! valid position, odd, 0, 0xFFFF; row widths of 0 / 1 / odd / 0xFFFF; class tables whose
//! firstGlyph / nGlyphs are out of range or overhang the table; class table and array offsets that
//! point at the end of the table, beyond it, into the headers or at each other.
//!
//! `Kern2` is the generator's own description of what it wrote. It is used (a) to build texts that
//! contain ADJACENT pairs of the glyphs the class tables talk about and (b) to count, for the run
//! that is submitted to `shape`, which kind of position every adjacent pair selects (event classes
//! only; no verdict depends on it).

use crate::rt::Rng;
use crate::sfnt::W;

/// One class table as written.
#[derive(Clone, Debug)]
pub struct Tab {
    pub first: u16,
    /// the nGlyphs field
    pub declared: u16,
    /// the values actually written behind it
    pub values: Vec<u16>,
}

impl Tab {
    /// class value of `g`: Some(v) when the table covers it
    pub fn get(&self, g: u16) -> Option<u16> {
        let i = g.checked_sub(self.first)? as usize;
        if i < self.declared as usize {
            self.values.get(i).copied()
        } else {
            None
        }
    }
}

#[derive(Clone, Debug)]
pub struct Sub2 {
    /// coverage flags (low byte)
    pub cov: u16,
    pub row_width: u16,
    pub left: Tab,
    pub right: Tab,
    /// the bytes written at the array position (values, then slack up to the array size)
    pub array: Vec<u8>,
    /// the class tables and the array a reader finds through the header are the ones described
    /// here (no hostile offset, no nGlyphs beyond the values written)
    pub known: bool,
    /// every structure the header declares (both class tables, rowWidth x nGlyphs(right) bytes of
    /// array) lies inside the `kern` table
    pub sound: bool,
}

/// Where the sum of the class values of a pair lands.
#[derive(Copy, Clone, PartialEq, Eq, Debug)]
pub enum Landing {
    /// one of the glyphs has no class value
    NotCovered,
    /// two bytes are available at the position (`odd` = not aligned to a value)
    Inside { odd: bool, value: i16 },
    /// position == array size: nothing behind it
    AtEnd,
    /// position == array size - 1: one byte behind it
    LastByte,
    Past,
}

impl Sub2 {
    pub fn array_size(&self) -> usize {
        self.row_width as usize * self.right.declared as usize
    }
    pub fn landing(&self, l: u16, r: u16) -> Landing {
        let (lc, rc) = match (self.left.get(l), self.right.get(r)) {
            (Some(a), Some(b)) => (a as usize, b as usize),
            _ => return Landing::NotCovered,
        };
        let (off, size) = (lc + rc, self.array_size());
        if off + 2 <= size {
            let value = match (self.array.get(off), self.array.get(off + 1)) {
                (Some(a), Some(b)) => i16::from_be_bytes([*a, *b]),
                _ => 0,
            };
            Landing::Inside { odd: off & 1 == 1, value }
        } else if off == size {
            Landing::AtEnd
        } else if off + 1 == size {
            Landing::LastByte
        } else {
            Landing::Past
        }
    }
}

pub struct Kern2 {
    pub bytes: Vec<u8>,
    /// the format 2 sub-tables in table order
    pub subs: Vec<Sub2>,
    pub format0: usize,
    /// format 0 pairs with a non-zero value in horizontal, not cross-stream sub-tables
    pub pairs0: Vec<(u16, u16)>,
    /// the only format 2 sub-table is the last sub-table, so readers that walk the sub-tables by
    /// their length fields and readers that walk them by what they consumed agree on where it is
    pub format2_last: bool,
    /// event classes describing what was generated
    pub what: Vec<&'static str>,
}

impl Kern2 {
    /// The format 2 sub-table every reader must get to look pairs up in: all sub-tables are where
    /// their headers say, every structure lies inside the table, the class values are the ones
    /// described, the sub-table is horizontal and not cross-stream.
    pub fn certain(&self) -> Option<&Sub2> {
        if !self.format2_last || self.subs.len() != 1 {
            return None;
        }
        let s = &self.subs[0];
        if s.sound && s.known && s.cov & 1 == 1 && s.cov & 4 == 0 {
            Some(s)
        } else {
            None
        }
    }
}

const COVS: &[u16] = &[0x01, 0x01, 0x01, 0x01, 0x01, 0x03, 0x09, 0x05, 0x00, 0x0B];

fn kern_value(rng: &mut Rng) -> i16 {
    match rng.below(10) {
        0 => *rng.pick(&[i16::MAX, i16::MIN, -1, 1]),
        1 => 0,
        _ => {
            let v = rng.range(-600, 600) as i16;
            if v == 0 {
                -50
            } else {
                v
            }
        }
    }
}

fn format0(rng: &mut Rng, w: &mut W, hot: &[u16], n: u16, pairs0: &mut Vec<(u16, u16)>) {
    let mut pairs: Vec<(u16, u16, i16)> = Vec::new();
    for _ in 0..rng.below(12) {
        let g = |rng: &mut Rng| if rng.chance(5, 6) { *rng.pick(hot) } else { rng.below(n.max(1) as usize) as u16 };
        pairs.push((g(rng), g(rng), kern_value(rng)));
    }
    pairs.sort();
    pairs.dedup_by_key(|p| (p.0, p.1));
    let cov = *rng.pick(COVS);
    let (sr, es, rs) = crate::sfnt::search_fields(pairs.len() as u16, 6);
    w.u16(0).u16((14 + 6 * pairs.len()) as u16).u16(cov);
    w.u16(pairs.len() as u16).u16(sr).u16(es).u16(rs);
    for p in &pairs {
        w.u16(p.0).u16(p.1).i16(p.2);
        if cov & 1 == 1 && cov & 4 == 0 && p.2 != 0 {
            pairs0.push((p.0, p.1));
        }
    }
}

/// hostile 16-bit value for a class entry
fn wild_class(rng: &mut Rng, size: usize, row_width: u16) -> u16 {
    match rng.below(12) {
        0 => 0,
        1 => 1,
        2 => 0xFFFF,
        3 => 0xFFFE,
        4 => 0x8000,
        5 => 0x7FFF,
        6 => size as u16,
        7 => size.wrapping_sub(1) as u16,
        8 => size.wrapping_add(1) as u16,
        9 => row_width.wrapping_add(1),
        10 => (rng.below(size.max(1)) | 1) as u16,
        _ => rng.u16(),
    }
}

/// The modes of a format 2 sub-table.
const MODES: &[&str] = &["wellformed", "wellformed", "target", "target", "target", "target", "wild-classes", "row-width", "class-table-range", "offsets"];

/// Appends one format 2 sub-table to `w`.
fn format2(rng: &mut Rng, w: &mut W, hot: &[u16], n: u16, what: &mut Vec<&'static str>) -> Placed {
    let start = w.len();
    let mode = *rng.pick(MODES);
    let (rows, cols) = (1 + rng.below(4), 1 + rng.below(4));
    let mut row_width = (2 * cols) as u16;
    if mode == "row-width" {
        row_width = *rng.pick(&[0u16, 0, 1, 3, (2 * cols + 1) as u16, (2 * cols - 1) as u16, 0xFFFF, 0x8000, 2]);
        what.push(if row_width == 0 { "kern2:gen:row-width-0" } else { "kern2:gen:row-width-hostile" });
    }
    // class tables: a span of glyph ids around the hot glyphs
    let lo = hot.iter().copied().min().unwrap_or(1);
    let hi = hot.iter().copied().max().unwrap_or(1);
    let span = ((hi - lo) as usize + 1).min(1200);
    let mk_tab = |rng: &mut Rng| -> Tab {
        let first = if rng.chance(1, 4) { lo.saturating_sub(rng.below(2) as u16) } else { lo };
        let len = if rng.chance(1, 6) && span > 1 { 1 + rng.below(span) } else { span + (lo - first) as usize };
        Tab { first, declared: len as u16, values: vec![0; len] }
    };
    let mut left = mk_tab(rng);
    let mut right = mk_tab(rng);
    let size = row_width as usize * right.declared as usize;
    let spec = rows * row_width as usize;
    // ---- class values ----
    let wf_left = |rng: &mut Rng| (rng.below(rows) * row_width as usize) as u16;
    let wf_right = |rng: &mut Rng| (rng.below(cols) * 2) as u16;
    // the pair of values (a, b) with a + b == target
    let mut target: Option<(u16, u16)> = None;
    if mode == "target" || (mode == "row-width" && rng.bool()) {
        let t: i64 = match rng.below(10) {
            0 | 1 | 2 => size as i64,
            3 | 4 => size as i64 - 1,
            5 => size as i64 + 1,
            6 => size as i64 - 2,
            7 => spec as i64,
            8 => spec as i64 - 1,
            _ => spec as i64 + 1,
        };
        if (0..=0x1FFFE).contains(&t) {
            let t = t as usize;
            let a_lo = t.saturating_sub(0xFFFF);
            let a_hi = t.min(0xFFFF);
            let a = match rng.below(6) {
                0 => a_lo,
                1 => a_hi,
                2 => (rng.below(rows) * row_width as usize).clamp(a_lo, a_hi),
                3 => t.saturating_sub(2 * rng.below(cols)).clamp(a_lo, a_hi),
                4 => (t / 2).clamp(a_lo, a_hi),
                _ => a_lo + rng.below(a_hi - a_lo + 1),
            };
            target = Some((a as u16, (t - a) as u16));
            what.push("kern2:gen:class-values-aimed-at-array-boundary");
        }
    }
    for tab_is_left in [true, false] {
        let tab = if tab_is_left { &mut left } else { &mut right };
        for i in 0..tab.values.len() {
            let g = tab.first as u32 + i as u32;
            let is_hot = g <= 0xFFFF && hot.contains(&(g as u16));
            let wf = if tab_is_left { wf_left(rng) } else { wf_right(rng) };
            tab.values[i] = if !is_hot {
                // class 0 ("no kerning") for the glyphs in between, now and then something else
                if mode == "wild-classes" && rng.chance(1, 20) {
                    wild_class(rng, size, row_width)
                } else {
                    0
                }
            } else {
                match (mode, target) {
                    (_, Some((a, b))) if rng.chance(3, 5) => {
                        if tab_is_left {
                            a
                        } else {
                            b
                        }
                    }
                    ("wild-classes", _) if rng.chance(2, 3) => wild_class(rng, size, row_width),
                    _ => wf,
                }
            };
        }
    }
    if mode == "wild-classes" {
        what.push("kern2:gen:class-values-wild");
    }
    // ---- class table ranges ----
    let mut known = true;
    if mode == "class-table-range" {
        let tab = if rng.bool() { &mut left } else { &mut right };
        match rng.below(8) {
            0 => tab.first = 0xFFFF,
            1 => tab.first = n,
            2 => tab.first = n.saturating_sub(1),
            3 => tab.first = 0xFFFF - (tab.declared.saturating_sub(1)) / 2, // first + nGlyphs beyond 0xFFFF
            4 => tab.declared = 0,
            5 => {
                tab.declared = tab.declared.saturating_add(1 + rng.below(3) as u16);
                known = false;
            }
            6 => {
                tab.declared = *rng.pick(&[0xFFFF, 0x8000, 0x7FFF]);
                known = false;
            }
            _ => tab.declared = tab.declared.saturating_sub(1),
        }
        what.push("kern2:gen:class-table-range-hostile");
    }
    // ---- layout ----
    let left_nat = 14;
    let right_nat = left_nat + 4 + 2 * left.values.len();
    let array_nat = right_nat + 4 + 2 * right.values.len();
    let mut array: Vec<u8> = Vec::new();
    for r in 0..rows {
        for c in 0..cols {
            // row 0 / column 0 belong to class 0 = "no kerning"
            let v = if (r == 0 || c == 0) && rng.chance(3, 4) { 0 } else { kern_value(rng) };
            array.extend_from_slice(&v.to_be_bytes());
        }
    }
    // slack up to the array size that follows from the header, so that a reader bounding the array
    // by rowWidth x nGlyphs(right) finds it inside the table ("tight": only the rows x cols values)
    let size_now = row_width as usize * right.declared as usize;
    let tight = rng.chance(1, 6);
    if tight {
        what.push("kern2:gen:array-without-slack");
    } else if size_now <= 24_000 {
        while array.len() < size_now {
            // mostly zero, some values: positions past rows x cols are still inside the array size
            array.push(if rng.chance(1, 16) { rng.u8() } else { 0 });
        }
    }
    if !tight && size_now < array.len() && rng.chance(2, 3) {
        // the array exactly as long as its size says (fewer right glyphs than columns, row width 0 ...)
        array.truncate(size_now);
    }
    let (mut left_off, mut right_off, mut array_off) = (left_nat, right_nat, array_nat);
    let total = array_nat + array.len();
    if mode == "offsets" {
        let end = total; // the sub-table is the last thing in the table unless something follows
        let v = match rng.below(16) {
            0 => 0,
            1 => 1,
            2 => 6,
            3 => 13,
            4 => 15,
            5 => end,
            6 => end.saturating_sub(1),
            7 => end.saturating_sub(2),
            8 => end.saturating_sub(4),
            9 => end + 1,
            10 => 0xFFFF,
            11 => 0x8000,
            12 => left_nat,
            13 => right_nat,
            14 => array_nat,
            _ => rng.below(end + 4),
        };
        let which = rng.below(3);
        let slot = match which {
            0 => &mut left_off,
            1 => &mut right_off,
            _ => &mut array_off,
        };
        if *slot != v.min(0xFFFF) {
            known = false;
        }
        *slot = v.min(0xFFFF);
        what.push(match which {
            0 => "kern2:gen:left-class-table-offset-hostile",
            1 => "kern2:gen:right-class-table-offset-hostile",
            _ => "kern2:gen:array-offset-hostile",
        });
    }
    let cov = *rng.pick(COVS);
    let length = match rng.below(12) {
        0 => 0,
        1 => 0xFFFF,
        2 => 14,
        _ => total.min(0xFFFF) as u16,
    };
    w.u16(0).u16(length).u16(0x0200 | cov);
    w.u16(row_width).u16(left_off as u16).u16(right_off as u16).u16(array_off as u16);
    for tab in [&left, &right] {
        w.u16(tab.first).u16(tab.declared);
        for v in &tab.values {
            w.u16(*v);
        }
    }
    w.bytes(&array);
    debug_assert_eq!(w.len() - start, total);
    if total > 0xFFFF {
        // offsets are 16 bit: cannot be described
        known = false;
    }
    what.push(match mode {
        "wellformed" => "kern2:gen:wellformed",
        "target" => "kern2:gen:target",
        "wild-classes" => "kern2:gen:wild-classes",
        "row-width" => "kern2:gen:row-width",
        "class-table-range" => "kern2:gen:class-table-range",
        _ => "kern2:gen:offsets",
    });
    if left.declared as usize > left.values.len() || right.declared as usize > right.values.len() {
        known = false;
    }
    // soundness is judged by the caller once the whole table is there (it needs the table length)
    Sub2 { cov, row_width, left, right, array, known, sound: false }.with_layout(start, left_off, right_off, array_off, length as usize == total)
}

/// (start, left, right, array offsets) kept next to the description until soundness is computed
pub struct Placed {
    pub sub: Sub2,
    start: usize,
    left_off: usize,
    right_off: usize,
    array_off: usize,
    /// the length field is the length of the sub-table
    length_ok: bool,
}

impl Sub2 {
    fn with_layout(self, start: usize, left_off: usize, right_off: usize, array_off: usize, length_ok: bool) -> Placed {
        Placed { sub: self, start, left_off, right_off, array_off, length_ok }
    }
}

/// `hot`: the glyphs the class tables (and the format 0 pairs) talk about; `n`: glyph count.
pub fn gen(rng: &mut Rng, hot: &[u16], n: u16) -> Kern2 {
    let mut w = W::new();
    let mut what: Vec<&'static str> = Vec::new();
    let mut pairs0 = Vec::new();
    // sub-table plan: format 0 ones in front, the format 2 one last (both conventions of walking
    // the sub-tables agree); now and then something behind the format 2 sub-table
    let n0 = *rng.pick(&[0usize, 0, 0, 1, 1, 2]);
    let after = if rng.chance(1, 6) { 1 + rng.below(2) } else { 0 };
    let declared_tables = (n0 + 1 + after) as u16;
    let n_tables = match rng.below(16) {
        0 => declared_tables + 1, // one more than there are
        1 if declared_tables > 1 => declared_tables - 1,
        _ => declared_tables,
    };
    w.u16(0).u16(n_tables);
    for _ in 0..n0 {
        format0(rng, &mut w, hot, n, &mut pairs0);
    }
    let mut placed = vec![format2(rng, &mut w, hot, n, &mut what)];
    for _ in 0..after {
        if rng.bool() {
            format0(rng, &mut w, hot, n, &mut Vec::new());
        } else {
            let mut scratch = Vec::new();
            placed.push(format2(rng, &mut w, hot, n, &mut scratch));
        }
    }
    if after > 0 {
        what.push("kern2:gen:format2-not-last");
    }
    if n0 > 0 {
        what.push("kern2:gen:format0-in-front");
    }
    if rng.chance(1, 8) {
        // bytes behind the last sub-table: the end of the array is then not the end of the table
        for _ in 0..1 + rng.below(4) {
            w.u8(rng.u8());
        }
        what.push("kern2:gen:trailing-bytes");
    }
    let table_len = w.len();
    let format2_last = after == 0 && n_tables == declared_tables;
    let subs: Vec<Sub2> = placed
        .into_iter()
        .map(|p| {
            let avail = table_len - p.start;
            let tab_ok = |off: usize, t: &Tab| off + 4 + 2 * t.declared as usize <= avail;
            let mut s = p.sub;
            let array_ok = p.array_off + s.array_size() <= avail;
            s.sound = tab_ok(p.left_off, &s.left) && tab_ok(p.right_off, &s.right) && array_ok && p.length_ok;
            if !p.length_ok {
                what.push("kern2:gen:length-field-hostile");
            }
            if s.sound && p.start + p.array_off + s.array_size() == table_len {
                what.push("kern2:gen:array-ends-at-table-end");
            }
            if !array_ok {
                what.push("kern2:gen:array-beyond-table");
            }
            if !tab_ok(p.left_off, &s.left) || !tab_ok(p.right_off, &s.right) {
                what.push("kern2:gen:class-table-beyond-table");
            }
            s
        })
        .collect();
    Kern2 { bytes: w.b, subs, format0: n0, pairs0, format2_last, what }
}

/// A GPOS-free description of what the pairs of `run` select in the format 2 sub-table that every
/// reader must reach; returns the event classes (suffix-less) to count.
pub fn pair_classes(k: &Kern2, run: &[u16]) -> Vec<&'static str> {
    let mut out = Vec::new();
    let s = match k.certain() {
        Some(s) => s,
        None => return out,
    };
    for p in run.windows(2) {
        out.push(match s.landing(p[0], p[1]) {
            Landing::NotCovered => "pair-not-covered",
            Landing::Inside { odd: true, .. } => "pair-looked-up-at-odd-offset",
            Landing::Inside { odd: false, .. } => "pair-looked-up-inside-array",
            Landing::AtEnd => "pair-looked-up-at-array-end",
            Landing::LastByte => "pair-looked-up-at-array-last-byte",
            Landing::Past => "pair-looked-up-past-array-end",
        });
    }
    out
}

/// Positions i of `run` where the certain format 2 sub-table holds a non-zero value for
/// (run[i], run[i+1]) and no format 0 sub-table has the pair (so the value cannot cancel).
pub fn valued_pairs(k: &Kern2, run: &[u16]) -> Vec<usize> {
    let s = match k.certain() {
        Some(s) if s.cov & 0x0A == 0 => s,
        _ => return Vec::new(),
    };
    (0..run.len().saturating_sub(1))
        .filter(|&i| matches!(s.landing(run[i], run[i + 1]), Landing::Inside { value, .. } if value != 0) && !k.pairs0.contains(&(run[i], run[i + 1])))
        .collect()
}
