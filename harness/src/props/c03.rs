//! C03 — (stub, under construction)

use super::Prop;
use crate::rt::*;

pub struct C03 {}

impl C03 {
    pub fn new(_cx: &mut Ctx) -> C03 {
        C03 {}
    }
}

impl Prop for C03 {
    fn case(&mut self, cx: &mut Ctx, _rng: &mut Rng) {
        cx.inconclusive("not-implemented");
    }
}
