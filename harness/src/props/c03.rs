//! C03 — results depend only on the arguments, not on earlier calls.
//!
//! History monitor with a fresh-object model: a random history of 2-40 operations over a small
//! pool of scripts / languages / feature sets / tuples / texts is run on ONE long-lived
//! `allsorts::Font`; every operation's result (rendered canonically) is compared with the same call
//! on a `Font` created from the same bytes for that single call. Pure operations (subset,
//! whole_font, prince subset, instance, WOFF/WOFF2 table decoding, preprocess_text) are repeated
//! in-process and compared byte for byte (see c03_pure.rs).

#[path = "c04_gen.rs"]
#[allow(dead_code)]
mod g4c;
#[path = "c03_gen.rs"]
pub mod c03_gen;
#[path = "c03_outline.rs"]
pub mod c03_outline;
#[path = "c03_pure.rs"]
pub mod c03_pure;

use super::Prop;
use crate::rt::*;
use crate::sfnt::{be16, tag, tag_str};
use allsorts::binary::read::ReadScope;
use allsorts::bitmap::{BitDepth, Bitmap, BitmapGlyph};
use allsorts::font::{Font, MatchingPresentation};
use allsorts::font_data::{DynamicFontTableProvider, FontData};
use allsorts::glyph_position::{GlyphLayout, TextDirection};
use allsorts::gpos::Info;
use allsorts::gsub::{FeatureInfo, FeatureMask, Features, RawGlyph};
use allsorts::tables::variable_fonts::avar::AvarTable;
use allsorts::tables::variable_fonts::fvar::{FvarTable, OwnedTuple};
use allsorts::tables::{F2Dot14, Fixed, FontTableProvider};
use allsorts::unicode::VariationSelector;
use c03_gen::GenFont;
use std::cell::RefCell;
use std::collections::{BTreeMap, HashMap};
use std::panic::{self, AssertUnwindSafe};

pub type AFont<'a> = Font<DynamicFontTableProvider<'a>>;

thread_local! {
    /// Image-table filter every `Font` of the running case is configured with right after loading
    /// (0 = the library default). `set_embedded_image_filter` is configuration, not a query: it is
    /// applied identically to the long-lived font and to every fresh font.
    static IMAGE_FILTER: std::cell::Cell<u8> = std::cell::Cell::new(0);
}

pub fn load_font(bytes: &[u8]) -> Option<AFont<'_>> {
    let fd = ReadScope::new(bytes).read::<FontData<'_>>().ok()?;
    let p = fd.table_provider(0).ok()?;
    let mut f = Font::new(p).ok()?;
    let bits = IMAGE_FILTER.with(|c| c.get());
    if bits != 0 {
        f.set_embedded_image_filter(allsorts::font::GlyphTableFlags::from_bits_truncate(bits));
    }
    Some(f)
}

// ---- operations ---------------------------------------------------------------------------------

#[derive(Clone, Debug, PartialEq)]
pub enum Feat {
    Mask(u64),
    Custom(Vec<(u32, Option<usize>)>),
}

impl Feat {
    fn to_features(&self) -> Features {
        match self {
            Feat::Mask(b) => Features::Mask(FeatureMask::from_bits_truncate(*b)),
            Feat::Custom(v) => Features::Custom(v.iter().map(|(t, a)| FeatureInfo { feature_tag: *t, alternate: *a }).collect()),
        }
    }
    fn label(&self) -> String {
        match self {
            Feat::Mask(b) => format!("Mask({:#x})", b),
            Feat::Custom(v) => format!("Custom({})", v.iter().map(|(t, a)| format!("{}{}", tag_str(*t), a.map_or(String::new(), |a| format!("={}", a)))).collect::<Vec<_>>().join(",")),
        }
    }
}

#[derive(Clone, Debug, PartialEq)]
pub struct ShapeArgs {
    pub text: String,
    pub script: u32,
    pub lang: Option<u32>,
    pub feat: Feat,
    pub tuple: Option<usize>,
    pub kerning: bool,
}

#[derive(Copy, Clone, Debug, PartialEq)]
pub enum Q {
    HasImages,
    Gdef,
    Morx,
    Kern,
    Vhea,
    GsubCache,
    GposCache,
    AxisNames,
    VariationAxes,
    IsVariable,
    NumGlyphs,
    HasOutlines,
    Os2,
    CmapData,
}
const QUERIES: &[Q] = &[
    Q::HasImages,
    Q::Gdef,
    Q::Morx,
    Q::Kern,
    Q::Vhea,
    Q::GsubCache,
    Q::GposCache,
    Q::AxisNames,
    Q::VariationAxes,
    Q::IsVariable,
    Q::NumGlyphs,
    Q::HasOutlines,
    Q::Os2,
    Q::CmapData,
];

#[derive(Clone, Debug, PartialEq)]
pub enum Op {
    Map { text: String, script: u32, required: bool },
    Lookup { ch: char, required: bool, vs: Option<u8> },
    Shape(ShapeArgs),
    Positions { sh: ShapeArgs, rtl: bool, vertical: bool },
    HAdv(u16),
    VAdv(u16),
    Names(Vec<u16>),
    Image { gid: u16, ppem: u16, depth: u8 },
    Supported { script: u32, lang: Option<u32>, mask: u64 },
    Query(Q),
}

const DOTTED_CIRCLE: char = '\u{25CC}';

impl Op {
    pub fn kind(&self) -> &'static str {
        match self {
            Op::Map { .. } => "map_glyphs",
            Op::Lookup { .. } => "lookup_glyph_index",
            Op::Shape(_) => "shape",
            Op::Positions { .. } => "glyph_positions",
            Op::HAdv(_) => "horizontal_advance",
            Op::VAdv(_) => "vertical_advance",
            Op::Names(_) => "glyph_names",
            Op::Image { .. } => "lookup_glyph_image",
            Op::Supported { .. } => "features_supported",
            Op::Query(_) => "query",
        }
    }
    /// kind refined by what makes the call special (stable, no case-specific values)
    pub fn kind_refined(&self) -> String {
        match self {
            Op::Lookup { ch, .. } if *ch == DOTTED_CIRCLE => "lookup_glyph_index(dotted-circle)".to_string(),
            Op::Map { text, .. } if text.contains(DOTTED_CIRCLE) => "map_glyphs(dotted-circle)".to_string(),
            Op::Query(q) => format!("query({:?})", q),
            _ => self.kind().to_string(),
        }
    }
    pub fn label(&self) -> String {
        let sh = |s: &ShapeArgs| {
            format!(
                "text={:?} script={} lang={} features={} tuple={:?} kerning={}",
                s.text,
                tag_str(s.script),
                s.lang.map_or("None".to_string(), tag_str),
                s.feat.label(),
                s.tuple,
                s.kerning
            )
        };
        match self {
            Op::Map { text, script, required } => format!("map_glyphs(text={:?}, script={}, required={})", text, tag_str(*script), required),
            Op::Lookup { ch, required, vs } => format!("lookup_glyph_index(U+{:04X}, required={}, vs={:?})", *ch as u32, required, vs),
            Op::Shape(s) => format!("shape({})", sh(s)),
            Op::Positions { sh: s, rtl, vertical } => format!("glyph_positions(infos of fresh shape({}), rtl={}, vertical={})", sh(s), rtl, vertical),
            Op::HAdv(g) => format!("horizontal_advance({})", g),
            Op::VAdv(g) => format!("vertical_advance({})", g),
            Op::Names(ids) => format!("glyph_names({:?})", ids),
            Op::Image { gid, ppem, depth } => format!("lookup_glyph_image({}, {}, {})", gid, ppem, depth),
            Op::Supported { script, lang, mask } => format!("features_supported({}, {}, {:#x})", tag_str(*script), lang.map_or("None".to_string(), tag_str), mask),
            Op::Query(q) => format!("{:?}", q),
        }
    }
    /// Names of the argument fields (for minimising the difference between two calls).
    fn fields(&self) -> &'static [&'static str] {
        match self {
            Op::Map { .. } => &["text", "script", "presentation"],
            Op::Lookup { .. } => &["char", "presentation", "vs"],
            Op::Shape(_) => &["text", "script", "lang", "features", "tuple", "kerning"],
            Op::Positions { .. } => &["text", "script", "lang", "features", "tuple", "kerning", "direction", "vertical"],
            Op::HAdv(_) | Op::VAdv(_) => &["glyph"],
            Op::Names(_) => &["ids"],
            Op::Image { .. } => &["glyph", "ppem", "depth"],
            Op::Supported { .. } => &["script", "lang", "features"],
            Op::Query(_) => &["what"],
        }
    }
    /// Copy argument field `i` from `from` (same kind). Returns false if kinds differ.
    fn copy_field(&mut self, from: &Op, i: usize) -> bool {
        fn sh_copy(a: &mut ShapeArgs, b: &ShapeArgs, i: usize) {
            match i {
                0 => a.text = b.text.clone(),
                1 => a.script = b.script,
                2 => a.lang = b.lang,
                3 => a.feat = b.feat.clone(),
                4 => a.tuple = b.tuple,
                _ => a.kerning = b.kerning,
            }
        }
        match (self, from) {
            (Op::Map { text, script, required }, Op::Map { text: t, script: s, required: r }) => match i {
                0 => *text = t.clone(),
                1 => *script = *s,
                _ => *required = *r,
            },
            (Op::Lookup { ch, required, vs }, Op::Lookup { ch: c, required: r, vs: v }) => match i {
                0 => *ch = *c,
                1 => *required = *r,
                _ => *vs = *v,
            },
            (Op::Shape(a), Op::Shape(b)) => sh_copy(a, b, i),
            (Op::Positions { sh: a, rtl, vertical }, Op::Positions { sh: b, rtl: r, vertical: v }) => match i {
                0..=5 => sh_copy(a, b, i),
                6 => *rtl = *r,
                _ => *vertical = *v,
            },
            (Op::HAdv(a), Op::HAdv(b)) | (Op::VAdv(a), Op::VAdv(b)) => *a = *b,
            (Op::Names(a), Op::Names(b)) => *a = b.clone(),
            (Op::Image { gid, ppem, depth }, Op::Image { gid: g, ppem: p, depth: d }) => match i {
                0 => *gid = *g,
                1 => *ppem = *p,
                _ => *depth = *d,
            },
            (Op::Supported { script, lang, mask }, Op::Supported { script: s, lang: l, mask: m }) => match i {
                0 => *script = *s,
                1 => *lang = *l,
                _ => *mask = *m,
            },
            (Op::Query(a), Op::Query(b)) => *a = *b,
            _ => return false,
        }
        true
    }
}

fn vs_of(v: Option<u8>) -> Option<VariationSelector> {
    match v {
        Some(1) => Some(VariationSelector::VS01),
        Some(2) => Some(VariationSelector::VS02),
        Some(3) => Some(VariationSelector::VS03),
        Some(15) => Some(VariationSelector::VS15),
        Some(16) => Some(VariationSelector::VS16),
        _ => None,
    }
}
const VS_ALL: &[Option<u8>] = &[None, Some(1), Some(2), Some(3), Some(15), Some(16)];

fn pres(required: bool) -> MatchingPresentation {
    if required {
        MatchingPresentation::Required
    } else {
        MatchingPresentation::NotRequired
    }
}
fn depth_of(d: u8) -> BitDepth {
    match d {
        1 => BitDepth::One,
        2 => BitDepth::Two,
        4 => BitDepth::Four,
        8 => BitDepth::Eight,
        _ => BitDepth::ThirtyTwo,
    }
}

fn render_image(r: &Result<Option<BitmapGlyph>, allsorts::error::ParseError>) -> String {
    match r {
        Err(e) => format!("Err({:?})", e),
        Ok(None) => "Ok(None)".to_string(),
        Ok(Some(g)) => {
            let bm = match &g.bitmap {
                Bitmap::Embedded(e) => format!("Embedded(w={} h={} fmt={:?} len={} hash={:016x})", e.width, e.height, e.format, e.data.len(), hash_bytes(&e.data)),
                Bitmap::Encapsulated(e) => {
                    let f = match e.format {
                        allsorts::bitmap::EncapsulatedFormat::Jpeg => "jpeg".to_string(),
                        allsorts::bitmap::EncapsulatedFormat::Png => "png".to_string(),
                        allsorts::bitmap::EncapsulatedFormat::Tiff => "tiff".to_string(),
                        allsorts::bitmap::EncapsulatedFormat::Svg => "svg".to_string(),
                        allsorts::bitmap::EncapsulatedFormat::Other(t) => format!("other({:08x})", t),
                    };
                    format!("Encapsulated(fmt={} len={} hash={:016x})", f, e.data.len(), hash_bytes(&e.data))
                }
            };
            format!("Ok(Some(ppem=({:?},{:?}) metrics={:?} bitmap={}))", g.ppem_x, g.ppem_y, g.metrics, bm)
        }
    }
}

/// Everything an operation needs besides the font it runs on. Arguments that are themselves
/// computed by allsorts (the glyph run given to `shape`, the infos given to `GlyphLayout`) are
/// computed on their own fresh `Font` and memoised per case, so that the long-lived font and the
/// fresh font receive identical arguments.
pub struct Env<'a> {
    pub bytes: &'a [u8],
    pub tuples: Vec<OwnedTuple>,
    glyphs: RefCell<HashMap<(String, u32), Vec<RawGlyph<()>>>>,
    infos: RefCell<HashMap<String, Option<Vec<Info>>>>,
}

impl<'a> Env<'a> {
    pub fn new(bytes: &'a [u8], tuples: Vec<OwnedTuple>) -> Env<'a> {
        Env { bytes, tuples, glyphs: RefCell::new(HashMap::new()), infos: RefCell::new(HashMap::new()) }
    }
    fn arg_glyphs(&self, text: &str, script: u32) -> Vec<RawGlyph<()>> {
        let key = (text.to_string(), script);
        if let Some(g) = self.glyphs.borrow().get(&key) {
            return g.clone();
        }
        let g = match load_font(self.bytes) {
            Some(mut f) => f.map_glyphs(text, script, MatchingPresentation::NotRequired),
            None => Vec::new(),
        };
        self.glyphs.borrow_mut().insert(key, g.clone());
        g
    }
    fn shape_on(&self, font: &mut AFont<'a>, s: &ShapeArgs) -> Result<Vec<Info>, (allsorts::error::ShapingError, Vec<Info>)> {
        let glyphs = self.arg_glyphs(&s.text, s.script);
        let tuple = s.tuple.and_then(|i| self.tuples.get(i)).map(|t| t.as_tuple());
        font.shape(glyphs, s.script, s.lang, &s.feat.to_features(), tuple, s.kerning)
    }
    fn arg_infos(&self, s: &ShapeArgs) -> Option<Vec<Info>> {
        let key = format!("{:?}", s);
        if let Some(i) = self.infos.borrow().get(&key) {
            return i.clone();
        }
        let r = load_font(self.bytes).and_then(|mut f| match self.shape_on(&mut f, s) {
            Ok(i) => Some(i),
            Err((_, i)) => Some(i),
        });
        self.infos.borrow_mut().insert(key, r.clone());
        r
    }

    /// Run `op` on `font` and render the result canonically.
    pub fn run(&self, font: &mut AFont<'a>, op: &Op) -> String {
        match op {
            Op::Map { text, script, required } => format!("{:?}", font.map_glyphs(text, *script, pres(*required))),
            Op::Lookup { ch, required, vs } => format!("{:?}", font.lookup_glyph_index(*ch, pres(*required), vs_of(*vs))),
            Op::Shape(s) => match self.shape_on(font, s) {
                Ok(i) => format!("Ok({:?})", i),
                Err((e, i)) => format!("Err({:?}, {:?})", e, i),
            },
            Op::Positions { sh, rtl, vertical } => {
                let infos = match self.arg_infos(sh) {
                    Some(i) => i,
                    None => return "no-infos".to_string(),
                };
                let dir = if *rtl { TextDirection::RightToLeft } else { TextDirection::LeftToRight };
                let mut layout = GlyphLayout::new(font, &infos, dir, *vertical);
                format!("{:?}", layout.glyph_positions())
            }
            Op::HAdv(g) => format!("{:?}", font.horizontal_advance(*g)),
            Op::VAdv(g) => format!("{:?}", font.vertical_advance(*g)),
            Op::Names(ids) => format!("{:?}", font.glyph_names(ids)),
            Op::Image { gid, ppem, depth } => render_image(&font.lookup_glyph_image(*gid, *ppem, depth_of(*depth))),
            Op::Supported { script, lang, mask } => match font.gsub_cache() {
                Ok(Some(c)) => format!("{:?}", allsorts::gsub::features_supported(&c, *script, *lang, FeatureMask::from_bits_truncate(*mask))),
                Ok(None) => "no-gsub".to_string(),
                Err(e) => format!("gsub-err({:?})", e),
            },
            Op::Query(q) => match q {
                Q::HasImages => format!("{:?}", font.has_embedded_images()),
                Q::Gdef => format!("{:?}", font.gdef_table().map(|t| t.is_some())),
                Q::Morx => format!("{:?}", font.morx_table().map(|t| t.is_some())),
                Q::Kern => format!("{:?}", font.kern_table().map(|t| t.is_some())),
                Q::Vhea => format!("{:?}", font.vhea_table()),
                Q::GsubCache => format!("{:?}", font.gsub_cache().map(|t| t.is_some())),
                Q::GposCache => format!("{:?}", font.gpos_cache().map(|t| t.is_some())),
                Q::AxisNames => format!("{:?}", font.axis_names()),
                Q::VariationAxes => format!("{:?}", font.variation_axes()),
                Q::IsVariable => format!("{:?}", font.is_variable()),
                Q::NumGlyphs => format!("{:?}", font.num_glyphs()),
                Q::HasOutlines => format!("{:?}", font.has_glyph_outlines()),
                Q::Os2 => format!(
                    "{:?}",
                    font.os2_table().map(|o| o.map(|o| (o.version, o.us_weight_class, o.us_width_class, o.fs_type, o.panose, o.ul_unicode_range1, o.ul_unicode_range2)))
                ),
                Q::CmapData => format!("{:?} len={} hash={:016x}", font.cmap_subtable_encoding, font.cmap_subtable_data().len(), hash_bytes(font.cmap_subtable_data())),
            },
        }
    }
}

/// Call `f`, turning a panic into a rendered result (a panic that happens identically on the fresh
/// font is C01/C02's business, not a history dependence).
fn quiet<R>(f: impl FnOnce() -> R) -> Result<R, String> {
    match panic::catch_unwind(AssertUnwindSafe(f)) {
        Ok(r) => Ok(r),
        Err(_) => {
            let p = take_last_panic().unwrap_or_default();
            Err(format!("PANIC[{}] {}", p.site, normalise_digits(&p.message)))
        }
    }
}

const HIT_EVENTS: &[&str] = &["lookups_index_hit", "supported_features_hit", "lookup_cache_hit", "read_cache_hit", "lazy_load_hit", "glyph_cache_hit"];

fn hits_delta(before: &allsorts::verif::Snapshot, after: &allsorts::verif::Snapshot) -> Vec<(&'static str, u64)> {
    HIT_EVENTS
        .iter()
        .filter_map(|e| {
            let a = after.events.get(e).copied().unwrap_or(0);
            let b = before.events.get(e).copied().unwrap_or(0);
            if a > b {
                Some((*e, a - b))
            } else {
                None
            }
        })
        .collect()
}

// ---- fonts and pools ----------------------------------------------------------------------------

pub struct RealFont {
    pub name: String,
    pub data: Vec<u8>,
    pub scripts: Vec<u32>,
    pub langs: Vec<u32>,
    pub features: Vec<u32>,
    pub has_gsub: bool,
    pub has_gsub_fv: bool,
    pub has_fvar: bool,
    pub has_images: bool,
    pub num_glyphs: u16,
}

/// Independent walk of a GSUB/GPOS header: script tags, language tags, feature tags, and whether a
/// FeatureVariations table is present.
fn layout_tags(d: &[u8]) -> Option<(Vec<u32>, Vec<u32>, Vec<u32>, bool)> {
    let be32 = crate::sfnt::be32;
    let minor = be16(d, 2)?;
    let sl = be16(d, 4)? as usize;
    let fl = be16(d, 6)? as usize;
    let fv = if minor >= 1 { be32(d, 10)? != 0 } else { false };
    let mut scripts = Vec::new();
    let mut langs = Vec::new();
    let mut feats = Vec::new();
    if sl != 0 {
        let n = be16(d, sl)? as usize;
        for i in 0..n {
            scripts.push(be32(d, sl + 2 + 6 * i)?);
            let so = sl + be16(d, sl + 2 + 6 * i + 4)? as usize;
            let ln = be16(d, so + 2)? as usize;
            for j in 0..ln.min(8) {
                langs.push(be32(d, so + 4 + 6 * j)?);
            }
        }
    }
    if fl != 0 {
        let n = be16(d, fl)? as usize;
        for i in 0..n {
            feats.push(be32(d, fl + 2 + 6 * i)?);
        }
    }
    langs.sort();
    langs.dedup();
    feats.sort();
    feats.dedup();
    Some((scripts, langs, feats, fv))
}

fn classify(name: &str, data: Vec<u8>) -> Option<RealFont> {
    let fd = ReadScope::new(&data).read::<FontData<'_>>().ok()?;
    let p = fd.table_provider(0).ok()?;
    let font = Font::new(fd.table_provider(0).ok()?).ok()?;
    let num_glyphs = font.num_glyphs();
    drop(font);
    let gsub = p.table_data(allsorts::tag::GSUB).ok().flatten();
    let (scripts, langs, features, has_gsub_fv) = gsub.as_deref().and_then(layout_tags).unwrap_or_default();
    let has_gsub = gsub.is_some();
    let has_fvar = p.has_table(allsorts::tag::FVAR);
    let has_images = [allsorts::tag::SBIX, allsorts::tag::CBDT, allsorts::tag::SVG, allsorts::tag::EBDT].iter().any(|t| p.has_table(*t));
    drop(gsub);
    drop(p);
    drop(fd);
    Some(RealFont { name: name.to_string(), data, scripts, langs, features, has_gsub, has_gsub_fv, has_fvar, has_images, num_glyphs })
}

const LATIN_WORDS: &[&str] = &["office", "fi", "ffl", "AVATAR", "To", "1/2", "3/45", "difficult", "Würde", "naïve", "a b", "fjord", "Type", "ff"];
const ARABIC_WORDS: &[&str] = &["السلام", "عليكم", "كتاب", "مُحَمَّد", "لا", "الله", "بِسْمِ", "ٱلرَّحْمَٰنِ", "شيء", "لله", "ـّـ", "ّ"];
const CJK_WORDS: &[&str] = &["\u{FF1A}\u{3042}\u{30FC}\u{3001}", "\u{300C}\u{65E5}\u{672C}\u{8A9E}\u{300D}", "\u{30FC}\u{3002}", "\u{FF08}\u{30A2}\u{FF09}", "\u{2026}\u{301C}", "\u{6771}\u{4EAC}"];
const SYRIAC_WORDS: &[&str] = &["ܫܠܡܐ", "ܐܒܘܢ", "ܕܒܫܡܝܐ", "ܡܠܟܘܬܟ", "ܢܬܩܕܫ"];
const THAI_WORDS: &[&str] = &["สวัสดี", "ภาษาไทย", "น้ำ", "กรุงเทพ", "ที่นี่", "ำ"];
const LAO_WORDS: &[&str] = &["ສະບາຍດີ", "ພາສາລາວ", "ນ້ຳ", "ຳ"];

fn word_list_key(script: u32) -> Option<&'static str> {
    Some(match tag_str(script).as_str() {
        "deva" | "dev2" => "indic/good.hi",
        "beng" | "bng2" => "indic/good.bn",
        "gujr" | "gjr2" => "indic/good.gu",
        "knda" | "knd2" => "indic/good.kn",
        "mlym" | "mlm2" => "indic/good.ml",
        "orya" | "ory2" => "indic/good.or",
        "guru" | "gur2" => "indic/good.pa",
        "sinh" => "indic/good.si",
        "taml" | "tml2" => "indic/good.ta",
        "telu" | "tel2" => "indic/good.te",
        "khmr" => "khmer/good",
        "mymr" | "mym2" => "myanmar/good",
        _ => return None,
    })
}

fn sibling_script(script: u32) -> Option<u32> {
    let s = tag_str(script);
    let pairs = [("deva", "dev2"), ("beng", "bng2"), ("gujr", "gjr2"), ("knda", "knd2"), ("mlym", "mlm2"), ("orya", "ory2"), ("guru", "gur2"), ("taml", "tml2"), ("telu", "tel2"), ("mymr", "mym2")];
    for (a, b) in pairs {
        if s == a {
            return Some(tag(b));
        }
        if s == b {
            return Some(tag(a));
        }
    }
    None
}

pub struct C03 {
    fonts: Vec<RealFont>,
    shaping: Vec<usize>,
    variable: Vec<usize>,
    images: Vec<usize>,
    all: Vec<usize>,
    words: BTreeMap<&'static str, Vec<String>>,
    pure: c03_pure::Pure,
    outline: c03_outline::Outline,
    /// set when the running history already counted a generator self-check failure
    model_mismatch_flag: std::cell::Cell<bool>,
    /// the font of the running history has CJK scripts (texts for its default scripts may be CJK)
    cjk_now: std::cell::Cell<bool>,
}

impl C03 {
    pub fn new(cx: &mut Ctx) -> C03 {
        let max_len = 2_500_000;
        let mut fonts = Vec::new();
        for sf in load_seed_fonts(max_len, false) {
            if let Some(f) = classify(&sf.name, sf.data) {
                fonts.push(f);
            }
        }
        let shaping: Vec<usize> = (0..fonts.len()).filter(|&i| fonts[i].has_gsub).collect();
        let variable: Vec<usize> = (0..fonts.len()).filter(|&i| fonts[i].has_fvar).collect();
        let images: Vec<usize> = (0..fonts.len()).filter(|&i| fonts[i].has_images).collect();
        let all: Vec<usize> = (0..fonts.len()).collect();
        let mut words = BTreeMap::new();
        for key in ["indic/good.hi", "indic/good.bn", "indic/good.gu", "indic/good.kn", "indic/good.ml", "indic/good.or", "indic/good.pa", "indic/good.si", "indic/good.ta", "indic/good.te", "khmer/good", "myanmar/good"] {
            let mut v = Vec::new();
            if let Ok(s) = std::fs::read_to_string(format!("/repo/tests/{}", key)) {
                let lines: Vec<&str> = s.lines().filter(|l| !l.is_empty() && l.chars().count() <= 10).collect();
                let step = (lines.len() / 3000).max(1);
                v = lines.iter().step_by(step).map(|l| l.to_string()).collect();
            }
            words.insert(key, v);
        }
        let pure = c03_pure::Pure::new(cx);
        let outline = c03_outline::Outline::new(cx);
        C03 { fonts, shaping, variable, images, all, words, pure, outline, model_mismatch_flag: std::cell::Cell::new(false), cjk_now: std::cell::Cell::new(false) }
    }

    fn word(&self, script: u32, rng: &mut Rng) -> String {
        if let Some(k) = word_list_key(script) {
            if let Some(v) = self.words.get(k) {
                if !v.is_empty() {
                    return rng.pick(v).clone();
                }
            }
        }
        let list: &[&str] = match tag_str(script).as_str() {
            "arab" => ARABIC_WORDS,
            "syrc" => SYRIAC_WORDS,
            "thai" => THAI_WORDS,
            "lao " => LAO_WORDS,
            "kana" | "hani" | "hang" | "bopo" => CJK_WORDS,
            "DFLT" | "latn" | "cyrl" | "grek" if self.cjk_now.get() && rng.bool() => CJK_WORDS,
            _ => LATIN_WORDS,
        };
        rng.pick(list).to_string()
    }

    fn text(&self, script: u32, rng: &mut Rng) -> String {
        let mut cs: Vec<char> = self.word(script, rng).chars().collect();
        if rng.chance(1, 4) {
            cs.push(' ');
            cs.extend(self.word(script, rng).chars());
        }
        // hostile material
        if rng.chance(1, 4) && !cs.is_empty() {
            let k = 1 + rng.below(cs.len());
            cs.truncate(k);
        }
        if rng.chance(1, 4) {
            let at = rng.below(cs.len() + 1);
            cs.insert(at, DOTTED_CIRCLE);
        }
        if rng.chance(1, 8) {
            let at = rng.below(cs.len() + 1);
            cs.insert(at, *rng.pick(&['\u{200D}', '\u{200C}', '\u{FE0F}', '\u{FE0E}', '\u{034F}']));
        }
        if rng.chance(1, 10) && cs.len() > 1 {
            // lone mark first: move the last char to the front
            if let Some(c) = cs.pop() {
                cs.insert(0, c);
            }
        }
        cs.into_iter().collect()
    }
}

/// A feature set given both ways: `Features::Mask(bits)` and `Features::Custom(tags)` whose tags
/// map to exactly those bits (for the two-tag bit VRT2_OR_VERT either alias, in random order).
fn paired_feats(tags: &[u32], rng: &mut Rng) -> Vec<Feat> {
    let mut bits = FeatureMask::empty();
    let mut list: Vec<u32> = Vec::new();
    for t in tags {
        let m = FeatureMask::from_tag(*t);
        if m.is_empty() || bits.contains(m) {
            continue;
        }
        bits |= m;
        list.push(*t);
    }
    if list.is_empty() {
        return Vec::new();
    }
    let mut out = vec![Feat::Mask(bits.bits())];
    let variants = if bits.contains(FeatureMask::VRT2_OR_VERT) { 2 } else { 1 };
    for k in 0..variants {
        let mut l: Vec<(u32, Option<usize>)> = list
            .iter()
            .map(|t| {
                if FeatureMask::from_tag(*t) == FeatureMask::VRT2_OR_VERT {
                    (if k == 0 { tag("vert") } else { tag("vrt2") }, None)
                } else {
                    (*t, None)
                }
            })
            .collect();
        if rng.bool() {
            rng.shuffle(&mut l);
        }
        out.push(Feat::Custom(l));
    }
    out
}

fn feat_bits(f: &Feat) -> Option<u64> {
    match f {
        Feat::Mask(b) => Some(*b),
        Feat::Custom(v) => {
            let mut bits = FeatureMask::empty();
            for (t, _) in v {
                let m = FeatureMask::from_tag(*t);
                if m.is_empty() {
                    return None;
                }
                bits |= m;
            }
            Some(bits.bits())
        }
    }
}

fn random_mask(rng: &mut Rng) -> u64 {
    match rng.below(9) {
        8 => (FeatureMask::VRT2_OR_VERT | if rng.bool() { FeatureMask::default() } else { FeatureMask::empty() }).bits(),
        0 => FeatureMask::default().bits(),
        1 => 0,
        2 => FeatureMask::all().bits(),
        3 => (FeatureMask::default() | FeatureMask::FRAC).bits(),
        4 => (FeatureMask::default() | FeatureMask::SMCP | FeatureMask::ONUM).bits(),
        5 => (FeatureMask::default() - FeatureMask::LIGA).bits(),
        _ => rng.u64() & FeatureMask::all().bits(),
    }
}

/// What a history needs to know about its font.
struct Pools {
    scripts: Vec<u32>,
    langs: Vec<Option<u32>>,
    feats: Vec<Feat>,
    tuples: usize,
    texts: Vec<(String, u32)>,
    chars: Vec<char>,
    gids: Vec<u16>,
    image_heavy: bool,
    ppems: Vec<u16>,
    depths: Vec<u8>,
    /// many-keys histories: nearly all operations are shape calls
    shape_heavy: bool,
}

fn gen_op(p: &Pools, rng: &mut Rng) -> Op {
    let shape_args = |rng: &mut Rng| -> ShapeArgs {
        let (text, tscript) = rng.pick(&p.texts).clone();
        // mostly the script the text was made for, sometimes a mismatched one from the pool
        let script = if rng.chance(1, 5) { *rng.pick(&p.scripts) } else { tscript };
        let tuple = if p.tuples == 0 || rng.chance(1, 4) { None } else { Some(rng.below(p.tuples)) };
        ShapeArgs { text, script, lang: *rng.pick(&p.langs), feat: rng.pick(&p.feats).clone(), tuple, kerning: !rng.chance(1, 4) }
    };
    if p.shape_heavy && !rng.chance(1, 8) {
        return Op::Shape(shape_args(rng));
    }
    let r = rng.below(100);
    // generated image fonts (five bit depths in the pool): mostly image lookups
    let img = if p.depths.len() > 3 { 60 } else if p.image_heavy { 25 } else { 4 };
    if r < img {
        return Op::Image { gid: *rng.pick(&p.gids), ppem: *rng.pick(&p.ppems), depth: *rng.pick(&p.depths) };
    }
    match rng.below(100) {
        0..=34 => Op::Shape(shape_args(rng)),
        35..=44 => Op::Positions { sh: shape_args(rng), rtl: rng.bool(), vertical: rng.chance(1, 3) },
        45..=56 => {
            let (text, script) = rng.pick(&p.texts).clone();
            Op::Map { text, script, required: rng.chance(1, 3) }
        }
        57..=71 => {
            let ch = if rng.bool() { DOTTED_CIRCLE } else { *rng.pick(&p.chars) };
            Op::Lookup { ch, required: rng.bool(), vs: *rng.pick(VS_ALL) }
        }
        72..=75 => Op::HAdv(*rng.pick(&p.gids)),
        76..=78 => Op::VAdv(*rng.pick(&p.gids)),
        79..=82 => {
            let n = 1 + rng.below(4);
            Op::Names((0..n).map(|_| *rng.pick(&p.gids)).collect())
        }
        83..=87 => {
            let mask = match rng.pick(&p.feats) {
                Feat::Mask(m) => *m,
                _ => FeatureMask::default().bits(),
            };
            Op::Supported { script: *rng.pick(&p.scripts), lang: *rng.pick(&p.langs), mask: if rng.bool() { mask } else { 1u64 << rng.below(46) } }
        }
        _ => Op::Query(*rng.pick(QUERIES)),
    }
}

#[derive(Copy, Clone, PartialEq, Debug)]
enum FontClass {
    Shaping,
    Variable,
    Images,
    /// any loadable seed font (symbol-encoded, CFF, WOFF, WOFF2, ...)
    Any,
    /// a seed font with one optional table truncated / overwritten, so that lazy loaders fail
    Faulted,
    Generated,
    /// a small TrueType host with freshly generated image tables (CBLC/CBDT, EBLC/EBDT, sbix, SVG):
    /// several strikes over different glyph sets, so that which strike serves a glyph depends on the
    /// glyph, the size and the bit depth asked for
    GenImages,
    /// a font built from a generated GSUB program of the C04 generator (all lookup types, contexts
    /// nested up to four deep - beyond allsorts' nesting limit, so some calls end in an error -, lookup
    /// flags, feature variations): histories mix calls that fail part-way with calls that succeed
    Program,
}

impl C03 {
    /// Host font + generated image tables, the pools to draw operations from, and the image filter.
    fn gen_image_font(&self, cx: &mut Ctx, rng: &mut Rng) -> Option<(Vec<u8>, String, Pools, u8)> {
        use crate::gen::bitmap_c01 as bm;
        use allsorts::font::GlyphTableFlags as F;
        let small: Vec<&RealFont> = self.fonts.iter().filter(|f| f.data.len() < 40_000 && f.data.starts_with(&[0, 1, 0, 0]) && !f.has_images && f.num_glyphs >= 4).collect();
        if small.is_empty() {
            return None;
        }
        let f = *rng.pick(&small);
        let host = crate::sfnt::Font::parse(&f.data)?;
        let n = f.num_glyphs.min(40);
        let mut ppems: Vec<u16> = vec![0, 1, 300, 0xFFFF];
        let mut gids: Vec<u16> = vec![0, 1, n - 1, n, 0xFFFF];
        let mut filter = 0u8;
        let mut tables: Vec<(&str, Vec<u8>)> = Vec::new();
        let what;
        match rng.below(6) {
            0..=2 => {
                let color = rng.bool();
                let t = bm::gen_bitmap_tables(rng, n, color);
                for &p in &t.ppems {
                    ppems.extend_from_slice(&[p as u16, (p as u16).saturating_sub(1), p as u16 + 1]);
                }
                gids.extend_from_slice(&t.glyphs);
                if rng.chance(2, 3) {
                    tables.push(("CBLC", t.loc));
                    tables.push(("CBDT", t.dat));
                    what = "cblc";
                } else {
                    tables.push(("EBLC", t.loc));
                    tables.push(("EBDT", t.dat));
                    filter = (F::EBDT | if rng.bool() { F::SBIX } else { F::empty() }).bits();
                    what = "eblc";
                }
            }
            3 | 4 => {
                let (t, _) = bm::gen_sbix(rng, n);
                tables.push(("sbix", t));
                ppems.extend_from_slice(&[15, 16, 17, 31, 32, 33, 127, 128, 129]);
                gids.extend(0..n);
                what = "sbix";
            }
            _ => {
                let (t, _) = bm::gen_svg(rng, n);
                tables.push(("SVG ", t));
                gids.extend(0..n);
                what = "svg";
            }
        }
        cx.class(&format!("gen-images:{}", what));
        // one font in three carries a second kind of image table over a different glyph set: which
        // table answers must not depend on what was looked up before
        if rng.chance(1, 3) {
            if what != "svg" {
                let (t, _) = bm::gen_svg(rng, n);
                tables.push(("SVG ", t));
            } else {
                let (t, _) = bm::gen_sbix(rng, n);
                tables.push(("sbix", t));
                ppems.extend_from_slice(&[15, 16, 17, 31, 32, 33, 127, 128, 129]);
            }
            gids.extend(0..n);
            cx.class("gen-images:two-kinds-of-image-table");
        }
        gids.sort_unstable();
        gids.dedup();
        ppems.sort_unstable();
        ppems.dedup();
        let bytes = bm::attach(&host, &tables);
        let mut pools = self.real_pools(f, FontClass::Images, 0, rng);
        pools.gids = gids;
        pools.ppems = ppems;
        pools.depths = vec![1, 2, 4, 8, 32];
        pools.image_heavy = true;
        Some((bytes, format!("{} + generated {}", f.name, what), pools, filter))
    }

    fn real_pools(&self, f: &RealFont, class: FontClass, ntuples: usize, rng: &mut Rng) -> Pools {
        // scripts: the font's own (and their v1/v2 siblings), plus foreigners
        let mut cand: Vec<u32> = Vec::new();
        for s in &f.scripts {
            cand.push(*s);
            if let Some(x) = sibling_script(*s) {
                cand.push(x);
            }
        }
        if cand.is_empty() {
            cand.push(tag("latn"));
        }
        let mut scripts = Vec::new();
        let ns = 2 + rng.below(3);
        for _ in 0..ns {
            let s = if rng.chance(1, 6) { *rng.pick(&[tag("latn"), tag("DFLT"), tag("arab"), tag("deva"), tag("zzzz")]) } else { *rng.pick(&cand) };
            if !scripts.contains(&s) {
                scripts.push(s);
            }
        }
        let other_lang = if !f.langs.is_empty() && !rng.chance(1, 4) { *rng.pick(&f.langs) } else { *rng.pick(&[tag("URD "), tag("ENG "), tag("TRK "), tag("MAR "), tag("NEP "), tag("DFLT")]) };
        let langs = vec![None, Some(other_lang)];
        self.cjk_now.set(f.scripts.iter().any(|s| *s == tag("kana") || *s == tag("hani")));
        let mut feats = vec![Feat::Mask(FeatureMask::default().bits())];
        // one feature set both as a mask and as custom lists that map to the same mask bits
        if !rng.chance(1, 4) {
            let mut tags: Vec<u32> = Vec::new();
            let has_vert = f.features.iter().any(|t| *t == tag("vert") || *t == tag("vrt2"));
            if has_vert && !rng.chance(1, 4) {
                tags.push(tag("vrt2"));
            }
            let known: Vec<u32> = f.features.iter().copied().filter(|t| !FeatureMask::from_tag(*t).is_empty()).collect();
            for _ in 0..rng.below(4) {
                if !known.is_empty() {
                    tags.push(*rng.pick(&known));
                }
            }
            if tags.is_empty() {
                tags = FeatureMask::from_bits_truncate(random_mask(rng)).iter().map(|f| f.feature_tag).take(6).collect();
            }
            for ft in paired_feats(&tags, rng) {
                if !feats.contains(&ft) {
                    feats.push(ft);
                }
            }
        }
        while feats.len() < 3 {
            let ft = if rng.chance(2, 3) {
                Feat::Mask(random_mask(rng))
            } else {
                let n = rng.below(6);
                let mut v: Vec<(u32, Option<usize>)> = Vec::new();
                for _ in 0..n {
                    let t = if !f.features.is_empty() && !rng.chance(1, 5) { *rng.pick(&f.features) } else { *rng.pick(&[tag("liga"), tag("kern"), tag("calt"), tag("smcp"), tag("rvrn"), tag("salt"), tag("fina")]) };
                    v.push((t, if rng.chance(1, 6) { Some(rng.below(3)) } else { None }));
                }
                Feat::Custom(v)
            };
            if !feats.contains(&ft) {
                feats.push(ft);
            }
        }
        let nt = 3 + rng.below(3);
        let mut texts = Vec::new();
        for _ in 0..nt {
            let s = *rng.pick(&scripts);
            texts.push((self.text(s, rng), s));
        }
        let mut chars = vec!['A', '\u{2764}', '\u{1F600}', ' ', '\u{F041}', '\u{41}'];
        for (t, _) in &texts {
            if let Some(c) = t.chars().next() {
                chars.push(c);
            }
        }
        let n = f.num_glyphs.max(1);
        let mut gids: Vec<u16> = (0..4).map(|_| rng.below(n as usize) as u16).collect();
        gids.push(0);
        if n > 1 {
            gids.push(1);
        }
        if rng.chance(1, 3) {
            gids.push(n); // out of range
        }
        Pools { scripts, langs, feats, tuples: ntuples, texts, chars, gids, image_heavy: class == FontClass::Images, ppems: vec![0, 16, 20, 128, 300, 1000], depths: vec![1, 8, 32], shape_heavy: false }
    }

    /// Up to three normalised tuples built from the font's own fvar (and avar).
    fn real_tuples(&self, f: &RealFont, rng: &mut Rng) -> Vec<OwnedTuple> {
        let mut out = Vec::new();
        let fd = match ReadScope::new(&f.data).read::<FontData<'_>>() {
            Ok(x) => x,
            Err(_) => return out,
        };
        let p = match fd.table_provider(0) {
            Ok(p) => p,
            Err(_) => return out,
        };
        let fvar_data = match p.table_data(allsorts::tag::FVAR) {
            Ok(Some(d)) => d,
            _ => return out,
        };
        let fvar = match ReadScope::new(&fvar_data).read::<FvarTable<'_>>() {
            Ok(t) => t,
            Err(_) => return out,
        };
        let avar_data = p.table_data(allsorts::tag::AVAR).ok().flatten();
        let avar = avar_data.as_ref().and_then(|d| ReadScope::new(d).read::<AvarTable<'_>>().ok());
        let axes: Vec<_> = fvar.axes().collect();
        for k in 0..3 {
            let user: Vec<Fixed> = axes
                .iter()
                .map(|a| match (k + rng.below(2)) % 4 {
                    0 => a.max_value,
                    1 => a.min_value,
                    2 => a.default_value,
                    _ => Fixed::from_raw(((a.min_value.raw_value() as i64 + a.max_value.raw_value() as i64) / 2) as i32),
                })
                .collect();
            if let Ok(t) = fvar.normalize(user.iter().copied(), avar.as_ref()) {
                out.push(t);
            }
        }
        out
    }
}

const FAULT_TABLES: &[&str] = &["GDEF", "GSUB", "GPOS", "kern", "vhea", "vmtx", "OS/2", "fvar", "post", "sbix", "SVG ", "EBLC", "CBLC", "morx", "avar"];

/// One optional table of a plain sfnt font truncated, zeroed or with a damaged header.
fn fault_font(data: &[u8], rng: &mut Rng) -> Option<(Vec<u8>, String)> {
    let mut f = crate::sfnt::Font::parse(data)?;
    let present: Vec<&str> = FAULT_TABLES.iter().copied().filter(|t| f.gets(t).is_some()).collect();
    if present.is_empty() {
        return None;
    }
    let t = *rng.pick(&present);
    let mut d = f.gets(t)?.to_vec();
    let kind = match rng.below(4) {
        0 => {
            d.truncate(rng.below(d.len().min(64) + 1));
            "truncated"
        }
        1 => {
            let n = d.len().min(2 + rng.below(10));
            for b in d.iter_mut().take(n) {
                *b = 0xFF;
            }
            "header-ff"
        }
        2 => {
            for b in d.iter_mut() {
                *b = 0;
            }
            "zeroed"
        }
        _ => {
            let keep = d.len() / 2;
            d.truncate(keep);
            "halved"
        }
    };
    f.sets(t, d);
    Some((f.build(), format!("{}:{}", t.trim(), kind)))
}

const MANY_LANGS: &[&str] = &[
    "ENG ", "TRK ", "ROM ", "URD ", "MAR ", "NEP ", "DEU ", "FRA ", "NLD ", "PLK ", "CAT ", "MOL ", "AZE ", "CRT ", "KAZ ", "TAT ", "SRB ", "BGR ", "MKD ", "ARA ", "FAR ", "SND ", "KSH ", "HIN ",
    "SAN ", "BEN ", "ASM ", "GUJ ", "PAN ", "TAM ", "TEL ", "KAN ", "MAL ", "SNH ", "KHM ", "BRM ", "THA ", "LAO ", "JAN ", "KOR ", "ZHS ", "ZHT ", "VIT ", "IPPH", "xxxx", "DFLT",
];

/// Many-keys histories: many languages and many feature masks that really select different
/// lookup lists (subsets of the features the font has), so that one Font sees far more than 64
/// distinct (script, language, mask, substitution) keys.
fn widen_pools(p: &mut Pools, font_tags: &[u32], font_langs: &[u32], rng: &mut Rng) {
    p.shape_heavy = true;
    let nl = 10 + rng.below(21);
    for l in font_langs.iter().take(6) {
        if !p.langs.contains(&Some(*l)) {
            p.langs.push(Some(*l));
        }
    }
    while p.langs.len() < nl {
        let l = Some(tag(*rng.pick(MANY_LANGS)));
        if !p.langs.contains(&l) {
            p.langs.push(l);
        }
    }
    let known: Vec<FeatureMask> = font_tags.iter().map(|t| FeatureMask::from_tag(*t)).filter(|m| !m.is_empty()).collect();
    let nf = 8 + rng.below(9);
    let mut tries = 0;
    while p.feats.len() < nf && tries < 200 {
        tries += 1;
        let mut m = match rng.below(3) {
            0 => FeatureMask::default(),
            1 => FeatureMask::empty(),
            _ => FeatureMask::from_bits_truncate(rng.u64()) & FeatureMask::default(),
        };
        for k in &known {
            if rng.bool() {
                m |= *k;
            } else if rng.chance(1, 3) {
                m -= *k;
            }
        }
        let ft = if rng.chance(1, 6) {
            Feat::Custom(m.iter().map(|f| (f.feature_tag, None)).collect())
        } else {
            Feat::Mask(m.bits())
        };
        if !p.feats.contains(&ft) {
            p.feats.push(ft);
        }
    }
    p.texts.truncate(3);
}

fn gen_tuples(g: &GenFont, rng: &mut Rng) -> Option<(Vec<Vec<i16>>, Vec<OwnedTuple>)> {
    let fvar_bytes = crate::sfnt::Font::parse(&g.bytes)?.gets("fvar")?.to_vec();
    let fvar = ReadScope::new(&fvar_bytes).read::<FvarTable<'_>>().ok()?;
    // choose tuples from different selection classes of the GSUB (or else GPOS) variation records
    // whenever the description has more than one class
    let mut all: Vec<Vec<i16>> = vec![Vec::new()];
    for _ in 0..g.axes {
        all = all.into_iter().flat_map(|v| c03_gen::COORDS.iter().map(move |c| { let mut w = v.clone(); w.push(*c); w })).collect();
    }
    rng.shuffle(&mut all);
    // GSUB with FeatureTableSubstitution tables beyond 64 KiB: its first two records cover disjoint
    // regions, take a tuple from each of them and one more (the default region if there is one)
    let far_gsub = g.far_gsub_substitutions() >= 2;
    let layout = if !far_gsub && rng.chance(1, 4) { &g.gpos } else { &g.gsub };
    let mut classes: BTreeMap<Option<usize>, Vec<Vec<i16>>> = BTreeMap::new();
    for t in all {
        classes.entry(layout.select(Some(&t))).or_default().push(t);
    }
    let n = if far_gsub { 3 } else { 2 + rng.below(2) };
    let mut raws: Vec<Vec<i16>> = Vec::new();
    let mut round = 0;
    while raws.len() < n && round < 4 {
        for (_, v) in classes.iter() {
            if raws.len() < n {
                if let Some(t) = v.get(round) {
                    raws.push(t.clone());
                }
            }
        }
        round += 1;
    }
    rng.shuffle(&mut raws);
    let mut owned = Vec::new();
    for r in &raws {
        let v: Vec<F2Dot14> = r.iter().map(|x| F2Dot14::from_raw(*x)).collect();
        owned.push(fvar.owned_tuple(&v)?);
    }
    Some((raws, owned))
}

/// Characters no generated cmap maps (and that text preprocessing leaves alone): glyph 0.
const UNMAPPED: &[char] = &['z', 'x', 'q', '#'];

/// Inside the core the generated-font interpreter models: mapped letters, space, unmapped characters.
fn modelled_char(c: char) -> bool {
    c == ' ' || ('a'..='l').contains(&c) || UNMAPPED.contains(&c)
}

fn mask_tags(bits: u64) -> Vec<u32> {
    FeatureMask::from_bits_truncate(bits).iter().map(|f| f.feature_tag).collect()
}

fn gen_pools(g: &GenFont, ntuples: usize, rng: &mut Rng) -> Pools {
    let mut scripts: Vec<u32> = Vec::new();
    let ns = 2 + rng.below(3);
    let cand = [tag("DFLT"), tag("latn"), tag("cyrl"), tag("grek")];
    for _ in 0..ns {
        let s = *rng.pick(&cand);
        if !scripts.contains(&s) {
            scripts.push(s);
        }
    }
    let langs = vec![None, Some(tag(*rng.pick(c03_gen::LANGS)))];
    let mut feats = vec![Feat::Mask(FeatureMask::default().bits())];
    if !rng.chance(1, 4) {
        let present: Vec<u32> = g.gsub.features.iter().map(|f| f.0).collect();
        let mut tags: Vec<u32> = Vec::new();
        if present.contains(&tag("vert")) || present.contains(&tag("vrt2")) || rng.chance(1, 6) {
            tags.push(tag("vrt2"));
        }
        for _ in 0..rng.below(4) {
            tags.push(if rng.chance(3, 4) { *rng.pick(&present) } else { tag(*rng.pick(c03_gen::GSUB_FEATURES)) });
        }
        for ft in paired_feats(&tags, rng) {
            if !feats.contains(&ft) {
                feats.push(ft);
            }
        }
    }
    while feats.len() < 3 {
        let ft = match rng.below(6) {
            0 => Feat::Mask((FeatureMask::default() | FeatureMask::SMCP | FeatureMask::ONUM | FeatureMask::RVRN).bits()),
            1 => Feat::Mask(FeatureMask::LIGA.bits()),
            2 => Feat::Mask((FeatureMask::default() - FeatureMask::LIGA).bits()),
            3 => Feat::Mask((FeatureMask::CALT | FeatureMask::SMCP | FeatureMask::RVRN).bits()),
            _ => {
                let n = 1 + rng.below(4);
                let mut v: Vec<(u32, Option<usize>)> = Vec::new();
                for _ in 0..n {
                    let t = if rng.bool() { tag(*rng.pick(c03_gen::GSUB_FEATURES)) } else { tag(*rng.pick(c03_gen::GPOS_FEATURES)) };
                    if !v.iter().any(|x| x.0 == t) {
                        v.push((t, None));
                    }
                }
                Feat::Custom(v)
            }
        };
        if !feats.contains(&ft) {
            feats.push(ft);
        }
    }
    let nt = 2 + rng.below(3);
    let mut texts = Vec::new();
    for _ in 0..nt {
        let n = 2 + rng.below(7);
        let mut t: String = (0..n).map(|_| (b'a' + rng.below(c03_gen::LETTERS as usize) as u8) as char).collect();
        if rng.chance(1, 4) {
            t.push(' ');
            t.push('a');
        }
        if rng.chance(1, 6) {
            t.push(DOTTED_CIRCLE);
        }
        texts.push((t, *rng.pick(&scripts)));
    }
    // characters the generated cmap does not map (glyph 0, .notdef): always when a lookup acts on
    // glyph 0, so that .notdef is the first glyph of some runs and comes after other glyphs in others
    let notdef_lookups = g.gsub.has_format2_coverage_of_glyph0() || g.gpos.has_format2_coverage_of_glyph0();
    if notdef_lookups || rng.chance(1, 8) {
        let k = rng.below(texts.len());
        for (i, (t, _)) in texts.iter_mut().enumerate() {
            let mut cs: Vec<char> = t.chars().collect();
            if i == k || rng.chance(1, 3) {
                // leading .notdef (one or two)
                cs.insert(0, *rng.pick(UNMAPPED));
                if rng.chance(1, 4) {
                    cs.insert(0, *rng.pick(UNMAPPED));
                }
            }
            if rng.chance(1, 3) {
                let at = 1 + rng.below(cs.len());
                cs.insert(at, *rng.pick(UNMAPPED));
            }
            *t = cs.into_iter().collect();
        }
        if texts.len() >= 2 && rng.chance(1, 3) {
            // the run that is only .notdef
            let k2 = (k + 1) % texts.len();
            texts[k2].0 = (0..1 + rng.below(2)).map(|_| *rng.pick(UNMAPPED)).collect();
        }
    }
    let chars = vec!['a', 'b', ' ', 'z', '\u{2764}'];
    let mut gids: Vec<u16> = (0..4).map(|_| rng.below(g.num_glyphs as usize) as u16).collect();
    gids.push(0);
    gids.push(g.num_glyphs);
    Pools { scripts, langs, feats, tuples: ntuples, texts, chars, gids, image_heavy: false, ppems: vec![0, 16, 20, 128, 300, 1000], depths: vec![1, 8, 32], shape_heavy: false }
}

/// Short form of a rendered result for witnesses: glyph ids / kerning / placements of a run,
/// otherwise the first 600 characters.
fn compact(s: &str) -> String {
    if s.contains("glyph_index: ") {
        let grab = |key: &str| -> Vec<String> {
            s.match_indices(key).map(|(i, _)| s[i + key.len()..].chars().take_while(|c| *c != ',' && *c != ' ' && *c != '}').collect::<String>()).collect()
        };
        let head: String = s.chars().take_while(|c| *c != '[').collect();
        let mut out = format!("{} glyph_index={:?}", head, grab("glyph_index: "));
        if s.contains("kerning: ") {
            out.push_str(&format!(" kerning={:?} placement={:?}", grab("kerning: "), grab("placement: ")));
        }
        out.push_str(&format!(" variation={:?}", grab("variation: ")));
        out.chars().take(1500).collect()
    } else {
        s.chars().take(600).collect()
    }
}

fn parse_shape_ok(rendered: &str) -> bool {
    rendered.starts_with("Ok(")
}

/// (glyph id, kerning) pairs out of a shape result (fresh font), for the generator self-check.
fn run_of(infos: &[Info]) -> Vec<(u16, i32)> {
    infos.iter().map(|i| (i.glyph.glyph_index, i.kerning as i32)).collect()
}

impl C03 {
    fn history_case(&mut self, cx: &mut Ctx, rng: &mut Rng, class: FontClass, many: bool) {
        self.model_mismatch_flag.set(false);
        IMAGE_FILTER.with(|c| c.set(0));
        // --- the font, its tuples and pools
        let gen: Option<GenFont>;
        let mut real_fv = false;
        let mut many_feature_tags: Vec<u32> = Vec::new();
        let mut many_langs: Vec<u32> = Vec::new();
        let faulted_bytes: Vec<u8>;
        let mut gen_raw_tuples: Vec<Vec<i16>> = Vec::new();
        let (bytes, name, tuples, pools): (&[u8], String, Vec<OwnedTuple>, Pools) = match class {
            FontClass::Generated => {
                let g = c03_gen::gen_font(rng);
                let (raws, owned) = match gen_tuples(&g, rng) {
                    Some(x) => x,
                    None => {
                        cx.inconclusive("gen:no-tuples");
                        return;
                    }
                };
                gen_raw_tuples = raws;
                let pools = gen_pools(&g, owned.len(), rng);
                gen = Some(g);
                let g = gen.as_ref().map(|g| g.bytes.as_slice()).unwrap_or(&[]);
                (g, "generated".to_string(), owned, pools)
            }
            FontClass::GenImages => {
                gen = None;
                match self.gen_image_font(cx, rng) {
                    Some((b, name, pools, filter)) => {
                        faulted_bytes = b;
                        IMAGE_FILTER.with(|c| c.set(filter));
                        (faulted_bytes.as_slice(), name, Vec::new(), pools)
                    }
                    None => {
                        cx.inconclusive("gen-images:no-host");
                        return;
                    }
                }
            }
            FontClass::Program => {
                gen = None;
                let wide = rng.chance(2, 3);
                let mut go = g4c::gen_program(rng, !wide);
                let l4 = crate::sfnt::cmap::Layout4::choose(&go.prog.cmap, rng);
                let cmap_table = crate::sfnt::cmap::write_cmap(&[crate::sfnt::cmap::Record { platform: 3, encoding: 1, subtable: 0 }], &[l4.write(0)]);
                let mut built = go.prog.build(cmap_table.clone());
                if built.is_err() {
                    // 16-bit offsets overflowed: extension lookups, no padding (as the C04 check does)
                    for l in go.prog.gsub.lookups.iter_mut() {
                        l.ext = true;
                        l.pad = 0;
                    }
                    built = go.prog.build(cmap_table);
                }
                let built = match built {
                    Ok(b) => b,
                    Err(_) => {
                        cx.inconclusive("program:writer-overflow");
                        return;
                    }
                };
                let rf = match classify("c04-program", built.font) {
                    Some(r) => r,
                    None => {
                        cx.inconclusive("program:font-not-loadable");
                        return;
                    }
                };
                let tuples = if rf.has_fvar { self.real_tuples(&rf, rng) } else { Vec::new() };
                let mut pools = self.real_pools(&rf, class, tuples.len(), rng);
                // texts aimed at the program's lookups (the C04 string generator), as characters
                let all: Vec<u16> = (0..go.prog.gsub.lookups.len() as u16).collect();
                let mut texts = Vec::new();
                for _ in 0..(4 + rng.below(4)) {
                    let gids = g4c::gen_string(rng, &go, &all);
                    let s: String = gids.iter().filter_map(|g| go.prog.cmap.iter().find(|(_, v)| *v == g).and_then(|(c, _)| char::from_u32(*c))).collect();
                    if !s.is_empty() {
                        let sc = *rng.pick(&pools.scripts);
                        texts.push((s, sc));
                    }
                }
                if !texts.is_empty() {
                    pools.texts = texts;
                }
                cx.class(if wide { "program-font:wide" } else { "program-font:core" });
                faulted_bytes = rf.data;
                (faulted_bytes.as_slice(), "c04-program".to_string(), tuples, pools)
            }
            FontClass::Faulted => {
                gen = None;
                let f = &self.fonts[*rng.pick(&self.all)];
                match fault_font(&f.data, rng) {
                    Some((b, what)) => {
                        faulted_bytes = b;
                        for part in what.split(':') {
                            cx.class(&format!("faulted:{}", part));
                        }
                        let pools = self.real_pools(f, class, 0, rng);
                        (faulted_bytes.as_slice(), format!("{} [{}]", f.name, what), Vec::new(), pools)
                    }
                    None => {
                        cx.class("faulted:not-applicable");
                        return;
                    }
                }
            }
            _ => {
                gen = None;
                let list = match class {
                    FontClass::Shaping => &self.shaping,
                    FontClass::Variable => &self.variable,
                    FontClass::Images => &self.images,
                    _ => &self.all,
                };
                if list.is_empty() {
                    cx.inconclusive("no-font-of-class");
                    return;
                }
                let mut f = &self.fonts[*rng.pick(list)];
                if many {
                    // keep the long histories cheap: small fonts only
                    for _ in 0..8 {
                        if f.data.len() <= 200_000 {
                            break;
                        }
                        f = &self.fonts[*rng.pick(list)];
                    }
                }
                real_fv = f.has_gsub_fv && f.has_fvar;
                many_feature_tags = f.features.clone();
                many_langs = f.langs.clone();
                let tuples = if f.has_fvar { self.real_tuples(f, rng) } else { Vec::new() };
                let pools = self.real_pools(f, class, tuples.len(), rng);
                (f.data.as_slice(), f.name.clone(), tuples, pools)
            }
        };
        let mut pools = pools;
        if many {
            let font_tags: Vec<u32> = match gen.as_ref() {
                Some(g) => g.gsub.features.iter().map(|f| f.0).collect(),
                None => many_feature_tags.clone(),
            };
            widen_pools(&mut pools, &font_tags, &many_langs, rng);
        }
        let env = Env::new(bytes, tuples);
        let mut long = match load_font(bytes) {
            Some(f) => f,
            None => {
                if class == FontClass::Faulted {
                    cx.class("faulted:font-not-loadable");
                } else {
                    cx.inconclusive(if class == FontClass::Generated { "gen:font-not-loadable" } else { "font-not-loadable" });
                }
                return;
            }
        };
        let n_ops = if many { 70 + rng.below(131) } else { 2 + rng.below(39) };
        let mut history: Vec<Op> = Vec::new();
        let mut any_hit_after_different_args = false;
        let mut compared = 0u64;
        let mut program_failed_before = false;
        let mut violated = false;
        for step in 0..n_ops {
            let op = if many && !history.is_empty() && (step + 12 >= n_ops || rng.chance(1, 5)) {
                // revisit an early call (throughout, and for all of the last dozen steps)
                history[rng.below(history.len().min(15))].clone()
            } else {
                gen_op(&pools, rng)
            };
            // fresh-object model
            let fresh = match load_font(bytes) {
                Some(mut f) => quiet(|| env.run(&mut f, &op)).unwrap_or_else(|e| e),
                None => {
                    cx.inconclusive("font-not-loadable");
                    return;
                }
            };
            // generator self-check: the fresh font must agree with the description's interpreter
            if let (Some(g), Op::Shape(s)) = (gen.as_ref(), &op) {
                self.gen_self_check(cx, g, &env, s, &gen_raw_tuples, &fresh);
            }
            let before = allsorts::verif::snapshot();
            let got = quiet(|| env.run(&mut long, &op));
            let after = allsorts::verif::snapshot();
            let panicked = got.is_err();
            let got = got.unwrap_or_else(|e| e);
            compared += 1;
            cx.class(&format!("compared:{}", op.kind()));
            if class == FontClass::Program && matches!(op, Op::Shape(_)) {
                if fresh.contains("Err(") {
                    cx.class("program-font:shape-call-ends-in-error");
                    program_failed_before = true;
                } else if program_failed_before {
                    cx.class("program-font:shape-call-succeeds-after-a-failed-one");
                }
            }
            if class == FontClass::GenImages && matches!(op, Op::Image { .. }) && fresh.starts_with("Ok(Some(") {
                cx.class("gen-images:image-returned");
                // two different strikes / images returned within one history?
                if history.iter().any(|h| matches!(h, Op::Image { .. }) && *h != op) {
                    cx.class("gen-images:image-returned-after-other-image-lookup");
                }
            }
            let differs_from_earlier = history.iter().any(|h| *h != op);
            for (e, n) in hits_delta(&before, &after) {
                cx.class_n(&format!("hit:{}", e), n);
                if differs_from_earlier {
                    cx.class(&format!("hit-after-different-args:{}", e));
                    any_hit_after_different_args = true;
                }
            }
            if got != fresh {
                violated = true;
                self.report(cx, bytes, &name, class, &env, &history, &op, &got, &fresh, step);
                break; // the long-lived font is now known to be off; later differences are consequences
            }
            if panicked {
                cx.class("both-panicked-identically");
                if cx.verbose {
                    eprintln!("identical panic on long-lived and fresh font: font={} op={} :: {}", name, op.label(), got.replace('\n', " "));
                }
                cx.class(&format!("both-panicked-identically:{}", got.replace('\n', " ").chars().take(120).collect::<String>()));
                break; // the long-lived font may be left half-updated by the unwinding
            }
            history.push(op);
        }
        // classes about the history as a whole
        if let Some(g) = gen.as_ref() {
            self.gen_history_classes(cx, g, &history, &gen_raw_tuples);
            if g.far_applied {
                cx.class("gen:coverage-tables-65536-bytes-apart");
            }
        }
        let _ = violated;
        self.feature_pair_classes(cx, &history);
        if many {
            cx.class("many-keys:history");
            let mut keys: Vec<String> = Vec::new();
            let mut revisit = false;
            for op in &history {
                if let Op::Shape(s) = op {
                    if let Feat::Mask(_) = s.feat {
                        let k = format!("{} {:?} {:?} {:?}", s.script, s.lang, s.feat, s.tuple);
                        match keys.iter().position(|x| *x == k) {
                            Some(i) => {
                                if keys.len() - i > 64 {
                                    revisit = true;
                                }
                            }
                            None => keys.push(k),
                        }
                    }
                }
            }
            if keys.len() >= 64 {
                cx.class("many-keys:64-or-more-distinct-mask-keys");
            }
            if keys.len() >= 100 {
                cx.class("many-keys:100-or-more-distinct-mask-keys");
            }
            if revisit {
                cx.class("many-keys:key-revisited-after-64-newer-keys");
            }
        }
        cx.class(&format!("history:{:?}", class));
        if real_fv {
            cx.class("history:real-font-with-gsub-feature-variations");
        }
        if history.len() >= 2 && history.iter().any(|h| *h != history[0]) {
            cx.class("history:two-or-more-distinct-calls");
        }
        if any_hit_after_different_args && compared >= 2 {
            let mut h = hash_bytes(bytes);
            for op in &history {
                h = mix(h, hash_str(&op.label()));
            }
            cx.nontrivial(h);
        }
        if cx.want_sample() && history.len() >= 3 {
            cx.sample(J::obj(vec![
                ("font", J::s(name.clone())),
                ("class", J::s(format!("{:?}", class))),
                ("tuples", J::s(format!("{:?}", env.tuples))),
                ("history", J::A(history.iter().take(12).map(|o| J::s(o.label())).collect())),
                ("ops", J::U(history.len() as u64)),
            ]));
        }
    }

    /// Did the history ask for the same feature mask value both as `Mask` and as `Custom`
    /// (same script, language, tuple)?
    fn feature_pair_classes(&self, cx: &mut Ctx, history: &[Op]) {
        let shapes: Vec<&ShapeArgs> = history
            .iter()
            .filter_map(|o| match o {
                Op::Shape(s) => Some(s),
                _ => None,
            })
            .take(60)
            .collect();
        let (mut pair, mut alias) = (false, false);
        for (i, a) in shapes.iter().enumerate() {
            for b in &shapes[..i] {
                let (ma, mb) = (matches!(a.feat, Feat::Mask(_)), matches!(b.feat, Feat::Mask(_)));
                if ma != mb && a.script == b.script && a.lang == b.lang && a.tuple == b.tuple {
                    if let (Some(x), Some(y)) = (feat_bits(&a.feat), feat_bits(&b.feat)) {
                        if x == y && x != 0 {
                            pair = true;
                            if x & FeatureMask::VRT2_OR_VERT.bits() != 0 {
                                alias = true;
                            }
                        }
                    }
                }
            }
        }
        if pair {
            cx.class("feat-pair:custom-and-mask-with-equal-bits");
        }
        if alias {
            cx.class("feat-pair:custom-and-mask-with-vert-vrt2-bit");
        }
    }

    fn gen_self_check(&self, cx: &mut Ctx, g: &GenFont, env: &Env<'_>, s: &ShapeArgs, raws: &[Vec<i16>], fresh: &str) {
        if !parse_shape_ok(fresh) {
            cx.class("gen:fresh-shape-not-ok");
            return;
        }
        // only texts fully inside the modelled core (mapped letters, space, unmapped characters)
        if s.text.chars().any(|c| !modelled_char(c)) {
            return;
        }
        let feat = match &s.feat {
            Feat::Mask(b) => c03_gen::Feat::Mask(mask_tags(*b)),
            Feat::Custom(v) => c03_gen::Feat::Custom(v.iter().map(|x| x.0).collect()),
        };
        let tuple = s.tuple.and_then(|i| raws.get(i)).map(|v| v.as_slice());
        let expect = g.model_shape(&s.text, s.script, s.lang, &feat, tuple, s.kerning);
        let infos = match env.arg_infos(s) {
            Some(i) => i,
            None => return,
        };
        if run_of(&infos) == expect {
            cx.class("gen:fresh-agrees-with-model");
            if s.text.chars().any(|c| UNMAPPED.contains(&c)) {
                cx.class("gen:fresh-agrees-with-model-on-run-with-notdef");
            }
        } else {
            cx.class("gen:fresh-disagrees-with-model");
            if !self.model_mismatch_flag.replace(true) {
                cx.inconclusive("gen:model-mismatch");
            }
            if cx.verbose {
                eprintln!("model mismatch: {:?}\n expect {:?}\n got    {:?}\n gsub {:?}\n gpos {:?}\n tuple {:?} kern {:?}", s, expect, run_of(&infos), g.gsub, g.gpos, tuple, g.kern_pairs);
            }
        }
    }

    /// Did the history put two different tuples behind one (script, lang, features) key, such that
    /// the description says the results must differ?
    fn gen_history_classes(&self, cx: &mut Ctx, g: &GenFont, history: &[Op], raws: &[Vec<i16>]) {
        let shapes: Vec<&ShapeArgs> = history
            .iter()
            .filter_map(|o| match o {
                Op::Shape(s) => Some(s),
                _ => None,
            })
            .take(40)
            .collect();
        let mut gsub_pair = false;
        let mut gpos_pair = false;
        let model_feat = |f: &Feat| match f {
            Feat::Mask(m) => c03_gen::Feat::Mask(mask_tags(*m)),
            Feat::Custom(v) => c03_gen::Feat::Custom(v.iter().map(|x| x.0).collect()),
        };
        // .notdef as the first glyph of a shaped run, on a font with a lookup whose format 2
        // Coverage table covers glyph 0
        if g.gsub.has_format2_coverage_of_glyph0() || g.gpos.has_format2_coverage_of_glyph0() {
            cx.class("gen:coverage-format2-covers-glyph0");
            let mut other_glyphs_before = false;
            let (mut first, mut changed, mut changed_after) = (false, false, false);
            for s in &shapes {
                let text: String = s.text.chars().filter(|c| modelled_char(*c)).collect();
                let input = g.map_text(&text);
                if input.first() == Some(&0) {
                    first = true;
                    let tuple = s.tuple.and_then(|i| raws.get(i)).map(|v| v.as_slice());
                    let out = g.model_shape(&text, s.script, s.lang, &model_feat(&s.feat), tuple, s.kerning);
                    // only lookups that cover glyph 0 (all of them with a format 2 Coverage) can do this
                    if out.first().map_or(false, |x| x.0 != 0 || x.1 != 0) {
                        changed = true;
                        if other_glyphs_before {
                            changed_after = true;
                        }
                    }
                }
                if input.iter().any(|x| *x != 0) {
                    other_glyphs_before = true;
                }
            }
            if first {
                cx.class("hist:notdef-glyph-shaped-first");
            }
            if changed {
                cx.class("hist:notdef-first-glyph-substituted-or-adjusted");
            }
            if changed_after {
                cx.class("hist:notdef-first-glyph-substituted-or-adjusted-after-runs-with-other-glyphs");
            }
        }
        let far = g.far_gsub_substitutions() >= 2;
        if far {
            cx.class("gen:feature-substitution-tables-beyond-64k");
        }
        if g.far_gpos_substitutions() >= 2 {
            cx.class("gen:gpos-feature-substitution-tables-beyond-64k");
        }
        let is_far = |fts: &[Option<usize>], r: Option<usize>| r.and_then(|r| fts.get(r).copied().flatten()).map_or(false, |o| o >= 65535);
        for (i, a) in shapes.iter().enumerate() {
            for b in &shapes[..i] {
                if a.script == b.script && a.lang == b.lang && a.feat == b.feat && a.tuple != b.tuple {
                    let ta = a.tuple.and_then(|i| raws.get(i)).map(|v| v.as_slice());
                    let tb = b.tuple.and_then(|i| raws.get(i)).map(|v| v.as_slice());
                    let feat = model_feat(&a.feat);
                    // same text under both tuples: must the run differ?
                    let text: String = a.text.chars().filter(|c| modelled_char(*c)).collect();
                    let ra = g.model_shape(&text, a.script, a.lang, &feat, ta, a.kerning);
                    let rb = g.model_shape(&text, a.script, a.lang, &feat, tb, a.kerning);
                    if ra.iter().map(|x| x.0).ne(rb.iter().map(|x| x.0)) {
                        gsub_pair = true;
                        if matches!(a.feat, Feat::Mask(_)) {
                            cx.class("fv:gsub-mask-two-tuples-must-differ");
                            // both tuples select a record (two different ones) whose
                            // FeatureTableSubstitution table lies at or beyond byte 65535 of GSUB
                            let (ra_rec, rb_rec) = (g.gsub.select(ta), g.gsub.select(tb));
                            if far && ra_rec != rb_rec && is_far(&g.gsub_fts_at, ra_rec) && is_far(&g.gsub_fts_at, rb_rec) {
                                cx.class("fv:gsub-mask-two-substitution-tables-beyond-64k-must-differ");
                            }
                        }
                    }
                    if ra.iter().map(|x| x.1).ne(rb.iter().map(|x| x.1)) {
                        gpos_pair = true;
                    }
                }
            }
        }
        if gsub_pair {
            cx.class("fv:gsub-two-tuples-must-differ");
        }
        if gpos_pair {
            cx.class("fv:gpos-two-tuples-must-differ");
        }
    }

    /// Triage a difference: find a minimal (predecessor; probe) pair against the real code, minimise
    /// the argument difference, and report with a signature naming the pair of operation kinds and
    /// the arguments that have to differ.
    #[allow(clippy::too_many_arguments)]
    fn report(&self, cx: &mut Ctx, bytes: &[u8], name: &str, class: FontClass, env: &Env<'_>, history: &[Op], probe: &Op, got: &str, fresh: &str, step: usize) {
        let reproduces = |pre: &[Op]| -> Option<String> {
            let mut f = load_font(bytes)?;
            for h in pre {
                let _ = quiet(|| env.run(&mut f, h));
            }
            let r = quiet(|| env.run(&mut f, probe)).unwrap_or_else(|e| e);
            if r != fresh {
                Some(r)
            } else {
                None
            }
        };
        // 1. a single predecessor?
        let mut minimal: Option<(Op, String)> = None;
        for h in history.iter().rev() {
            if let Some(r) = reproduces(std::slice::from_ref(h)) {
                minimal = Some((h.clone(), r));
                break;
            }
        }
        let shorten = |s: &str| -> String { compact(s) };
        let (sig, detail) = match minimal {
            Some((mut h, mut r)) => {
                // 2. make the predecessor as similar to the probe as possible
                let nfields = probe.fields().len();
                if h.kind() == probe.kind() {
                    for i in 0..nfields {
                        let mut h2 = h.clone();
                        if h2.copy_field(probe, i) && h2 != h && h2 != *probe {
                            if let Some(r2) = reproduces(std::slice::from_ref(&h2)) {
                                h = h2;
                                r = r2;
                            }
                        }
                    }
                }
                let differing: Vec<&str> = if h.kind() == probe.kind() {
                    (0..nfields)
                        .filter(|&i| {
                            let mut h2 = h.clone();
                            h2.copy_field(probe, i);
                            h2 != h
                        })
                        .map(|i| probe.fields()[i])
                        .collect()
                } else {
                    Vec::new()
                };
                let sig = if h.kind() == probe.kind() { format!("{}<-{}:{}", probe.kind_refined(), h.kind_refined(), differing.join("+")) } else { format!("{}<-{}", probe.kind_refined(), h.kind_refined()) };
                (
                    sig,
                    vec![
                        ("minimal_history", J::A(vec![J::s(h.label())])),
                        ("probe", J::s(probe.label())),
                        ("after_history", J::s(shorten(&r))),
                        ("on_fresh_font", J::s(shorten(fresh))),
                    ],
                )
            }
            None => (
                format!("{}:needs-longer-history", probe.kind_refined()),
                vec![
                    ("history", J::A(history.iter().map(|o| J::s(o.label())).collect())),
                    ("probe", J::s(probe.label())),
                    ("after_history", J::s(shorten(got))),
                    ("on_fresh_font", J::s(shorten(fresh))),
                ],
            ),
        };
        let mut d = detail;
        d.push(("font", J::s(name)));
        d.push(("font_class", J::s(format!("{:?}", class))));
        d.push(("tuples", J::s(format!("{:?}", env.tuples))));
        d.push(("step", J::U(step as u64)));
        if class == FontClass::Generated && bytes.len() <= 8000 {
            d.push(("font_bytes", J::hex(bytes)));
        }
        cx.violation("history-differs", &sig, J::obj(d));
    }
}

impl Prop for C03 {
    fn case(&mut self, cx: &mut Ctx, rng: &mut Rng) {
        let mode = cx.mode.clone();
        match mode.as_str() {
            "pure" => self.pure.case(cx, rng),
            "outline" => self.outline.case(cx, rng),
            "gen" => self.history_case(cx, rng, FontClass::Generated, false),
            "shaping" => self.history_case(cx, rng, FontClass::Shaping, false),
            "variable" => self.history_case(cx, rng, FontClass::Variable, false),
            "images" => self.history_case(cx, rng, FontClass::Images, false),
            "any" => self.history_case(cx, rng, FontClass::Any, false),
            "faulted" => self.history_case(cx, rng, FontClass::Faulted, false),
            "genimages" => self.history_case(cx, rng, FontClass::GenImages, false),
            "program" => self.history_case(cx, rng, FontClass::Program, false),
            "many" => {
                let c = *rng.pick(&[FontClass::Generated, FontClass::Generated, FontClass::Generated, FontClass::Shaping, FontClass::Variable]);
                self.history_case(cx, rng, c, true)
            }
            _ => match rng.below(100) {
                0..=8 => self.pure.case(cx, rng),
                9..=11 => self.outline.case(cx, rng),
                12..=39 => self.history_case(cx, rng, FontClass::Generated, false),
                40..=67 => self.history_case(cx, rng, FontClass::Shaping, false),
                68..=71 => {
                    let c = *rng.pick(&[FontClass::Generated, FontClass::Generated, FontClass::Generated, FontClass::Shaping, FontClass::Variable]);
                    self.history_case(cx, rng, c, true)
                }
                72..=83 => self.history_case(cx, rng, FontClass::Variable, false),
                84..=86 => self.history_case(cx, rng, FontClass::Images, false),
                87..=89 => self.history_case(cx, rng, FontClass::GenImages, false),
                90..=92 => self.history_case(cx, rng, FontClass::Faulted, false),
                93..=96 => self.history_case(cx, rng, FontClass::Program, false),
                _ => self.history_case(cx, rng, FontClass::Any, false),
            },
        }
    }

    /// Finite sub-space enumerated completely: for every seed font, every ordered pair of
    /// `lookup_glyph_index(U+25CC, presentation, vs)` calls (12 x 12 argument combinations).
    fn exhaustive(&mut self, cx: &mut Ctx, shard: u64, of: u64) {
        if cx.mode == "pure" {
            return;
        }
        let mut combos = Vec::new();
        for required in [false, true] {
            for vs in VS_ALL {
                combos.push(Op::Lookup { ch: DOTTED_CIRCLE, required, vs: *vs });
            }
        }
        for (i, f) in self.fonts.iter().enumerate() {
            if (i as u64) % of.max(1) != shard {
                continue;
            }
            if f.data.len() > 600_000 {
                continue;
            }
            let env = Env::new(&f.data, Vec::new());
            let fresh: Vec<String> = combos
                .iter()
                .map(|op| match load_font(&f.data) {
                    Some(mut font) => quiet(|| env.run(&mut font, op)).unwrap_or_else(|e| e),
                    None => String::new(),
                })
                .collect();
            for h in &combos {
                for (pi, probe) in combos.iter().enumerate() {
                    let mut font = match load_font(&f.data) {
                        Some(x) => x,
                        None => continue,
                    };
                    let _ = quiet(|| env.run(&mut font, h));
                    let got = quiet(|| env.run(&mut font, probe)).unwrap_or_else(|e| e);
                    cx.class("exhaustive:dotted-circle-pair");
                    if got != fresh[pi] {
                        self.report(cx, &f.data, &f.name, FontClass::Shaping, &env, std::slice::from_ref(h), probe, &got, &fresh[pi], 1);
                    }
                }
            }
        }
    }
}
