//! C03 — generated fonts whose GSUB *and* GPOS carry `FeatureVariations` that replace the lookups
//! of ordinary features (`liga`, `calt`, `kern`, ... not only `rvrn`) under axis-range conditions,
//! plus an `fvar` so that variation tuples can be built.
//!
//! Everything is written from an abstract description (`LayoutD`) by the writer below (no allsorts
//! code); a tiny interpreter over the same description (`model_shape`) predicts the shaped run for
//! single substitutions / single and pair advance adjustments. The interpreter is used as a
//! generator self-check (fresh `Font` must agree with it, otherwise the case is inconclusive) and
//! to know which pairs of tuples *must* shape differently.

use crate::rt::*;
use crate::sfnt::cmap as icmap;
use crate::sfnt::tables::{minimal_font, write_hmtx, Hhea};
use crate::sfnt::{tag, W};
use std::collections::BTreeMap;

#[derive(Clone, Debug)]
pub enum Lk {
    /// GSUB type 1: (from, to) pairs, distinct `from`.
    Single(Vec<(u16, u16)>),
    /// GPOS type 1 format 1: xAdvance adjustment for all listed glyphs.
    SinglePos(Vec<u16>, i16),
    /// GPOS type 2 format 1: (first, second, xAdvance adjustment of the first).
    PairPos(Vec<(u16, u16, i16)>),
}

#[derive(Clone, Debug)]
pub struct ScriptD {
    pub tag: u32,
    /// feature indices of the default LangSys (None = no default LangSys)
    pub default: Option<Vec<u16>>,
    pub langs: Vec<(u32, Vec<u16>)>,
}

#[derive(Clone, Debug)]
pub struct VarRec {
    /// (axis index, min, max) raw F2Dot14; empty = matches everything
    pub conds: Vec<(u16, i16, i16)>,
    /// None = featureTableSubstitutionOffset 0 ("no substitutions are made")
    pub subst: Option<Vec<(u16, Vec<u16>)>>,
}

#[derive(Clone, Debug, Default)]
pub struct LayoutD {
    pub scripts: Vec<ScriptD>,
    pub features: Vec<(u32, Vec<u16>)>,
    pub lookups: Vec<Lk>,
    pub variations: Vec<VarRec>,
    /// Some(a): the last lookup's Coverage lies 65536 bytes after lookup a's Coverage
    pub far_coverage: Option<usize>,
    /// per lookup: its Coverage table is written in format 2 (ranges); missing = format 1.
    /// Lookups that cover glyph 0 (.notdef) always get format 2.
    pub cov2: Vec<bool>,
    /// 0 = FeatureVariations directly after the lookup list; 1 = the FeatureTableSubstitution
    /// tables are laid out at or beyond byte 65535 of the layout table (condition sets stay near);
    /// 2 = the whole FeatureVariations table starts beyond 64 KiB. Both are legal: the offsets
    /// involved are Offset32.
    pub far_fts: u8,
    /// where the first far FeatureTableSubstitution table goes (offset from the layout table start)
    pub far_fts_at: usize,
}

impl LayoutD {
    pub fn lookup_covers_glyph0(lk: &Lk) -> bool {
        match lk {
            Lk::Single(p) => p.iter().any(|x| x.0 == 0),
            Lk::SinglePos(g, _) => g.contains(&0),
            Lk::PairPos(p) => p.iter().any(|x| x.0 == 0),
        }
    }
    /// Is the Coverage table of lookup `i` written in format 2?
    pub fn coverage_format2(&self, i: usize) -> bool {
        self.cov2.get(i).copied().unwrap_or(false) || self.lookups.get(i).map_or(false, LayoutD::lookup_covers_glyph0)
    }
    /// Some lookup has a format 2 Coverage table with a range that starts at glyph 0.
    pub fn has_format2_coverage_of_glyph0(&self) -> bool {
        self.lookups.iter().any(LayoutD::lookup_covers_glyph0)
    }
}

/// What the writer did (offsets are from the start of the layout table).
#[derive(Clone, Debug, Default)]
pub struct Written {
    pub bytes: Vec<u8>,
    /// two Coverage tables really lie 65536 bytes apart
    pub far_coverage_applied: bool,
    /// per FeatureVariation record: offset of its FeatureTableSubstitution table (None = offset 0)
    pub fts_at: Vec<Option<usize>>,
}

#[derive(Clone, Debug)]
pub struct GenFont {
    pub gsub: LayoutD,
    pub gpos: LayoutD,
    pub axes: usize,
    pub num_glyphs: u16,
    pub cmap: BTreeMap<u32, u16>,
    pub advances: Vec<u16>,
    pub has_gdef: bool,
    /// `kern` table (version 0, one horizontal format 0 subtable); empty = no table
    pub kern_pairs: Vec<(u16, u16, i16)>,
    /// vhea + vmtx advance heights; None = no vertical metrics
    pub vadvances: Option<Vec<u16>>,
    /// a layout table really got two Coverage tables 65536 bytes apart
    pub far_applied: bool,
    /// offsets (from the table start) of the FeatureTableSubstitution tables, per variation record
    pub gsub_fts_at: Vec<Option<usize>>,
    pub gpos_fts_at: Vec<Option<usize>>,
    pub bytes: Vec<u8>,
}

// ---- writer -------------------------------------------------------------------------------------

/// `glyphs` sorted ascending and distinct. Format 2: maximal runs of consecutive glyph ids.
fn write_coverage(glyphs: &[u16], fmt2: bool) -> Vec<u8> {
    let mut w = W::new();
    if !fmt2 {
        w.u16(1).u16(glyphs.len() as u16);
        for g in glyphs {
            w.u16(*g);
        }
        return w.b;
    }
    let mut ranges: Vec<(u16, u16, u16)> = Vec::new(); // start, end, startCoverageIndex
    for (i, &g) in glyphs.iter().enumerate() {
        match ranges.last_mut() {
            Some(r) if r.1 as u32 + 1 == g as u32 => r.1 = g,
            _ => ranges.push((g, g, i as u16)),
        }
    }
    w.u16(2).u16(ranges.len() as u16);
    for r in &ranges {
        w.u16(r.0).u16(r.1).u16(r.2);
    }
    w.b
}

fn write_subtable(lk: &Lk, fmt2: bool, rng: &mut Rng) -> (u16, Vec<u8>) {
    match lk {
        Lk::Single(pairs) => {
            let mut p = pairs.clone();
            p.sort();
            let cov = write_coverage(&p.iter().map(|x| x.0).collect::<Vec<_>>(), fmt2);
            let delta = p.first().map(|x| x.1.wrapping_sub(x.0));
            let constant = p.iter().all(|x| Some(x.1.wrapping_sub(x.0)) == delta);
            let mut w = W::new();
            if constant && !p.is_empty() && rng.bool() {
                w.u16(1).u16(6).u16(delta.unwrap_or(0));
            } else {
                w.u16(2).u16(6 + 2 * p.len() as u16).u16(p.len() as u16);
                for x in &p {
                    w.u16(x.1);
                }
            }
            w.bytes(&cov);
            (1, w.b)
        }
        Lk::SinglePos(glyphs, adv) => {
            let mut g = glyphs.clone();
            g.sort();
            g.dedup();
            let cov = write_coverage(&g, fmt2);
            let mut w = W::new();
            if rng.bool() {
                w.u16(1).u16(8).u16(0x0004).i16(*adv);
            } else {
                w.u16(2).u16(8 + 2 * g.len() as u16).u16(0x0004).u16(g.len() as u16);
                for _ in &g {
                    w.i16(*adv);
                }
            }
            w.bytes(&cov);
            (1, w.b)
        }
        Lk::PairPos(pairs) => {
            let mut by_first: BTreeMap<u16, BTreeMap<u16, i16>> = BTreeMap::new();
            for &(a, b, v) in pairs {
                by_first.entry(a).or_default().entry(b).or_insert(v);
            }
            let firsts: Vec<u16> = by_first.keys().copied().collect();
            let cov = write_coverage(&firsts, fmt2);
            let header = 10 + 2 * firsts.len();
            let mut sets = Vec::new();
            for (_, m) in &by_first {
                let mut s = W::new();
                s.u16(m.len() as u16);
                for (b, v) in m {
                    s.u16(*b).i16(*v);
                }
                sets.push(s.b);
            }
            let mut w = W::new();
            w.u16(1).u16(0).u16(0x0004).u16(0).u16(firsts.len() as u16);
            let mut at = header;
            for s in &sets {
                w.u16(at as u16);
                at += s.len();
            }
            for s in &sets {
                w.bytes(s);
            }
            let cov_at = w.len();
            w.bytes(&cov);
            w.set_u16(2, cov_at as u16);
            (2, w.b)
        }
    }
}

/// `far`: lay the LAST lookup out so that its Coverage table starts exactly 65536 bytes after the
/// Coverage table of lookup `far` (zero padding in between): two distinct objects whose offsets
/// agree in the low 16 bits, as in real fonts with large layout tables.
fn write_lookup_list(d: &LayoutD, rng: &mut Rng) -> (Vec<u8>, bool) {
    let (lookups, far) = (&d.lookups, d.far_coverage);
    let mut bodies: Vec<Vec<u8>> = Vec::new();
    let mut cov_offsets: Vec<usize> = Vec::new(); // coverage offset inside the subtable
    let mut far_applied = false;
    for (i, lk) in lookups.iter().enumerate() {
        let (ty, sub) = write_subtable(lk, d.coverage_format2(i), rng);
        cov_offsets.push(crate::sfnt::be16(&sub, 2).unwrap_or(0) as usize);
        let mut w = W::new();
        w.u16(ty).u16(0).u16(1).u16(8);
        w.bytes(&sub);
        bodies.push(w.b);
    }
    if let (Some(a), true) = (far, lookups.len() >= 2) {
        let b = lookups.len() - 1;
        if a < b {
            let d: usize = bodies[a..b].iter().map(|x| x.len()).sum();
            let c_a = cov_offsets[a];
            let c_b_old = cov_offsets[b];
            if c_a < d && 65536 - d + c_a >= c_b_old {
                let c_b = 65536 - d + c_a;
                let body = bodies[b].clone();
                let (head, cov) = body.split_at(8 + c_b_old);
                let mut w = W::new();
                w.bytes(head);
                w.bytes(&vec![0u8; c_b - c_b_old]);
                w.bytes(cov);
                w.set_u16(8 + 2, c_b as u16);
                bodies[b] = w.b;
                far_applied = true;
            }
        }
    }
    let mut w = W::new();
    w.u16(lookups.len() as u16);
    let mut at = 2 + 2 * lookups.len();
    for b in &bodies {
        w.u16(at as u16);
        at += b.len();
    }
    for b in &bodies {
        w.bytes(b);
    }
    (w.b, far_applied)
}

fn write_feature_table(lookups: &[u16]) -> Vec<u8> {
    let mut w = W::new();
    w.u16(0).u16(lookups.len() as u16);
    for l in lookups {
        w.u16(*l);
    }
    w.b
}

fn write_feature_list(features: &[(u32, Vec<u16>)]) -> Vec<u8> {
    let mut w = W::new();
    w.u16(features.len() as u16);
    let mut at = 2 + 6 * features.len();
    let bodies: Vec<Vec<u8>> = features.iter().map(|f| write_feature_table(&f.1)).collect();
    for (f, b) in features.iter().zip(&bodies) {
        w.u32(f.0).u16(at as u16);
        at += b.len();
    }
    for b in &bodies {
        w.bytes(b);
    }
    w.b
}

fn write_langsys(features: &[u16]) -> Vec<u8> {
    let mut w = W::new();
    w.u16(0).u16(0xFFFF).u16(features.len() as u16);
    for f in features {
        w.u16(*f);
    }
    w.b
}

fn write_script(s: &ScriptD) -> Vec<u8> {
    let mut w = W::new();
    let header = 4 + 6 * s.langs.len();
    let mut bodies = Vec::new();
    let mut at = header;
    let default_at = match &s.default {
        Some(f) => {
            let b = write_langsys(f);
            let o = at;
            at += b.len();
            bodies.push(b);
            o
        }
        None => 0,
    };
    w.u16(default_at as u16).u16(s.langs.len() as u16);
    for (t, f) in &s.langs {
        let b = write_langsys(f);
        w.u32(*t).u16(at as u16);
        at += b.len();
        bodies.push(b);
    }
    for b in &bodies {
        w.bytes(b);
    }
    w.b
}

fn write_script_list(scripts: &[ScriptD]) -> Vec<u8> {
    let mut w = W::new();
    w.u16(scripts.len() as u16);
    let bodies: Vec<Vec<u8>> = scripts.iter().map(write_script).collect();
    let mut at = 2 + 6 * scripts.len();
    for (s, b) in scripts.iter().zip(&bodies) {
        w.u32(s.tag).u16(at as u16);
        at += b.len();
    }
    for b in &bodies {
        w.bytes(b);
    }
    w.b
}

fn write_condition_set(conds: &[(u16, i16, i16)]) -> Vec<u8> {
    let mut cs = W::new();
    cs.u16(conds.len() as u16);
    let mut at = 2 + 4 * conds.len();
    for _ in conds {
        cs.u32(at as u32);
        at += 8;
    }
    for &(axis, lo, hi) in conds {
        cs.u16(1).u16(axis).i16(lo).i16(hi);
    }
    cs.b
}

fn write_feature_table_substitution(subs: &[(u16, Vec<u16>)]) -> Vec<u8> {
    let mut s = subs.to_vec();
    s.sort_by_key(|x| x.0);
    let mut f = W::new();
    f.u16(1).u16(0).u16(s.len() as u16);
    let bodies: Vec<Vec<u8>> = s.iter().map(|x| write_feature_table(&x.1)).collect();
    let mut at = 6 + 6 * s.len();
    for (x, b) in s.iter().zip(&bodies) {
        f.u16(x.0).u32(at as u32);
        at += b.len();
    }
    for b in &bodies {
        f.bytes(b);
    }
    f.b
}

/// `far_from`: Some(n) = all condition sets first, then zero padding, then the
/// FeatureTableSubstitution tables from offset n of the FeatureVariations table on; None = each
/// record's condition set directly followed by its substitution table.
/// Returns the table and, per record, the offset of its substitution table within it.
fn write_feature_variations(v: &[VarRec], far_from: Option<usize>) -> (Vec<u8>, Vec<Option<usize>>) {
    let mut w = W::new();
    w.u16(1).u16(0).u32(v.len() as u32);
    let header = 8 + 8 * v.len();
    let mut blobs: Vec<u8> = Vec::new();
    let mut cs_at: Vec<usize> = Vec::new();
    let mut fts_at: Vec<Option<usize>> = Vec::new();
    match far_from {
        None => {
            for r in v {
                // condition set (always written, an empty one matches everything)
                cs_at.push(header + blobs.len());
                blobs.extend_from_slice(&write_condition_set(&r.conds));
                fts_at.push(r.subst.as_ref().map(|subs| {
                    let o = header + blobs.len();
                    blobs.extend_from_slice(&write_feature_table_substitution(subs));
                    o
                }));
            }
        }
        Some(n) => {
            for r in v {
                cs_at.push(header + blobs.len());
                blobs.extend_from_slice(&write_condition_set(&r.conds));
            }
            if header + blobs.len() < n {
                blobs.resize(n - header, 0);
            }
            for r in v {
                fts_at.push(r.subst.as_ref().map(|subs| {
                    let o = header + blobs.len();
                    blobs.extend_from_slice(&write_feature_table_substitution(subs));
                    o
                }));
            }
        }
    }
    for (c, f) in cs_at.iter().zip(&fts_at) {
        w.u32(*c as u32).u32(f.unwrap_or(0) as u32);
    }
    w.bytes(&blobs);
    (w.b, fts_at)
}

pub fn write_layout(d: &LayoutD, rng: &mut Rng) -> Written {
    let sl = write_script_list(&d.scripts);
    let fl = write_feature_list(&d.features);
    let (ll, far_coverage_applied) = write_lookup_list(d, rng);
    let mut w = W::new();
    let header = 14;
    let sl_at = header;
    let fl_at = sl_at + sl.len();
    let ll_at = fl_at + fl.len();
    let mut fv_at = ll_at + ll.len();
    // unrelated data of a big layout table between the lookup list and the FeatureVariations table
    let pad = if d.far_fts == 2 && !d.variations.is_empty() { d.far_fts_at.saturating_sub(fv_at) } else { 0 };
    fv_at += pad;
    w.u16(1).u16(1).u16(sl_at as u16).u16(fl_at as u16).u16(ll_at as u16);
    w.u32(if d.variations.is_empty() { 0 } else { fv_at as u32 });
    w.bytes(&sl).bytes(&fl).bytes(&ll);
    let mut fts_at = Vec::new();
    if !d.variations.is_empty() {
        w.bytes(&vec![0u8; pad]);
        let far_from = if d.far_fts == 1 { Some(d.far_fts_at.saturating_sub(fv_at)) } else { None };
        let (fv, at) = write_feature_variations(&d.variations, far_from);
        w.bytes(&fv);
        fts_at = at.into_iter().map(|o| o.map(|o| o + fv_at)).collect();
    }
    Written { bytes: w.b, far_coverage_applied, fts_at }
}

pub fn write_fvar(axes: &[(u32, i32, i32, i32)]) -> Vec<u8> {
    let mut w = W::new();
    w.u16(1).u16(0).u16(16).u16(2).u16(axes.len() as u16).u16(20).u16(0).u16(4 * axes.len() as u16 + 4);
    for (i, a) in axes.iter().enumerate() {
        w.u32(a.0).i32(a.1 << 16).i32(a.2 << 16).i32(a.3 << 16).u16(0).u16(256 + i as u16);
    }
    w.b
}

/// GDEF 1.0 with a glyph class definition that makes every glyph a base glyph.
fn write_gdef(num_glyphs: u16) -> Vec<u8> {
    let mut w = W::new();
    w.u16(1).u16(0).u16(12).u16(0).u16(0).u16(0);
    // ClassDef format 2, one range: all glyphs class 1 (base)
    w.u16(2).u16(1).u16(0).u16(num_glyphs.saturating_sub(1)).u16(1);
    w.b
}

fn write_kern(pairs: &[(u16, u16, i16)]) -> Vec<u8> {
    let mut m: BTreeMap<(u16, u16), i16> = BTreeMap::new();
    for &(a, b, v) in pairs {
        m.entry((a, b)).or_insert(v);
    }
    let n = m.len() as u16;
    let (sr, es, rs) = crate::sfnt::search_fields(n, 6);
    let mut w = W::new();
    w.u16(0).u16(1);
    w.u16(0).u16(14 + 6 * n).u16(0x0001);
    w.u16(n).u16(sr).u16(es).u16(rs);
    for ((a, b), v) in &m {
        w.u16(*a).u16(*b).i16(*v);
    }
    w.b
}

// ---- generator ----------------------------------------------------------------------------------

pub const GSUB_FEATURES: &[&str] = &["liga", "calt", "ccmp", "clig", "locl", "rlig", "smcp", "onum", "rvrn", "vert", "vrt2"];
pub const GPOS_FEATURES: &[&str] = &["kern", "dist", "mark", "liga", "smcp"];
pub const SCRIPTS: &[&str] = &["DFLT", "latn", "cyrl"];
pub const LANGS: &[&str] = &["TRK ", "ROM "];
pub const LETTERS: u16 = 12; // 'a'.. → glyph 1..=12
pub const TARGET_LO: u16 = 20;
pub const NUM_GLYPHS: u16 = 48;

/// F2Dot14 condition ranges that do not contain 0 (so the default instance never matches) and
/// some that do.
const RANGES: &[(i16, i16)] = &[(4096, 16384), (8192, 16384), (-16384, -4096), (-16384, -8192), (1, 8191), (-16384, 16384), (0, 16384)];
pub const COORDS: &[i16] = &[-16384, -8192, -4096, 0, 2048, 4096, 8192, 12288, 16384];

fn gen_layout(rng: &mut Rng, gpos: bool, axes: usize) -> LayoutD {
    let pool: &[&str] = if gpos { GPOS_FEATURES } else { GSUB_FEATURES };
    let mut names: Vec<&str> = pool.to_vec();
    rng.shuffle(&mut names);
    let nfeat = if gpos { 2 + rng.below(3) } else { 3 + rng.below(4) };
    let mut names: Vec<&str> = names.into_iter().take(nfeat).collect();
    // the interesting ordinary features are (nearly) always present
    let must = if gpos { "kern" } else { "liga" };
    if !names.contains(&must) && !rng.chance(1, 8) {
        names.push(must);
    }
    // `vert` and `vrt2` share one FeatureMask bit: often carry both (with different lookups)
    if !gpos && rng.chance(2, 5) {
        for n in ["vert", "vrt2"] {
            if !names.contains(&n) {
                names.push(n);
            }
        }
    }
    names.sort();
    let mut d = LayoutD::default();
    // one table in three: about half of its lookups act on glyph 0 (.notdef) too, through a
    // format 2 Coverage table whose first range starts at glyph 0 (0..=0, 0..=1, ... 0..=3)
    let zero = rng.chance(1, 3);
    let gen_lookup = |rng: &mut Rng| -> Lk {
        let upto0: Option<u16> = if zero && rng.bool() { Some(if rng.bool() { 0 } else { 1 + rng.below(3) as u16 }) } else { None };
        if gpos {
            if rng.bool() {
                let n = 1 + rng.below(4);
                let mut glyphs: Vec<u16> = (0..n).map(|_| 1 + rng.below(LETTERS as usize) as u16).collect();
                if let Some(k) = upto0 {
                    glyphs.extend(0..=k);
                }
                Lk::SinglePos(glyphs, *rng.pick(&[-120i16, -50, -7, 13, 40, 90, 250]))
            } else {
                let n = 1 + rng.below(5);
                let mut pairs: Vec<(u16, u16, i16)> = Vec::new();
                if let Some(k) = upto0 {
                    // .notdef as the first glyph of a pair (the one the Coverage table is asked about)
                    for first in 0..=k {
                        let second = if rng.chance(1, 3) { 0 } else { 1 + rng.below(LETTERS as usize) as u16 };
                        pairs.push((first, second, *rng.pick(&[-90i16, -33, 21, 60, 140])));
                    }
                }
                pairs.extend((0..n).map(|_| (1 + rng.below(LETTERS as usize) as u16, 1 + rng.below(LETTERS as usize) as u16, rng.range(-200, 200) as i16)).filter(|p| p.2 != 0));
                Lk::PairPos(pairs)
            }
        } else {
            let n = 1 + rng.below(4);
            let mut m: BTreeMap<u16, u16> = BTreeMap::new();
            for _ in 0..n {
                let from = if rng.chance(1, 5) { TARGET_LO + rng.below(8) as u16 } else { 1 + rng.below(LETTERS as usize) as u16 };
                let to = TARGET_LO + rng.below((NUM_GLYPHS - TARGET_LO) as usize) as u16;
                m.insert(from, to);
            }
            if let Some(k) = upto0 {
                for from in 0..=k {
                    let to = TARGET_LO + rng.below((NUM_GLYPHS - TARGET_LO) as usize) as u16;
                    m.insert(from, to);
                }
            }
            Lk::Single(m.into_iter().collect())
        }
    };
    // features: each has 1-2 default lookups; alternates (for the variations) are appended later
    for n in &names {
        let k = 1 + rng.below(2);
        let mut idx = Vec::new();
        for _ in 0..k {
            let lk = gen_lookup(rng);
            if let Lk::PairPos(p) = &lk {
                if p.is_empty() {
                    continue;
                }
            }
            idx.push(d.lookups.len() as u16);
            d.lookups.push(lk);
        }
        d.features.push((tag(n), idx));
    }
    // occasionally a duplicate feature record of the same tag (another language's version)
    if rng.chance(1, 3) {
        let f = rng.below(d.features.len());
        let t = d.features[f].0;
        let lk = gen_lookup(rng);
        if !matches!(&lk, Lk::PairPos(p) if p.is_empty()) {
            d.lookups.push(lk);
            let li = d.lookups.len() as u16 - 1;
            // keep the list sorted by tag: insert right after f
            d.features.insert(f + 1, (t, vec![li]));
        }
    }
    let nf = d.features.len();
    // scripts
    let mut snames: Vec<&str> = SCRIPTS.to_vec();
    rng.shuffle(&mut snames);
    let ns = 1 + rng.below(3);
    let mut snames: Vec<&str> = snames.into_iter().take(ns).collect();
    snames.sort();
    for s in snames {
        let pick_feats = |rng: &mut Rng| -> Vec<u16> {
            let mut v: Vec<u16> = (0..nf as u16).filter(|_| !rng.chance(1, 4)).collect();
            if rng.chance(1, 4) {
                rng.shuffle(&mut v);
            }
            v
        };
        let default = if rng.chance(1, 8) { None } else { Some(pick_feats(rng)) };
        let mut langs = Vec::new();
        for l in LANGS {
            if rng.chance(1, 3) {
                langs.push((tag(l), pick_feats(rng)));
            }
        }
        d.scripts.push(ScriptD { tag: tag(s), default, langs });
    }
    // feature variations
    let nv = 1 + rng.below(3);
    for _ in 0..nv {
        let nc = if rng.chance(1, 10) { 0 } else { 1 + rng.below(axes.min(2)) };
        let mut conds = Vec::new();
        for c in 0..nc {
            let axis = if c == 0 { 0 } else { 1 + rng.below(axes - 1) as u16 };
            let (lo, hi) = *rng.pick(RANGES);
            conds.push((axis, lo, hi));
        }
        let subst = if rng.chance(1, 10) {
            None
        } else {
            let mut s: BTreeMap<u16, Vec<u16>> = BTreeMap::new();
            let k = 1 + rng.below(2);
            for _ in 0..k {
                let fi = rng.below(nf) as u16;
                let mut alts = Vec::new();
                for _ in 0..1 + rng.below(2) {
                    if rng.chance(1, 4) && !d.lookups.is_empty() {
                        alts.push(rng.below(d.lookups.len()) as u16);
                    } else {
                        let lk = gen_lookup(rng);
                        if matches!(&lk, Lk::PairPos(p) if p.is_empty()) {
                            continue;
                        }
                        alts.push(d.lookups.len() as u16);
                        d.lookups.push(lk);
                    }
                }
                if rng.chance(1, 8) {
                    alts.clear(); // feature switched off in this region
                }
                s.insert(fi, alts);
            }
            Some(s.into_iter().collect())
        };
        d.variations.push(VarRec { conds, subst });
    }
    // FeatureTableSubstitution tables at or beyond byte 65535 of the table (GSUB: 1 in 6):
    // the first two records get disjoint regions of axis 0 and give one feature (the ordinary
    // `liga` / `kern` if present) different, new lookups
    if rng.chance(1, if gpos { 10 } else { 6 }) {
        d.far_fts = if rng.chance(2, 3) { 1 } else { 2 };
        d.far_fts_at = match rng.below(4) {
            0 => 65535,
            1 => 65536,
            2 => 65537 + rng.below(400),
            _ => 70000 + rng.below(5000),
        };
        let fi = d.features.iter().position(|f| f.0 == tag(must)).unwrap_or_else(|| rng.below(nf)) as u16;
        while d.variations.len() < 2 {
            d.variations.push(VarRec { conds: Vec::new(), subst: None });
        }
        let pos = *rng.pick(&[(4096i16, 16384i16), (8192, 16384)]);
        let neg = *rng.pick(&[(-16384i16, -4096i16), (-16384, -8192)]);
        let regions = if rng.bool() { [pos, neg] } else { [neg, pos] };
        for (k, c) in regions.iter().enumerate() {
            let mut lk = gen_lookup(rng);
            for _ in 0..8 {
                if !matches!(&lk, Lk::PairPos(p) if p.is_empty()) {
                    break;
                }
                lk = gen_lookup(rng);
            }
            let li = d.lookups.len() as u16;
            d.lookups.push(lk);
            let r = &mut d.variations[k];
            r.conds = vec![(0, c.0, c.1)];
            let subs = r.subst.get_or_insert_with(Vec::new);
            subs.retain(|s| s.0 != fi);
            subs.push((fi, vec![li]));
            subs.sort_by_key(|s| s.0);
        }
    }
    if rng.chance(1, 8) && d.lookups.len() >= 2 {
        d.far_coverage = Some(rng.below(d.lookups.len() - 1));
    }
    d.cov2 = (0..d.lookups.len()).map(|i| LayoutD::lookup_covers_glyph0(&d.lookups[i]) || rng.chance(1, 4)).collect();
    d
}

pub fn gen_font(rng: &mut Rng) -> GenFont {
    let axes = 1 + rng.below(2);
    let gsub = gen_layout(rng, false, axes);
    let gpos = gen_layout(rng, true, axes);
    let mut cmap: BTreeMap<u32, u16> = BTreeMap::new();
    for i in 0..LETTERS {
        cmap.insert('a' as u32 + i as u32, 1 + i);
    }
    cmap.insert(' ' as u32, 13);
    if rng.bool() {
        cmap.insert(0x25CC, 14);
    }
    let mut groups: Vec<(u32, u32, u32)> = Vec::new();
    for (&c, &g) in &cmap {
        groups.push((c, c, g as u32));
    }
    let sub = icmap::write_format12(&groups, 0);
    let cmap_bytes = icmap::write_cmap(&[icmap::Record { platform: 3, encoding: 10, subtable: 0 }], &[sub]);
    let mut f = minimal_font(cmap_bytes, NUM_GLYPHS, None);
    let advances: Vec<u16> = (0..NUM_GLYPHS).map(|g| 400 + 10 * g).collect();
    let metrics: Vec<(u16, i16)> = advances.iter().map(|a| (*a, 0i16)).collect();
    f.sets("hmtx", write_hmtx(&metrics, NUM_GLYPHS as usize));
    let hhea = Hhea { ascender: 800, descender: -200, advance_width_max: 1000, num_h_metrics: NUM_GLYPHS, caret_slope_rise: 1, ..Default::default() };
    f.sets("hhea", hhea.write());
    let gsub_w = write_layout(&gsub, rng);
    let gpos_w = write_layout(&gpos, rng);
    let far_applied = gsub_w.far_coverage_applied || gpos_w.far_coverage_applied;
    let (gsub_fts_at, gpos_fts_at) = (gsub_w.fts_at, gpos_w.fts_at);
    f.sets("GSUB", gsub_w.bytes);
    f.sets("GPOS", gpos_w.bytes);
    let axis_defs: Vec<(u32, i32, i32, i32)> = [(tag("wght"), 100, 400, 900), (tag("wdth"), 50, 100, 200)].iter().take(axes).copied().collect();
    f.sets("fvar", write_fvar(&axis_defs));
    let has_gdef = rng.chance(1, 3);
    if has_gdef {
        f.sets("GDEF", write_gdef(NUM_GLYPHS));
    }
    let mut kern_pairs = Vec::new();
    if rng.bool() {
        for _ in 0..1 + rng.below(6) {
            let p = (1 + rng.below(LETTERS as usize) as u16, 1 + rng.below(LETTERS as usize) as u16, rng.range(-150, 150) as i16);
            if !kern_pairs.iter().any(|q: &(u16, u16, i16)| q.0 == p.0 && q.1 == p.1) {
                kern_pairs.push(p);
            }
        }
        f.sets("kern", write_kern(&kern_pairs));
    }
    let vadvances = if rng.bool() {
        let v: Vec<u16> = (0..NUM_GLYPHS).map(|g| 1000 + 7 * g).collect();
        let metrics: Vec<(u16, i16)> = v.iter().map(|a| (*a, 0i16)).collect();
        f.sets("vmtx", write_hmtx(&metrics, NUM_GLYPHS as usize));
        let vhea = Hhea { ascender: 500, descender: -500, advance_width_max: 2000, num_h_metrics: NUM_GLYPHS, caret_slope_rise: 0, caret_slope_run: 1, ..Default::default() };
        f.sets("vhea", vhea.write());
        Some(v)
    } else {
        None
    };
    let bytes = f.build();
    GenFont { gsub, gpos, axes, num_glyphs: NUM_GLYPHS, cmap, advances, has_gdef, kern_pairs, vadvances, far_applied, gsub_fts_at, gpos_fts_at, bytes }
}

// ---- model --------------------------------------------------------------------------------------

impl LayoutD {
    /// Index of the first FeatureVariation record whose condition set holds for `tuple`.
    pub fn select(&self, tuple: Option<&[i16]>) -> Option<usize> {
        let t = tuple?;
        self.variations.iter().position(|r| {
            r.conds.iter().all(|&(axis, lo, hi)| match t.get(axis as usize) {
                Some(&v) => lo <= v && v <= hi,
                None => false,
            })
        })
    }

    fn langsys(&self, script: u32, lang: Option<u32>) -> Option<&Vec<u16>> {
        let s = self.scripts.iter().find(|s| s.tag == script).or_else(|| self.scripts.iter().find(|s| s.tag == tag("DFLT")))?;
        if let Some(l) = lang {
            if let Some(x) = s.langs.iter().find(|x| x.0 == l) {
                return Some(&x.1);
            }
        }
        s.default.as_ref()
    }

    /// Lookup indices of feature `ftag` in the given language system under `tuple`
    /// (first feature record of that tag in the LangSys; substituted when the selected
    /// variation record lists its feature index).
    pub fn feature_lookups(&self, script: u32, lang: Option<u32>, ftag: u32, tuple: Option<&[i16]>) -> Option<Vec<u16>> {
        let ls = self.langsys(script, lang)?;
        let fi = *ls.iter().find(|&&fi| self.features.get(fi as usize).map_or(false, |f| f.0 == ftag))?;
        if let Some(v) = self.select(tuple) {
            if let Some(subs) = &self.variations[v].subst {
                if let Some(s) = subs.iter().find(|s| s.0 == fi) {
                    return Some(s.1.clone());
                }
            }
        }
        Some(self.features[fi as usize].1.clone())
    }
}

#[derive(Clone, Debug, PartialEq)]
pub enum Feat {
    /// tags of the mask's features, in the order of allsorts' mask bits (only matters for GPOS)
    Mask(Vec<u32>),
    Custom(Vec<u32>),
}

fn apply_gsub_lookup(lk: &Lk, glyphs: &mut [u16]) {
    if let Lk::Single(m) = lk {
        for g in glyphs.iter_mut() {
            if let Some(x) = m.iter().find(|x| x.0 == *g) {
                *g = x.1;
            }
        }
    }
}

fn apply_gpos_lookup(lk: &Lk, glyphs: &[u16], kern: &mut [i32]) {
    match lk {
        Lk::SinglePos(gs, adv) => {
            for (i, g) in glyphs.iter().enumerate() {
                if gs.contains(g) {
                    kern[i] += *adv as i32;
                }
            }
        }
        Lk::PairPos(pairs) => {
            for i in 0..glyphs.len().saturating_sub(1) {
                // first pair record for (a, b) wins
                if let Some(p) = pairs.iter().find(|p| p.0 == glyphs[i] && p.1 == glyphs[i + 1]) {
                    kern[i] += p.2 as i32;
                }
            }
        }
        Lk::Single(_) => {}
    }
}

impl GenFont {
    /// Number of GSUB FeatureVariation records whose FeatureTableSubstitution table lies at or
    /// beyond byte 65535 of the table.
    pub fn far_gsub_substitutions(&self) -> usize {
        self.gsub_fts_at.iter().filter(|o| o.map_or(false, |o| o >= 65535)).count()
    }
    pub fn far_gpos_substitutions(&self) -> usize {
        self.gpos_fts_at.iter().filter(|o| o.map_or(false, |o| o >= 65535)).count()
    }

    pub fn map_text(&self, text: &str) -> Vec<u16> {
        text.chars().map(|c| self.cmap.get(&(c as u32)).copied().unwrap_or(0)).collect()
    }

    /// Expected (glyph id, kerning) run for default-script shaping of `text`.
    pub fn model_shape(&self, text: &str, script: u32, lang: Option<u32>, feat: &Feat, tuple: Option<&[i16]>, kerning: bool) -> Vec<(u16, i32)> {
        let mut glyphs = self.map_text(text);
        let rvrn = tag("rvrn");
        let d = &self.gsub;
        let mut ordered: BTreeMap<u16, ()> = BTreeMap::new();
        let tags: Vec<u32> = match feat {
            Feat::Mask(t) => {
                if tuple.is_some() {
                    if let Some(ls) = d.feature_lookups(script, lang, rvrn, tuple) {
                        let mut ls = ls;
                        ls.sort();
                        ls.dedup();
                        for l in ls {
                            if let Some(lk) = d.lookups.get(l as usize) {
                                apply_gsub_lookup(lk, &mut glyphs);
                            }
                        }
                    }
                }
                t.iter().copied().filter(|t| *t != rvrn).collect()
            }
            Feat::Custom(t) => {
                if t.contains(&rvrn) {
                    if let Some(ls) = d.feature_lookups(script, lang, rvrn, tuple) {
                        // applied in the order listed by the feature table
                        for l in ls {
                            if let Some(lk) = d.lookups.get(l as usize) {
                                apply_gsub_lookup(lk, &mut glyphs);
                            }
                        }
                    }
                }
                t.iter().copied().filter(|t| *t != rvrn).collect()
            }
        };
        for t in &tags {
            let mut found = d.feature_lookups(script, lang, *t, tuple);
            // a mask's VRT2_OR_VERT bit means `vrt2`, falling back to `vert`
            if found.is_none() && *t == tag("vrt2") && matches!(feat, Feat::Mask(_)) {
                found = d.feature_lookups(script, lang, tag("vert"), tuple);
            }
            if let Some(ls) = found {
                for l in ls {
                    ordered.insert(l, ());
                }
            }
        }
        for (l, _) in &ordered {
            if let Some(lk) = d.lookups.get(*l as usize) {
                apply_gsub_lookup(lk, &mut glyphs);
            }
        }
        for g in glyphs.iter_mut() {
            if *g >= self.num_glyphs {
                *g = 0;
            }
        }
        // GPOS
        let p = &self.gpos;
        let mut kern = vec![0i32; glyphs.len()];
        let mut feats: Vec<u32> = vec![tag("dist")];
        if kerning {
            feats.push(tag("kern"));
        }
        feats.push(tag("mark"));
        feats.push(tag("mkmk"));
        match feat {
            Feat::Mask(t) | Feat::Custom(t) => feats.extend(t.iter().copied()),
        }
        // no language system at all: GPOS does nothing (not even the kern table fallback)
        if p.langsys(script, lang).is_none() {
            return glyphs.into_iter().zip(kern).collect();
        }
        for t in feats {
            if let Some(mut ls) = p.feature_lookups(script, lang, t, tuple) {
                ls.sort();
                ls.dedup();
                for l in ls {
                    if let Some(lk) = p.lookups.get(l as usize) {
                        apply_gpos_lookup(lk, &glyphs, &mut kern);
                    }
                }
            } else if t == tag("kern") && !self.kern_pairs.is_empty() {
                // `kern` requested but not in GPOS: the kern table's pair values are added
                for i in 0..glyphs.len().saturating_sub(1) {
                    kern[i] += self.kern_pairs.iter().find(|q| q.0 == glyphs[i] && q.1 == glyphs[i + 1]).map_or(0, |q| q.2 as i32);
                }
            }
        }
        glyphs.into_iter().zip(kern).collect()
    }
}
