//! C15 helpers: sfnt tables (head, hhea, maxp, hmtx, name, OS/2, post, cvt, loca, glyf, cmap).

use super::*;
use allsorts::binary::read::{ReadArrayCow, ReadScope};
use allsorts::binary::write::{WriteBinary, WriteBinaryDep, WriteBuffer, WriteContext};
use allsorts::binary::{I16Be, I32Be, I64Be, U16Be, U24Be, U32Be, I8, U8};
use allsorts::error::{ParseError, WriteError};
use allsorts::tables::glyf::BoundingBox;
use allsorts::tables::loca::{owned as oloca, LocaOffsets, LocaTable};
use allsorts::tables::{
    CvtTable, F2Dot14, Fixed, HeadTable, HheaTable, HmtxTable, IndexToLocFormat, LangTagRecord, LongHorMetric,
    MacStyle, MaxpTable, MaxpVersion1SubTable, NameRecord, TableRecord,
};

/// parse (guarded) -> fingerprint -> serialise (guarded)
pub fn mk_step<V>(
    cx: &mut Ctx,
    what: &str,
    len: usize,
    parse: impl FnOnce() -> Result<V, ParseError>,
    fpf: impl FnOnce(&V) -> Fp,
    write: impl FnOnce(&mut WriteBuffer, V) -> Result<(), WriteError>,
) -> Step {
    let v = match cx.guard(&format!("{}::read", what), len, parse) {
        None => return Step::Panic,
        Some(Err(e)) => return Step::ParseErr(perr(&e)),
        Some(Ok(v)) => v,
    };
    let fp = match cx.guard(&format!("{}::inspect", what), len, || fpf(&v)) {
        None => return Step::Panic,
        Some(f) => f,
    };
    let out = gwrite(cx, &format!("{}::write", what), len, |b| write(b, v));
    Step::Parsed { fp, out }
}

pub fn rd_of(s: Step) -> Rd {
    match s {
        Step::Panic => Rd::Panic,
        Step::ParseErr(e) => Rd::Err(e),
        Step::Parsed { fp, .. } => Rd::Ok(fp),
    }
}

/// Oracle 1 tail: bytes written from an in-limits value; re-read, compare, and require that writing
/// the re-read value reproduces the bytes.
pub fn finish_rt(cx: &mut Ctx, name: &str, expected: &Fp, w: Wr, step: &mut dyn FnMut(&mut Ctx, &[u8]) -> Step, witness: &dyn Fn() -> J) {
    let bytes = match expect_written(cx, name, w, witness) {
        Some(b) => b,
        None => return,
    };
    let s = step(cx, &bytes);
    let (rd, out) = match s {
        Step::Panic => (Rd::Panic, None),
        Step::ParseErr(e) => (Rd::Err(e), None),
        Step::Parsed { fp, out } => (Rd::Ok(fp), Some(out)),
    };
    if expect_same(cx, name, expected, &bytes, rd, witness) {
        match out {
            Some(Wr::Ok(b2)) if b2 != bytes => cx.violation(
                "rt-rewrite-differs",
                name,
                J::obj(vec![
                    ("structure", J::s(name)),
                    ("b1", trunc_hex(&bytes)),
                    ("b2", trunc_hex(&b2)),
                    ("value", witness()),
                ]),
            ),
            Some(Wr::Err(e)) => cx.violation(
                "rt-rewrite-refused",
                &format!("{}:{}", name, werr(&e)),
                J::obj(vec![("structure", J::s(name)), ("b1", trunc_hex(&bytes)), ("value", witness())]),
            ),
            _ => {}
        }
        if cx.want_sample() {
            cx.sample(J::obj(vec![("structure", J::s(name)), ("bytes", trunc_hex(&bytes)), ("value", witness())]));
        }
    }
}

pub fn i2l(f: IndexToLocFormat) -> &'static str {
    match f {
        IndexToLocFormat::Short => "Short",
        IndexToLocFormat::Long => "Long",
    }
}

// ---------------------------------------------------------------------------------------------
// primitives
// ---------------------------------------------------------------------------------------------

pub fn exhaustive_prims(cx: &mut Ctx) {
    // every F2Dot14 / I16 / U16 value, all bytes, boundary sets for the wider types
    let bad = cx.guard("prims", 0, || -> Option<String> {
        let mut b = WriteBuffer::new();
        for v in i16::MIN..=i16::MAX {
            b.clear();
            if F2Dot14::write(&mut b, F2Dot14::from_raw(v)).is_err() || I16Be::write(&mut b, v).is_err() || U16Be::write(&mut b, v as u16).is_err() {
                return Some(format!("write failed for {}", v));
            }
            let mut c = ReadScope::new(b.bytes()).ctxt();
            let f = c.read::<F2Dot14>().ok().map(|f| f.raw_value());
            let i = c.read::<I16Be>().ok();
            let u = c.read::<U16Be>().ok();
            if f != Some(v) || i != Some(v) || u != Some(v as u16) || b.bytes() != [v.to_be_bytes(), v.to_be_bytes(), v.to_be_bytes()].concat().as_slice() {
                return Some(format!("16-bit value {} -> {:?} {:?} {:?}", v, f, i, u));
            }
        }
        for v in 0..=255u8 {
            b.clear();
            if U8::write(&mut b, v).is_err() || I8::write(&mut b, v as i8).is_err() {
                return Some("u8 write".to_string());
            }
            let mut c = ReadScope::new(b.bytes()).ctxt();
            if c.read::<U8>().ok() != Some(v) || c.read::<I8>().ok() != Some(v as i8) {
                return Some(format!("8-bit value {}", v));
            }
        }
        let edges: [u64; 14] = [0, 1, 0x7F, 0x80, 0xFF, 0x100, 0x7FFF, 0x8000, 0xFFFF, 0x1_0000, 0xFF_FFFF, 0x100_0000, 0x7FFF_FFFF, 0xFFFF_FFFF];
        for &e in &edges {
            for d in [-1i64, 0, 1] {
                let v = (e as i64 + d) as u64;
                let v32 = v as u32;
                b.clear();
                let ok = U32Be::write(&mut b, v32).is_ok() && I32Be::write(&mut b, v32 as i32).is_ok() && Fixed::write(&mut b, Fixed::from_raw(v32 as i32)).is_ok() && I64Be::write(&mut b, (v << 17) as i64).is_ok();
                if !ok {
                    return Some("32-bit write".to_string());
                }
                let mut c = ReadScope::new(b.bytes()).ctxt();
                if c.read::<U32Be>().ok() != Some(v32) || c.read::<I32Be>().ok() != Some(v32 as i32) || c.read::<Fixed>().ok().map(|f| f.raw_value()) != Some(v32 as i32) || c.read::<I64Be>().ok() != Some((v << 17) as i64) {
                    return Some(format!("32/64-bit value {:#x}", v32));
                }
                // U24: in range must round trip, out of range must be refused
                b.clear();
                let r = U24Be::write(&mut b, v32);
                if v32 <= 0xFF_FFFF {
                    if r.is_err() || ReadScope::new(b.bytes()).ctxt().read::<U24Be>().ok() != Some(v32) || b.len() != 3 {
                        return Some(format!("U24 value {:#x}", v32));
                    }
                } else if r.is_ok() {
                    return Some(format!("U24 accepted {:#x}", v32));
                }
            }
        }
        None
    });
    match bad {
        Some(None) => {
            cx.class("rt:primitives");
            cx.class("overflow:u24:err");
            cx.nontrivial(hash_str("prims"));
        }
        Some(Some(msg)) => cx.violation("rt-differs", "primitive", J::obj(vec![("what", J::s(msg))])),
        None => {}
    }
}

pub fn rt_small_records(cx: &mut Ctx, rng: &mut Rng) {
    // LongHorMetric, NameRecord, LangTagRecord, TableRecord, IndexToLocFormat, BoundingBox
    let v: Vec<u16> = (0..8).map(|_| edge_u16(rng)).collect();
    let w32: Vec<u32> = (0..4).map(|_| edge_u32(rng)).collect();
    let long = rng.bool();
    let w = gwrite(cx, "records::write", 64, |b| {
        LongHorMetric::write(b, LongHorMetric { advance_width: v[0], lsb: v[1] as i16 })?;
        NameRecord::write(b, NameRecord { platform_id: v[0], encoding_id: v[1], language_id: v[2], name_id: v[3], length: v[4], offset: v[5] })?;
        LangTagRecord::write(b, LangTagRecord { length: v[6], offset: v[7] })?;
        TableRecord::write(b, &TableRecord { table_tag: w32[0], checksum: w32[1], offset: w32[2], length: w32[3] })?;
        IndexToLocFormat::write(b, if long { IndexToLocFormat::Long } else { IndexToLocFormat::Short })?;
        BoundingBox::write(b, BoundingBox { x_min: v[0] as i16, y_min: v[1] as i16, x_max: v[2] as i16, y_max: v[3] as i16 })?;
        Ok(())
    });
    let expected: Fp = fp![
        "LongHorMetric" => (v[0], v[1] as i16),
        "NameRecord" => (v[0], v[1], v[2], v[3], v[4], v[5]),
        "LangTagRecord" => (v[6], v[7]),
        "TableRecord" => (w32[0], w32[1], w32[2], w32[3]),
        "IndexToLocFormat" => if long { "Long" } else { "Short" },
        "BoundingBox" => (v[0] as i16, v[1] as i16, v[2] as i16, v[3] as i16),
    ];
    let wit = || J::s(format!("{:?} {:?} long={}", v, w32, long));
    let bytes = match expect_written(cx, "records", w, &wit) {
        Some(b) => b,
        None => return,
    };
    let r = cx.guard("records::read", bytes.len(), || -> Result<Fp, ParseError> {
        let mut c = ReadScope::new(&bytes).ctxt();
        let m = c.read::<LongHorMetric>()?;
        let n = c.read::<NameRecord>()?;
        let l = c.read::<LangTagRecord>()?;
        let t = c.read::<TableRecord>()?;
        let f = c.read::<IndexToLocFormat>()?;
        let bb = c.read::<BoundingBox>()?;
        if c.bytes_available() {
            return Err(ParseError::BadValue);
        }
        Ok(fp![
            "LongHorMetric" => (m.advance_width, m.lsb),
            "NameRecord" => (n.platform_id, n.encoding_id, n.language_id, n.name_id, n.length, n.offset),
            "LangTagRecord" => (l.length, l.offset),
            "TableRecord" => (t.table_tag, t.checksum, t.offset, t.length),
            "IndexToLocFormat" => i2l(f),
            "BoundingBox" => (bb.x_min, bb.y_min, bb.x_max, bb.y_max),
        ])
    });
    let rd = match r {
        None => Rd::Panic,
        Some(Err(e)) => Rd::Err(perr(&e)),
        Some(Ok(f)) => Rd::Ok(f),
    };
    expect_same(cx, "records", &expected, &bytes, rd, &wit);
}

// ---------------------------------------------------------------------------------------------
// head / hhea / maxp
// ---------------------------------------------------------------------------------------------

pub fn fp_head(h: &HeadTable) -> Fp {
    fp![
        "major_version" => h.major_version,
        "minor_version" => h.minor_version,
        "font_revision" => h.font_revision.raw_value(),
        "check_sum_adjustment" => h.check_sum_adjustment,
        "magic_number" => h.magic_number,
        "flags" => h.flags,
        "units_per_em" => h.units_per_em,
        "created" => h.created,
        "modified" => h.modified,
        "bbox" => (h.x_min, h.y_min, h.x_max, h.y_max),
        "mac_style" => h.mac_style.bits(),
        "lowest_rec_ppem" => h.lowest_rec_ppem,
        "font_direction_hint" => h.font_direction_hint,
        "index_to_loc_format" => i2l(h.index_to_loc_format),
        "glyph_data_format" => h.glyph_data_format,
    ]
}

pub fn write_head(b: &mut WriteBuffer, h: &HeadTable) -> Result<(), WriteError> {
    let ph = HeadTable::write(b, h)?;
    b.write_placeholder(ph, h.check_sum_adjustment)?;
    Ok(())
}

pub fn step_head(cx: &mut Ctx, bytes: &[u8]) -> Step {
    mk_step(cx, "HeadTable", bytes.len(), || ReadScope::new(bytes).read::<HeadTable>(), fp_head, |b, h| write_head(b, &h))
}

pub fn rt_head(cx: &mut Ctx, rng: &mut Rng) {
    let h = HeadTable {
        // the only version of the table (a reader may reject others)
        major_version: 1,
        minor_version: 0,
        font_revision: Fixed::from_raw(edge_u32(rng) as i32),
        check_sum_adjustment: edge_u32(rng),
        magic_number: 0x5F0F3CF5,
        flags: rng.u16(),
        units_per_em: edge_u16(rng),
        created: rng.u64() as i64,
        modified: if rng.bool() { i64::MIN } else { rng.u64() as i64 },
        x_min: edge_i16(rng),
        y_min: edge_i16(rng),
        x_max: edge_i16(rng),
        y_max: edge_i16(rng),
        mac_style: MacStyle::from_bits_truncate(rng.u16()),
        lowest_rec_ppem: edge_u16(rng),
        font_direction_hint: edge_i16(rng),
        index_to_loc_format: if rng.bool() { IndexToLocFormat::Long } else { IndexToLocFormat::Short },
        glyph_data_format: edge_i16(rng),
    };
    let exp = fp_head(&h);
    let w = gwrite(cx, "HeadTable::write", 54, |b| write_head(b, &h));
    let wit = || J::s(format!("{:?} (font_revision raw {})", h, h.font_revision.raw_value()));
    finish_rt(cx, "head", &exp, w, &mut |cx, b| step_head(cx, b), &wit);
}

pub fn fp_hhea(h: &HheaTable) -> Fp {
    fp![
        "ascender" => h.ascender, "descender" => h.descender, "line_gap" => h.line_gap,
        "advance_width_max" => h.advance_width_max, "min_left_side_bearing" => h.min_left_side_bearing,
        "min_right_side_bearing" => h.min_right_side_bearing, "x_max_extent" => h.x_max_extent,
        "caret_slope_rise" => h.caret_slope_rise, "caret_slope_run" => h.caret_slope_run,
        "caret_offset" => h.caret_offset, "num_h_metrics" => h.num_h_metrics,
    ]
}

pub fn step_hhea(cx: &mut Ctx, bytes: &[u8]) -> Step {
    mk_step(cx, "HheaTable", bytes.len(), || ReadScope::new(bytes).read::<HheaTable>(), fp_hhea, |b, h| HheaTable::write(b, &h))
}

pub fn rt_hhea(cx: &mut Ctx, rng: &mut Rng) {
    let h = HheaTable {
        ascender: edge_i16(rng),
        descender: edge_i16(rng),
        line_gap: edge_i16(rng),
        advance_width_max: edge_u16(rng),
        min_left_side_bearing: edge_i16(rng),
        min_right_side_bearing: edge_i16(rng),
        x_max_extent: edge_i16(rng),
        caret_slope_rise: edge_i16(rng),
        caret_slope_run: edge_i16(rng),
        caret_offset: edge_i16(rng),
        num_h_metrics: edge_u16(rng),
    };
    let exp = fp_hhea(&h);
    let w = gwrite(cx, "HheaTable::write", 36, |b| HheaTable::write(b, &h));
    let wit = || J::s(format!("{:?}", h));
    finish_rt(cx, "hhea", &exp, w, &mut |cx, b| step_hhea(cx, b), &wit);
}

pub fn fp_maxp(m: &MaxpTable) -> Fp {
    let mut f = fp!["num_glyphs" => m.num_glyphs, "version" => if m.version1_sub_table.is_some() { "1.0" } else { "0.5" }];
    if let Some(s) = &m.version1_sub_table {
        f.extend(fp![
            "max_points" => s.max_points, "max_contours" => s.max_contours,
            "max_composite_points" => s.max_composite_points, "max_composite_contours" => s.max_composite_contours,
            "max_zones" => s.max_zones, "max_twilight_points" => s.max_twilight_points, "max_storage" => s.max_storage,
            "max_function_defs" => s.max_function_defs, "max_instruction_defs" => s.max_instruction_defs,
            "max_stack_elements" => s.max_stack_elements, "max_size_of_instructions" => s.max_size_of_instructions,
            "max_component_elements" => s.max_component_elements, "max_component_depth" => s.max_component_depth,
        ]);
    }
    f
}

pub fn step_maxp(cx: &mut Ctx, bytes: &[u8]) -> Step {
    mk_step(cx, "MaxpTable", bytes.len(), || ReadScope::new(bytes).read::<MaxpTable>(), fp_maxp, |b, m| MaxpTable::write(b, &m))
}

pub fn rt_maxp(cx: &mut Ctx, rng: &mut Rng) {
    let v1 = rng.bool();
    let m = MaxpTable {
        num_glyphs: edge_u16(rng),
        version1_sub_table: if v1 {
            Some(MaxpVersion1SubTable {
                max_points: edge_u16(rng),
                max_contours: edge_u16(rng),
                max_composite_points: edge_u16(rng),
                max_composite_contours: edge_u16(rng),
                max_zones: edge_u16(rng),
                max_twilight_points: edge_u16(rng),
                max_storage: edge_u16(rng),
                max_function_defs: edge_u16(rng),
                max_instruction_defs: edge_u16(rng),
                max_stack_elements: edge_u16(rng),
                max_size_of_instructions: edge_u16(rng),
                max_component_elements: edge_u16(rng),
                max_component_depth: edge_u16(rng),
            })
        } else {
            None
        },
    };
    let exp = fp_maxp(&m);
    let w = gwrite(cx, "MaxpTable::write", 32, |b| MaxpTable::write(b, &m));
    let wit = || J::s(format!("{:?}", m));
    finish_rt(cx, if v1 { "maxp-v1" } else { "maxp-v0.5" }, &exp, w, &mut |cx, b| step_maxp(cx, b), &wit);
}

// ---------------------------------------------------------------------------------------------
// hmtx / cvt / loca
// ---------------------------------------------------------------------------------------------

pub fn fp_hmtx(h: &HmtxTable<'_>) -> Fp {
    let hm: Vec<(u16, i16)> = h.h_metrics.iter().map(|m| (m.advance_width, m.lsb)).collect();
    let ls: Vec<i16> = h.left_side_bearings.iter().collect();
    fp!["num_h_metrics" => hm.len(), "num_lsb" => ls.len(), "h_metrics" => fv(&hm), "left_side_bearings" => fv(&ls)]
}

pub fn step_hmtx(cx: &mut Ctx, bytes: &[u8], num_glyphs: usize, num_h_metrics: usize) -> Step {
    mk_step(
        cx,
        "HmtxTable",
        bytes.len(),
        || ReadScope::new(bytes).read_dep::<HmtxTable<'_>>((num_glyphs, num_h_metrics)),
        fp_hmtx,
        |b, h| HmtxTable::write(b, &h),
    )
}

pub fn rt_hmtx(cx: &mut Ctx, rng: &mut Rng) {
    let num_glyphs = match rng.below(20) {
        0 => 0,
        1 => 65535,
        _ => rng.small(600),
    };
    let num_h = match rng.below(4) {
        0 => num_glyphs,
        1 => num_glyphs.min(1),
        _ => rng.below(num_glyphs + 1),
    };
    let hm: Vec<LongHorMetric> = (0..num_h).map(|_| LongHorMetric { advance_width: edge_u16(rng), lsb: edge_i16(rng) }).collect();
    let ls: Vec<i16> = (0..num_glyphs - num_h).map(|_| edge_i16(rng)).collect();
    let borrowed = rng.bool();
    let mut raw = Vec::new();
    for m in &hm {
        raw.extend_from_slice(&m.advance_width.to_be_bytes());
        raw.extend_from_slice(&m.lsb.to_be_bytes());
    }
    let split = raw.len();
    for l in &ls {
        raw.extend_from_slice(&l.to_be_bytes());
    }
    let t = if borrowed {
        let a = ReadScope::new(&raw[..split]).ctxt().read_array::<LongHorMetric>(num_h);
        let b = ReadScope::new(&raw[split..]).ctxt().read_array::<I16Be>(ls.len());
        match (a, b) {
            (Ok(a), Ok(b)) => HmtxTable { h_metrics: ReadArrayCow::Borrowed(a), left_side_bearings: ReadArrayCow::Borrowed(b) },
            _ => {
                cx.inconclusive("hmtx-gen");
                return;
            }
        }
    } else {
        HmtxTable { h_metrics: ReadArrayCow::Owned(hm.clone()), left_side_bearings: ReadArrayCow::Owned(ls.clone()) }
    };
    let hmv: Vec<(u16, i16)> = hm.iter().map(|m| (m.advance_width, m.lsb)).collect();
    let exp: Fp = fp!["num_h_metrics" => num_h, "num_lsb" => ls.len(), "h_metrics" => fv(&hmv), "left_side_bearings" => fv(&ls)];
    let w = gwrite(cx, "HmtxTable::write", raw.len(), |b| HmtxTable::write(b, &t));
    let wit = || J::obj(vec![("num_glyphs", J::U(num_glyphs as u64)), ("num_h_metrics", J::U(num_h as u64)), ("borrowed", J::Bool(borrowed)), ("raw", trunc_hex(&raw))]);
    if num_h < num_glyphs {
        cx.class("rt:hmtx:fewer-hmetrics-than-glyphs");
    }
    finish_rt(cx, "hmtx", &exp, w, &mut |cx, b| step_hmtx(cx, b, num_glyphs, num_h), &wit);
}

pub fn fp_cvt(c: &CvtTable<'_>) -> Fp {
    let v: Vec<i16> = c.values.iter().collect();
    fp!["count" => v.len(), "values" => fv(&v)]
}

pub fn step_cvt(cx: &mut Ctx, bytes: &[u8]) -> Step {
    mk_step(cx, "CvtTable", bytes.len(), || ReadScope::new(bytes).read_dep::<CvtTable<'_>>(bytes.len() as u32), fp_cvt, |b, c| CvtTable::write(b, &c))
}

pub fn rt_cvt(cx: &mut Ctx, rng: &mut Rng) {
    let n = edge_len(rng, 4000);
    let vals: Vec<i16> = (0..n).map(|_| edge_i16(rng)).collect();
    let raw: Vec<u8> = vals.iter().flat_map(|v| v.to_be_bytes()).collect();
    let borrowed = rng.bool();
    let t = if borrowed {
        match ReadScope::new(&raw).ctxt().read_array::<I16Be>(n) {
            Ok(a) => CvtTable { values: ReadArrayCow::Borrowed(a) },
            Err(_) => {
                cx.inconclusive("cvt-gen");
                return;
            }
        }
    } else {
        CvtTable { values: ReadArrayCow::Owned(vals.clone()) }
    };
    let exp: Fp = fp!["count" => n, "values" => fv(&vals)];
    let w = gwrite(cx, "CvtTable::write", raw.len(), |b| CvtTable::write(b, &t));
    let wit = || J::obj(vec![("values", trunc_hex(&raw)), ("borrowed", J::Bool(borrowed))]);
    finish_rt(cx, "cvt", &exp, w, &mut |cx, b| step_cvt(cx, b), &wit);
}

pub fn fp_loca(l: &LocaTable<'_>) -> Fp {
    let v: Vec<u32> = (0..l.offsets.len()).filter_map(|i| l.offsets.get(i)).collect();
    let kind = match l.offsets {
        LocaOffsets::Short(_) => "Short",
        LocaOffsets::Long(_) => "Long",
    };
    fp!["format" => kind, "count" => v.len(), "offsets" => fv(&v)]
}

pub fn step_loca(cx: &mut Ctx, bytes: &[u8], num_glyphs: usize, fmt: IndexToLocFormat) -> Step {
    mk_step(cx, "LocaTable", bytes.len(), || ReadScope::new(bytes).read_dep::<LocaTable<'_>>((num_glyphs, fmt)), fp_loca, |b, l| LocaTable::write(b, l))
}

pub fn gen_loca_offsets(rng: &mut Rng, n: usize, short: bool) -> Vec<u32> {
    let monotone = rng.chance(3, 4);
    let mut cur = 0u32;
    (0..n)
        .map(|_| {
            if short {
                if monotone {
                    cur = (cur + 2 * rng.small(200) as u32).min(131070);
                    cur
                } else {
                    2 * edge_u16(rng) as u32
                }
            } else if monotone {
                cur = cur.saturating_add(rng.small(100_000) as u32);
                cur
            } else {
                edge_u32(rng)
            }
        })
        .collect()
}

pub fn rt_loca(cx: &mut Ctx, rng: &mut Rng) {
    let short = rng.bool();
    let fmt = if short { IndexToLocFormat::Short } else { IndexToLocFormat::Long };
    let n = 1 + match rng.below(16) {
        0 => 65535,
        1 => 0,
        _ => rng.small(500),
    };
    let mut offs = gen_loca_offsets(rng, n, short);
    if short && rng.chance(1, 4) {
        let k = rng.below(n);
        offs[k] = 131070;
    }
    let exp: Fp = fp!["format" => i2l(fmt), "count" => n, "offsets" => fv(&offs)];
    let owned = rng.bool();
    let wit = || J::obj(vec![("format", J::s(i2l(fmt))), ("owned", J::Bool(owned)), ("offsets", J::s(fv(&offs)))]);
    if owned {
        let t = oloca::LocaTable { offsets: offs.clone() };
        let w = gwrite(cx, "owned::LocaTable::write_dep", n * 4, |b| oloca::LocaTable::write_dep(b, t, fmt));
        finish_rt(cx, if short { "loca-owned-short" } else { "loca-owned-long" }, &exp, w, &mut |cx, b| step_loca(cx, b, n - 1, fmt), &wit);
    } else {
        let raw: Vec<u8> = if short { offs.iter().flat_map(|o| ((o / 2) as u16).to_be_bytes()).collect() } else { offs.iter().flat_map(|o| o.to_be_bytes()).collect() };
        let t = if short {
            ReadScope::new(&raw).ctxt().read_array::<U16Be>(n).map(|a| LocaTable { offsets: LocaOffsets::Short(a) })
        } else {
            ReadScope::new(&raw).ctxt().read_array::<U32Be>(n).map(|a| LocaTable { offsets: LocaOffsets::Long(a) })
        };
        let t = match t {
            Ok(t) => t,
            Err(_) => {
                cx.inconclusive("loca-gen");
                return;
            }
        };
        let w = gwrite(cx, "LocaTable::write", raw.len(), |b| LocaTable::write(b, t));
        finish_rt(cx, if short { "loca-short" } else { "loca-long" }, &exp, w, &mut |cx, b| step_loca(cx, b, n - 1, fmt), &wit);
    }
}
