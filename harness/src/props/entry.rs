//! The entry-point script: drives every public operation that consumes font bytes. Used by C01
//! (each call individually guarded and monitored) and by C14/Miri (unguarded: panics propagate).

use crate::rt::*;
use allsorts::binary::read::ReadScope;
use allsorts::bitmap::BitDepth;
use allsorts::cff::cff2::CFF2;
use allsorts::cff::outline::CFF2Outlines;
use allsorts::cff::CFF;
use allsorts::font::{Font, MatchingPresentation};
use allsorts::font_data::FontData;
use allsorts::gsub::{FeatureMask, Features};
use allsorts::outline::{OutlineBuilder, OutlineSink};
use allsorts::pathfinder_geometry::line_segment::LineSegment2F;
use allsorts::pathfinder_geometry::vector::Vector2F;
use allsorts::post::PostTable;
use allsorts::subset;
use allsorts::tables::cmap::{Cmap, CmapSubtable};
use allsorts::tables::glyf::GlyfTable;
use allsorts::tables::loca::LocaTable;
use allsorts::tables::os2::Os2;
use allsorts::tables::variable_fonts::fvar::FvarTable;
use allsorts::tables::{Fixed, FontTableProvider, NameTable, SfntVersion};
use allsorts::tag;
use allsorts::unicode::VariationSelector;
use allsorts::variations;

#[derive(Copy, Clone, PartialEq, Eq, Debug)]
pub enum Depth {
    /// load + map + a few outlines (Miri, C14)
    Light,
    /// everything
    Full,
}

#[derive(Default)]
pub struct CountSink {
    pub cmds: u64,
}
impl OutlineSink for CountSink {
    fn move_to(&mut self, _to: Vector2F) {
        self.cmds += 1;
    }
    fn line_to(&mut self, _to: Vector2F) {
        self.cmds += 1;
    }
    fn quadratic_curve_to(&mut self, _c: Vector2F, _to: Vector2F) {
        self.cmds += 1;
    }
    fn cubic_curve_to(&mut self, _c: LineSegment2F, _to: Vector2F) {
        self.cmds += 1;
    }
    fn close(&mut self) {
        self.cmds += 1;
    }
}

/// Outcome counters of one script run.
#[derive(Default, Debug)]
pub struct Outcome {
    pub calls: u64,
    pub ok: u64,
    pub err: u64,
    pub panicked: u64,
    pub loaded: bool,
    pub deep_ok: u64,
}

pub struct Script<'c> {
    pub cx: Option<&'c mut Ctx>,
    pub out: Outcome,
    pub len: usize,
}

impl<'c> Script<'c> {
    /// Run one API call under the monitors (or bare when there is no Ctx).
    pub fn call<R>(&mut self, name: &str, f: impl FnOnce() -> R) -> Option<R> {
        self.out.calls += 1;
        match self.cx.as_mut() {
            Some(cx) => {
                let r = cx.guard(name, self.len, f);
                if r.is_none() {
                    self.out.panicked += 1;
                }
                r
            }
            None => Some(f()),
        }
    }
    pub fn res<T, E>(&mut self, name: &str, f: impl FnOnce() -> Result<T, E>) -> Option<T> {
        match self.call(name, f) {
            Some(Ok(v)) => {
                self.out.ok += 1;
                if let Some(cx) = self.cx.as_mut() {
                    cx.class(&format!("ep:{}:ok", name));
                }
                Some(v)
            }
            Some(Err(_)) => {
                self.out.err += 1;
                if let Some(cx) = self.cx.as_mut() {
                    cx.class(&format!("ep:{}:err", name));
                }
                None
            }
            None => None,
        }
    }
}

const PROBE_CHARS: &[char] = &[
    'A', 'a', ' ', '0', 'é', 'ا', 'ب', 'क', 'ি', 'က', 'ក', 'ก', '中', '\u{25CC}', '\u{200D}', '\u{FE0F}', '\u{F020}',
    '\u{F0FF}', '\u{E000}', '\u{1F600}', '\u{10FFFF}', '\u{FFFF}', '\u{0}', '\u{2764}',
];

const TEXTS: &[(&str, u32)] = &[
    ("Hello fi ffl AV.", tag::LATN),
    ("السلام عليكم", tag::ARAB),
    ("क्षत्रिय हिन्दी", tag::DEVA),
    ("မြန်မာ", tag::MYM2),
    ("ភាសាខ្មែរ", tag::KHMR),
    ("ไทย น้ำ", tag::THAI),
    ("1/2 \u{25CC}\u{0301}", tag::LATN),
];

pub fn exercise_font(data: &[u8], rng: &mut Rng, depth: Depth) -> Outcome {
    let mut s = Script { cx: None, out: Outcome::default(), len: data.len() };
    run_script(&mut s, data, rng, depth);
    s.out
}

pub fn run_script(s: &mut Script<'_>, data: &[u8], rng: &mut Rng, depth: Depth) {
    let full = depth == Depth::Full;
    let scope = ReadScope::new(data);
    let font_data = match s.res("FontData::read", || scope.read::<FontData<'_>>()) {
        Some(f) => f,
        None => return,
    };
    match &font_data {
        FontData::Woff(w) => {
            s.res("woff.extended_metadata", || w.extended_metadata());
            s.call("woff.flavor", || w.flavor());
        }
        FontData::Woff2(w) => {
            s.res("woff2.extended_metadata", || w.extended_metadata());
            s.call("woff2.flavor", || w.flavor());
        }
        FontData::OpenType(_) => {}
    }
    let indices: &[usize] = if full { &[0, 1, 2, 17] } else { &[0] };
    for &idx in indices {
        let provider = match s.res("table_provider", || font_data.table_provider(idx)) {
            Some(p) => p,
            None => continue,
        };
        s.call("sfnt_version", || provider.sfnt_version());
        let tags = s.call("table_tags", || provider.table_tags()).flatten().unwrap_or_default();
        let mut all_tags = tags.clone();
        all_tags.extend_from_slice(&[tag::GLYF, tag::CFF, tag::GSUB, 0, 0xFFFF_FFFF, tag::FVAR]);
        for &t in all_tags.iter().take(if full { 64 } else { 8 }) {
            s.call("has_table", || provider.has_table(t));
            s.res("table_data", || provider.table_data(t));
        }
        exercise_provider(s, &provider, rng, depth);
        if !full {
            break;
        }
    }
}

pub fn exercise_provider<P: FontTableProvider + SfntVersion>(
    s: &mut Script<'_>,
    provider: &P,
    rng: &mut Rng,
    depth: Depth,
) {
    let full = depth == Depth::Full;
    // ---- raw tables -------------------------------------------------------------------------
    if let Some(Some(cmap_data)) = s.res("table_data(cmap)", || provider.table_data(tag::CMAP)) {
        if let Some(cmap) = s.res("Cmap::read", || ReadScope::new(&cmap_data).read::<Cmap<'_>>()) {
            let recs: Vec<_> = s.call("cmap.encoding_records", || cmap.encoding_records().collect::<Vec<_>>()).unwrap_or_default();
            for rec in recs.iter().take(if full { 8 } else { 2 }) {
                let off = rec.offset as usize;
                let sub = s.res("CmapSubtable::read", || {
                    cmap.scope.offset(off).read::<CmapSubtable<'_>>()
                });
                if let Some(sub) = sub {
                    for &ch in PROBE_CHARS {
                        s.res("cmap.map_glyph", || sub.map_glyph(ch as u32));
                    }
                    for _ in 0..8 {
                        let c = rng.u32() >> rng.below(24);
                        s.res("cmap.map_glyph", || sub.map_glyph(c));
                    }
                    if full {
                        s.res("cmap.mappings_fn", || {
                            let mut n = 0u64;
                            sub.mappings_fn(|_, _| n += 1).map(|_| n)
                        });
                        s.res("cmap.mappings", || sub.mappings().map(|m| m.len()));
                        s.call("cmap.to_owned", || sub.to_owned().is_some());
                    }
                }
            }
        }
    }
    if full {
        if let Some(Some(d)) = s.res("table_data(post)", || provider.table_data(tag::POST)) {
            if let Some(post) = s.res("PostTable::read", || ReadScope::new(&d).read::<PostTable<'_>>()) {
                for g in [0u16, 1, 2, 257, 258, 1000, 0xFFFF] {
                    s.res("post.glyph_name", || post.glyph_name(g).map(|n| n.map(|x| x.len())));
                }
            }
        }
        if let Some(Some(d)) = s.res("table_data(name)", || provider.table_data(tag::NAME)) {
            if let Some(name) = s.res("NameTable::read", || ReadScope::new(&d).read::<NameTable<'_>>()) {
                for id in [0u16, 1, 2, 4, 6, 16, 256, 0xFFFF] {
                    s.call("name.string_for_id", || name.string_for_id(id));
                }
            }
            for id in [1u16, 4, 6] {
                s.res("fontcode_get_name", || allsorts::get_name::fontcode_get_name(&d, id));
            }
        }
        if let Some(Some(d)) = s.res("table_data(OS/2)", || provider.table_data(tag::OS_2)) {
            s.res("Os2::read", || ReadScope::new(&d).read_dep::<Os2>(d.len()));
        }
        if let Some(Some(d)) = s.res("table_data(fvar)", || provider.table_data(tag::FVAR)) {
            if let Some(fvar) = s.res("FvarTable::read", || ReadScope::new(&d).read::<FvarTable<'_>>()) {
                let n = s.call("fvar.axis_count", || fvar.axis_count()).unwrap_or(0) as usize;
                s.call("fvar.axes", || fvar.axes().count());
                s.call("fvar.instances", || fvar.instances().filter(|r| r.is_ok()).count());
                let avar_data = s.res("table_data(avar)", || provider.table_data(tag::AVAR)).flatten();
                let avar = avar_data.as_ref().and_then(|d| {
                    s.res("AvarTable::read", || {
                        ReadScope::new(d).read::<allsorts::tables::variable_fonts::avar::AvarTable<'_>>()
                    })
                });
                for lens in [n, n + 1, 0] {
                    let vals: Vec<Fixed> = (0..lens.min(64))
                        .map(|_| Fixed::from(rng.range(-2000, 2000) as i32))
                        .collect();
                    s.res("fvar.normalize", || fvar.normalize(vals.iter().copied(), avar.as_ref()));
                }
            }
        }
        s.res("axis_names", || variations::axis_names(provider));
    }
    // ---- outlines from raw tables -------------------------------------------------------------
    let max_glyphs = if full { 300 } else { 12 };
    exercise_outlines(s, provider, rng, max_glyphs, None);

    // ---- Font ---------------------------------------------------------------------------------
    // Font::new consumes the provider; borrow through a reference wrapper.
    let font = s.res("Font::new", || Font::new(RefProvider(provider)));
    let mut num_glyphs = 0u16;
    if let Some(mut font) = font {
        s.out.loaded = true;
        num_glyphs = font.num_glyphs();
        for &ch in PROBE_CHARS {
            for (mp, vs) in [
                (MatchingPresentation::NotRequired, None),
                (MatchingPresentation::Required, Some(VariationSelector::VS16)),
                (MatchingPresentation::Required, Some(VariationSelector::VS15)),
            ] {
                s.call("lookup_glyph_index", || font.lookup_glyph_index(ch, mp, vs));
                if !full {
                    break;
                }
            }
        }
        let mut ids: Vec<u16> = vec![0, 1, 2, num_glyphs.wrapping_sub(1), num_glyphs, 0xFFFF];
        for _ in 0..4 {
            ids.push(rng.below(num_glyphs as usize + 2) as u16);
        }
        s.call("glyph_names", || font.glyph_names(&ids).len());
        for &g in &ids {
            s.call("horizontal_advance", || font.horizontal_advance(g));
            s.call("vertical_advance", || font.vertical_advance(g));
        }
        s.call("has_embedded_images", || font.has_embedded_images());
        s.call("has_glyph_outlines", || font.has_glyph_outlines());
        s.call("is_variable", || font.is_variable());
        if full {
            for &g in ids.iter().take(6) {
                for ppem in [0u16, 16, 128, 300, 0xFFFF] {
                    for depth in [BitDepth::One, BitDepth::Eight, BitDepth::ThirtyTwo] {
                        s.res("lookup_glyph_image", || font.lookup_glyph_image(g, ppem, depth).map(|o| o.is_some()));
                    }
                }
            }
            s.res("font.axis_names", || font.axis_names());
            s.res("variation_axes", || font.variation_axes());
            s.res("os2_table", || font.os2_table());
            s.res("gdef_table", || font.gdef_table().map(|x| x.is_some()));
            s.res("morx_table", || font.morx_table().map(|x| x.is_some()));
            s.res("kern_table", || font.kern_table().map(|x| x.is_some()));
            s.res("vhea_table", || font.vhea_table().map(|x| x.is_some()));
            s.res("gsub_cache", || font.gsub_cache().map(|x| x.is_some()));
            s.res("gpos_cache", || font.gpos_cache().map(|x| x.is_some()));
        }
        // mapping + shaping smoke (C02 does this in depth)
        let ntexts = if full { TEXTS.len() } else { 1 };
        for &(text, script) in TEXTS.iter().take(ntexts) {
            let glyphs = s.call("map_glyphs", || font.map_glyphs(text, script, MatchingPresentation::NotRequired));
            if let Some(glyphs) = glyphs {
                let r = s.call("shape", || {
                    font.shape(glyphs, script, None, &Features::Mask(FeatureMask::default()), None, true)
                });
                if let Some(r) = r {
                    let infos = match r {
                        Ok(i) => i,
                        Err((_, i)) => i,
                    };
                    s.res("glyph_positions", || {
                        let mut layout = allsorts::glyph_position::GlyphLayout::new(
                            &mut font,
                            &infos,
                            allsorts::glyph_position::TextDirection::LeftToRight,
                            false,
                        );
                        layout.glyph_positions().map(|p| p.len())
                    });
                }
            }
        }
    }
    // ---- kern / STAT / HVAR / MVAR / gvar / cvar through their own readers --------------------------
    if full {
        exercise_misc_tables(s, provider, rng, num_glyphs);
    }
    // ---- embedded images: non-default table filters and the bitmap tables' own API ---------------
    if full {
        exercise_images(s, provider, rng, num_glyphs);
    }
    // ---- writers ------------------------------------------------------------------------------
    if num_glyphs == 0 {
        // font did not load; still try the writers with a guessed glyph count
        num_glyphs = 4;
    }
    let n = num_glyphs as usize;
    let mut id_lists: Vec<Vec<u16>> = Vec::new();
    id_lists.push(vec![0]);
    id_lists.push((0..n.min(if full { 300 } else { 6 }) as u16).collect());
    if full {
        let mut l = vec![0u16];
        let mut seen = std::collections::HashSet::new();
        seen.insert(0u16);
        for _ in 0..rng.below(40) {
            let g = rng.below(n.max(1)) as u16;
            if seen.insert(g) {
                l.push(g);
            }
        }
        id_lists.push(l);
        id_lists.push(vec![0, num_glyphs]); // out of range
        id_lists.push(vec![1, 0]); // notdef not first
        id_lists.push(vec![]);
    }
    for ids in &id_lists {
        if let Some(bytes) = s.res("subset", || subset::subset(provider, ids)) {
            s.out.deep_ok += 1;
            if full {
                // the output must itself be loadable (C09 judges its content)
                s.res("reload-subset", || {
                    ReadScope::new(&bytes)
                        .read::<FontData<'_>>()
                        .and_then(|f| f.table_provider(0).map_err(|_| allsorts::error::ParseError::BadValue))
                        .and_then(|p| Font::new(p).map(|_| ()))
                });
            }
        }
        if full {
            use allsorts::subset::prince::{self, PrinceCmapTarget};
            for (tgt, cid) in [
                (PrinceCmapTarget::Unrestricted, false),
                (PrinceCmapTarget::MacRoman, true),
                (PrinceCmapTarget::Omit, false),
                (PrinceCmapTarget::MacRomanCmap(Box::new([1u8; 256])), true),
            ] {
                s.res("prince::subset", || prince::subset(provider, ids, tgt, cid).map(|b| b.len()));
            }
        }
    }
    if full {
        let tags = provider.table_tags().unwrap_or_default();
        s.res("whole_font(all)", || subset::whole_font(provider, &tags).map(|b| b.len()));
        let mut some: Vec<u32> = tags.iter().copied().filter(|_| rng.bool()).collect();
        some.push(tag::GLYF);
        s.res("whole_font(some)", || subset::whole_font(provider, &some).map(|b| b.len()));
        // instancing
        let axis_count = provider
            .table_data(tag::FVAR)
            .ok()
            .flatten()
            .and_then(|d| ReadScope::new(&d).read::<FvarTable<'_>>().ok().map(|f| f.axis_count() as usize))
            .unwrap_or(0);
        let mut tuples: Vec<Vec<Fixed>> = vec![
            vec![Fixed::from(0i32); axis_count],
            vec![Fixed::from(10000i32); axis_count],
            vec![Fixed::from(-10000i32); axis_count],
            vec![Fixed::from(400i32); axis_count + 1],
            vec![],
        ];
        tuples.push((0..axis_count).map(|_| Fixed::from(rng.range(-1000, 1000) as i32)).collect());
        for t in &tuples {
            if let Some((bytes, _tuple)) = s.res("instance", || variations::instance(provider, t)) {
                s.out.deep_ok += 1;
                s.res("reload-instance", || {
                    ReadScope::new(&bytes)
                        .read::<FontData<'_>>()
                        .and_then(|f| f.table_provider(0).map_err(|_| allsorts::error::ParseError::BadValue))
                        .and_then(|p| Font::new(p).map(|_| ()))
                });
            }
        }
    }
}

/// Tables that `Font` and `instance` only consult on some paths, driven through their public readers.
pub fn exercise_misc_tables<P: FontTableProvider>(s: &mut Script<'_>, provider: &P, rng: &mut Rng, num_glyphs: u16) {
    use allsorts::tables::kern::KernTable;
    use allsorts::tables::variable_fonts::cvar::CvarTable;
    use allsorts::tables::variable_fonts::gvar::{GvarTable, NumPoints};
    use allsorts::tables::variable_fonts::hvar::HvarTable;
    use allsorts::tables::variable_fonts::mvar::MvarTable;
    use allsorts::tables::variable_fonts::stat::{ElidableName, StatTable};
    use allsorts::tables::CvtTable;
    let n = num_glyphs;
    let gids: Vec<u16> = {
        let mut v: Vec<u16> = (0..n.min(12)).collect();
        v.extend_from_slice(&[n.wrapping_sub(1), n, 0xFFFF]);
        for _ in 0..6 {
            v.push(rng.below(n as usize + 2) as u16);
        }
        v
    };
    if let Some(d) = s.res("table_data(kern)", || provider.table_data(tag::KERN)).flatten() {
        if let Some(kern) = s.res("KernTable::read", || ReadScope::new(&d).read::<KernTable<'_>>()) {
            let subs: Vec<_> = s.call("kern.sub_tables", || kern.sub_tables().take(16).collect::<Vec<_>>()).unwrap_or_default();
            for sub in subs.into_iter().flatten() {
                s.call("kern.flags", || (sub.is_horizontal(), sub.is_minimum(), sub.is_cross_stream(), sub.is_override()));
                for &l in &gids {
                    for &r in gids.iter().take(8) {
                        s.call("kern.lookup", || sub.data().lookup(l, r));
                    }
                }
            }
            s.call("kern.to_owned", || kern.to_owned());
        }
    }
    if let Some(d) = s.res("table_data(STAT)", || provider.table_data(tag::STAT)).flatten() {
        if let Some(stat) = s.res("StatTable::read", || ReadScope::new(&d).read::<StatTable<'_>>()) {
            s.call("stat.design_axes", || stat.design_axes().filter(|a| a.is_ok()).count());
            for i in [0usize, 1, 7, 0xFFFF, usize::MAX / 2] {
                s.res("stat.design_axis", || stat.design_axis(i).map(|_| ()));
            }
            s.call("stat.axis_value_tables", || {
                stat.axis_value_tables().take(64).map(|t| t.map(|t| (t.value_name_id(), t.is_elidable())).ok()).count()
            });
            for axis in [0u16, 1, 2, 0xFFFF] {
                for v in [0i32, 100, 400, 700, -1, 0x7FFF] {
                    for e in [ElidableName::Include, ElidableName::Exclude] {
                        s.call("stat.name_for_axis_value", || stat.name_for_axis_value(axis, Fixed::from(v), e));
                    }
                }
            }
        }
    }
    // normalised tuples for the variation tables
    let fvar_data = provider.table_data(tag::FVAR).ok().flatten();
    let fvar = fvar_data.as_ref().and_then(|d| ReadScope::new(d).read::<FvarTable<'_>>().ok());
    let mut tuples = Vec::new();
    let mut axis_count = 0u16;
    if let Some(fvar) = fvar.as_ref() {
        axis_count = fvar.axis_count();
        let k = axis_count as usize;
        for vals in [vec![0i32; k], vec![10000; k], vec![-10000; k], (0..k).map(|_| rng.range(-1000, 1000) as i32).collect::<Vec<_>>()] {
            let vals: Vec<Fixed> = vals.into_iter().map(Fixed::from).collect();
            if let Some(t) = s.res("fvar.normalize(misc)", || fvar.normalize(vals.iter().copied(), None)) {
                tuples.push(t);
            }
        }
    }
    if let Some(d) = s.res("table_data(HVAR)", || provider.table_data(tag::HVAR)).flatten() {
        if let Some(hvar) = s.res("HvarTable::read", || ReadScope::new(&d).read::<HvarTable<'_>>()) {
            for t in &tuples {
                for &g in &gids {
                    s.res("hvar.advance_delta", || hvar.advance_delta(t, g));
                    s.res("hvar.left_side_bearing_delta", || hvar.left_side_bearing_delta(t, g));
                    s.res("hvar.right_side_bearing_delta", || hvar.right_side_bearing_delta(t, g));
                }
            }
        }
    }
    if let Some(d) = s.res("table_data(MVAR)", || provider.table_data(tag::MVAR)).flatten() {
        if let Some(mvar) = s.res("MvarTable::read", || ReadScope::new(&d).read::<MvarTable<'_>>()) {
            let recs: Vec<u32> = s.call("mvar.value_records", || mvar.value_records().take(64).map(|r| r.value_tag).collect::<Vec<_>>()).unwrap_or_default();
            s.call("mvar.value_records_len", || mvar.value_records_len());
            for t in &tuples {
                for &tg in recs.iter().chain([0u32, 0xFFFF_FFFF, 0x68617363].iter()) {
                    s.call("mvar.lookup", || mvar.lookup(tg, t));
                }
            }
        }
    }
    if let Some(d) = s.res("table_data(gvar)", || provider.table_data(tag::GVAR)).flatten() {
        if let Some(gvar) = s.res("GvarTable::read", || ReadScope::new(&d).read::<GvarTable<'_>>()) {
            for i in [0u16, 1, 2, 0xFFFF] {
                s.res("gvar.shared_tuple", || gvar.shared_tuple(i).map(|_| ()));
            }
            for &g in &gids {
                for np in [0u16, 4, 5, 40, 0xFFFF] {
                    let store = s.res("gvar.glyph_variation_data", || gvar.glyph_variation_data(g, NumPoints::new(np)));
                    if let Some(Some(store)) = store {
                        for k in 0..4u16 {
                            s.res("gvar.variation_data", || store.variation_data(k).map(|v| v.iter().take(70_000).count()));
                        }
                    }
                }
            }
        }
    }
    if let Some(d) = s.res("table_data(cvar)", || provider.table_data(tag::CVAR)).flatten() {
        let cvt_data = s.res("table_data(cvt)", || provider.table_data(tag::CVT)).flatten();
        let cvt = cvt_data.as_ref().and_then(|c| s.res("CvtTable::read", || ReadScope::new(c).read_dep::<CvtTable<'_>>(c.len() as u32)));
        let num_cvts = cvt.as_ref().map(|c| c.values.len() as u32).unwrap_or(0);
        for (ac, nc) in [(axis_count, num_cvts), (axis_count, 0), (axis_count.wrapping_add(1), num_cvts), (0, 0xFFFF_FFFF)] {
            if let Some(cvar) = s.res("CvarTable::read", || ReadScope::new(&d).read_dep::<CvarTable<'_>>((ac, nc))) {
                if let Some(cvt) = cvt.as_ref() {
                    for t in &tuples {
                        s.res("cvar.apply", || cvar.apply(t, cvt).map(|c| c.values.len()));
                    }
                }
            }
        }
    }
}

/// Embedded images. `Font` decides on the first image query which table serves images (and, by
/// default, never looks at EBLC/EBDT), so each filter gets a `Font` of its own; the location / data
/// / sbix / SVG tables are also driven through their public readers directly.
pub fn exercise_images<P: FontTableProvider + SfntVersion>(s: &mut Script<'_>, provider: &P, rng: &mut Rng, num_glyphs: u16) {
    use allsorts::bitmap::cbdt::{CBDTTable, CBLCTable};
    use allsorts::bitmap::sbix::Sbix;
    use allsorts::bitmap::BitmapGlyph;
    use allsorts::font::GlyphTableFlags;
    use allsorts::tables::svg::SvgTable;
    use std::convert::TryFrom;
    const DEPTHS: [BitDepth; 5] = [BitDepth::One, BitDepth::Two, BitDepth::Four, BitDepth::Eight, BitDepth::ThirtyTwo];
    let has_any = [tag::CBLC, tag::CBDT, tag::EBLC, tag::EBDT, tag::SBIX, tag::SVG].iter().any(|&t| provider.has_table(t));
    if !has_any {
        return;
    }
    let mut gids: Vec<u16> = (0..num_glyphs.min(24)).collect();
    gids.extend_from_slice(&[num_glyphs.wrapping_sub(1), num_glyphs, 0x7FFF, 0xFFFF]);
    for _ in 0..4 {
        gids.push(rng.below(num_glyphs as usize + 2) as u16);
    }
    let mut ppems: Vec<u16> = vec![0, 1, 12, 16, 20, 64, 109, 128, 255, 256, 0xFFFF];
    // ---- location / data tables directly -------------------------------------------------------
    for (loc_tag, dat_tag, what) in [(tag::CBLC, tag::CBDT, "cblc"), (tag::EBLC, tag::EBDT, "eblc")] {
        let loc = s.res("table_data(bitmap-loc)", || provider.table_data(loc_tag)).flatten();
        let dat = s.res("table_data(bitmap-dat)", || provider.table_data(dat_tag)).flatten();
        let (loc, dat) = match (loc, dat) {
            (Some(l), Some(d)) => (l, d),
            _ => continue,
        };
        let cblc = s.res("CBLCTable::read", || ReadScope::new(&loc).read::<CBLCTable<'_>>());
        let cbdt = s.res("CBDTTable::read", || ReadScope::new(&dat).read::<CBDTTable<'_>>());
        let (cblc, cbdt) = match (cblc, cbdt) {
            (Some(l), Some(d)) => (l, d),
            _ => continue,
        };
        s.out.deep_ok += 1;
        let mut probe = gids.clone();
        for size in cblc.bitmap_sizes.iter().take(8) {
            let (a, b) = (size.inner.start_glyph_index, size.inner.end_glyph_index);
            probe.extend_from_slice(&[a, a.wrapping_sub(1), a.wrapping_add(1), b, b.wrapping_add(1), b.wrapping_sub(1)]);
            ppems.push(u16::from(size.inner.ppem_x));
        }
        probe.sort_unstable();
        probe.dedup();
        ppems.sort_unstable();
        ppems.dedup();
        let mut few_ppems: Vec<u16> = (0..5).map(|_| *rng.pick(&ppems)).collect();
        few_ppems.sort_unstable();
        few_ppems.dedup();
        for &g in &probe {
            for &ppem in &few_ppems {
                let ppem8 = ppem.min(255) as u8;
                for &depth in &DEPTHS {
                    let strike = match s.call("cblc.find_strike", || cblc.find_strike(g, ppem8, depth)) {
                        Some(Some(st)) => st,
                        _ => continue,
                    };
                    s.call("strike.bit_depth", || strike.bit_depth());
                    let bitmap = s.res("strike.bitmap", || strike.bitmap(&cbdt));
                    if let Some(Some(bitmap)) = bitmap {
                        s.call("bitmap.dims", || (bitmap.width(), bitmap.height(), format!("{:?}", bitmap).len()));
                        if let Some(cx) = s.cx.as_mut() {
                            cx.class(&format!("img:{}-glyph-bitmap-read", what));
                        }
                        // convert under the strike that matches the bit depth found
                        let info = cblc.bitmap_sizes.iter().map(|b| &b.inner).find(|i| i.bit_depth == strike.bit_depth() && i.ppem_x >= ppem8)
                            .or_else(|| cblc.bitmap_sizes.iter().map(|b| &b.inner).find(|i| i.bit_depth == strike.bit_depth()));
                        if let Some(info) = info {
                            let ok = s.res("BitmapGlyph::try_from(cbdt)", || BitmapGlyph::try_from((info, bitmap)).map(|_| ()));
                            if ok.is_some() {
                                if let Some(cx) = s.cx.as_mut() {
                                    cx.class(&format!("img:{}-glyph-converted", what));
                                }
                            }
                        }
                    }
                }
            }
        }
    }
    // ---- sbix / SVG directly -------------------------------------------------------------------
    if let Some(d) = s.res("table_data(sbix)", || provider.table_data(tag::SBIX)).flatten() {
        for n in [usize::from(num_glyphs), 0, usize::from(num_glyphs) + 1] {
            if let Some(sbix) = s.res("Sbix::read", || ReadScope::new(&d).read_dep::<Sbix<'_>>(n)) {
                for &g in &gids {
                    for &ppem in ppems.iter().step_by(3) {
                        if let Some(Some(strike)) = s.call("sbix.find_strike", || sbix.find_strike(g, ppem, BitDepth::ThirtyTwo)) {
                            if let Some(Some(glyph)) = s.res("sbix.read_glyph", || strike.read_glyph(g)) {
                                s.call("BitmapGlyph::from(sbix)", || BitmapGlyph::from((strike, &glyph)));
                                if let Some(cx) = s.cx.as_mut() {
                                    cx.class("img:sbix-glyph-read");
                                }
                            }
                        }
                    }
                }
            }
        }
    }
    if let Some(d) = s.res("table_data(SVG)", || provider.table_data(tag::SVG)).flatten() {
        if let Some(svg) = s.res("SvgTable::read", || ReadScope::new(&d).read::<SvgTable<'_>>()) {
            for &g in &gids {
                if let Some(Some(rec)) = s.res("svg.lookup_glyph", || svg.lookup_glyph(g)) {
                    let ok = s.res("BitmapGlyph::try_from(svg)", || BitmapGlyph::try_from(&rec).map(|_| ()));
                    if ok.is_some() {
                        if let Some(cx) = s.cx.as_mut() {
                            cx.class("img:svg-document-read");
                        }
                    }
                }
            }
        }
    }
    // ---- through Font, one Font per filter -------------------------------------------------------
    let filters = [
        GlyphTableFlags::all(),
        GlyphTableFlags::EBDT,
        GlyphTableFlags::CBDT,
        GlyphTableFlags::SBIX,
        GlyphTableFlags::SVG,
        GlyphTableFlags::SBIX | GlyphTableFlags::EBDT,
        GlyphTableFlags::empty(),
    ];
    for filter in filters {
        let font = s.res("Font::new(images)", || Font::new(RefProvider(provider)));
        let mut font = match font {
            Some(f) => f,
            None => return,
        };
        s.call("set_embedded_image_filter", || font.set_embedded_image_filter(filter));
        let has = s.call("has_embedded_images(filter)", || font.has_embedded_images()).unwrap_or(false);
        if !has {
            continue;
        }
        let mut few_ppems: Vec<u16> = (0..4).map(|_| *rng.pick(&ppems)).collect();
        few_ppems.sort_unstable();
        few_ppems.dedup();
        for &g in gids.iter().step_by(2) {
            for &ppem in &few_ppems {
                for &depth in &[BitDepth::One, BitDepth::Eight, BitDepth::ThirtyTwo] {
                    let r = s.res("lookup_glyph_image(filter)", || font.lookup_glyph_image(g, ppem, depth).map(|o| o.is_some()));
                    if r == Some(true) {
                        if let Some(cx) = s.cx.as_mut() {
                            cx.class("img:font-image-found");
                        }
                    }
                }
            }
        }
        // presentation-sensitive character mapping consults the image tables too
        for &ch in PROBE_CHARS.iter().take(8) {
            s.call("lookup_glyph_index(images)", || font.lookup_glyph_index(ch, MatchingPresentation::Required, Some(VariationSelector::VS16)));
        }
    }
}

pub fn exercise_outlines<P: FontTableProvider>(
    s: &mut Script<'_>,
    provider: &P,
    rng: &mut Rng,
    max_glyphs: usize,
    _unused: Option<()>,
) {
    use allsorts::tables::{HeadTable, MaxpTable};
    let head = s
        .res("table_data(head)", || provider.table_data(tag::HEAD))
        .flatten()
        .and_then(|d| s.res("HeadTable::read", || ReadScope::new(&d).read::<HeadTable>()));
    let maxp = s
        .res("table_data(maxp)", || provider.table_data(tag::MAXP))
        .flatten()
        .and_then(|d| s.res("MaxpTable::read", || ReadScope::new(&d).read::<MaxpTable>()));
    let (head, maxp) = match (head, maxp) {
        (Some(h), Some(m)) => (h, m),
        _ => return,
    };
    let n = maxp.num_glyphs as usize;
    let pick_ids = |rng: &mut Rng| -> Vec<u16> {
        let mut ids: Vec<u16> = if n <= max_glyphs {
            (0..n as u16).collect()
        } else {
            let mut v: Vec<u16> = (0..max_glyphs).map(|_| rng.below(n) as u16).collect();
            v.push(0);
            v.push((n - 1) as u16);
            v
        };
        ids.push(n as u16);
        ids.push(0xFFFF);
        ids
    };
    if provider.has_table(tag::GLYF) {
        let loca_data = s.res("table_data(loca)", || provider.table_data(tag::LOCA)).flatten();
        let glyf_data = s.res("table_data(glyf)", || provider.table_data(tag::GLYF)).flatten();
        if let (Some(ld), Some(gd)) = (loca_data, glyf_data) {
            let loca = s.res("LocaTable::read", || {
                ReadScope::new(&ld).read_dep::<LocaTable<'_>>((n, head.index_to_loc_format))
            });
            if let Some(loca) = loca {
                let glyf = s.res("GlyfTable::read", || ReadScope::new(&gd).read_dep::<GlyfTable<'_>>(&loca));
                if let Some(mut glyf) = glyf {
                    s.out.deep_ok += 1;
                    for g in pick_ids(rng) {
                        let mut sink = CountSink::default();
                        s.res("glyf.visit", || glyf.visit(g, &mut sink));
                    }
                }
            }
        }
    }
    if provider.has_table(tag::CFF) {
        if let Some(d) = s.res("table_data(CFF)", || provider.table_data(tag::CFF)).flatten() {
            if let Some(mut cff) = s.res("CFF::read", || ReadScope::new(&d).read::<CFF<'_>>()) {
                s.out.deep_ok += 1;
                for g in pick_ids(rng) {
                    let mut sink = CountSink::default();
                    s.res("cff.visit", || cff.visit(g, &mut sink));
                }
            }
        }
    }
    if provider.has_table(tag::CFF2) {
        if let Some(d) = s.res("table_data(CFF2)", || provider.table_data(tag::CFF2)).flatten() {
            if let Some(cff2) = s.res("CFF2::read", || ReadScope::new(&d).read::<CFF2<'_>>()) {
                s.out.deep_ok += 1;
                // default tuple for variable CFF2 fonts
                let tuple = provider
                    .table_data(tag::FVAR)
                    .ok()
                    .flatten()
                    .and_then(|fd| {
                        let fvar = ReadScope::new(&fd).read::<FvarTable<'_>>().ok()?;
                        let vals: Vec<Fixed> = fvar.axes().map(|a| a.default_value).collect();
                        fvar.normalize(vals.iter().copied(), None).ok()
                    });
                let mut outlines = CFF2Outlines { table: &cff2, tuple: tuple.as_ref() };
                for g in pick_ids(rng) {
                    let mut sink = CountSink::default();
                    s.res("cff2.visit", || outlines.visit(g, &mut sink));
                }
            }
        }
    }
}

/// `Font::new` takes its provider by value; this lets the script keep using the provider.
pub struct RefProvider<'p, P>(pub &'p P);

impl<'p, P: FontTableProvider> FontTableProvider for RefProvider<'p, P> {
    fn table_data(&self, tag: u32) -> Result<Option<std::borrow::Cow<'_, [u8]>>, allsorts::error::ParseError> {
        self.0.table_data(tag)
    }
    fn has_table(&self, tag: u32) -> bool {
        self.0.has_table(tag)
    }
    fn table_tags(&self) -> Option<Vec<u32>> {
        self.0.table_tags()
    }
}
impl<'p, P: SfntVersion> SfntVersion for RefProvider<'p, P> {
    fn sfnt_version(&self) -> u32 {
        self.0.sfnt_version()
    }
}
