//! C12, CFF2 flavour: abstract CFF2 CharStrings with blended operands, an independent CFF2 table
//! writer (VariationStore, vsindex in the Private DICT or in the CharString, blend groups of
//! random size), the model of the `blend` operator and an independent reader/tokeniser used both
//! for the generator self-check and for reading the instanced output.

use super::c12_gen::*;
use super::c12_model as model;
use crate::rt::Rng;
use crate::sfnt::{be16, be32, W};

#[derive(Clone, Debug, PartialEq)]
pub struct CsArg {
    /// default value in 16.16 (integers are multiples of 65536)
    pub def: i32,
    /// one delta per region of the ItemVariationData in use, when the operand is blended
    pub deltas: Option<Vec<i32>>,
}

#[derive(Clone, Debug, PartialEq)]
pub struct CsOp {
    /// operator; two-byte operators as 0x0C00 | second byte
    pub op: u16,
    pub args: Vec<CsArg>,
    /// mask bytes following hintmask / cntrmask
    pub mask: Vec<u8>,
}

#[derive(Clone, Debug, PartialEq, Default)]
pub struct CffGlyph {
    pub vsindex: Option<u16>,
    pub ops: Vec<CsOp>,
}

#[derive(Clone, Debug, PartialEq, Default)]
pub struct Cff2 {
    pub regions: Vec<Reg>,
    /// region indexes of each ItemVariationData subtable (no delta rows: CFF2 keeps deltas inline)
    pub data_regions: Vec<Vec<u16>>,
    /// vsindex entry of the Private DICT (None: absent, default 0)
    pub private_vsindex: Option<u16>,
    pub glyphs: Vec<CffGlyph>,
}

impl Cff2 {
    pub fn glyph_vsindex(&self, g: &CffGlyph) -> u16 {
        g.vsindex.or(self.private_vsindex).unwrap_or(0)
    }
}

// ---- number encodings ---------------------------------------------------------------------------

fn cs_num(out: &mut Vec<u8>, v16: i32, rng: &mut Rng) {
    if v16 & 0xFFFF != 0 || rng.chance(1, 12) {
        out.push(255);
        out.extend_from_slice(&v16.to_be_bytes());
        return;
    }
    let v = v16 >> 16;
    let wide = rng.chance(1, 10);
    if (-107..=107).contains(&v) && !wide {
        out.push((v + 139) as u8);
    } else if (108..=1131).contains(&v) && !wide {
        let w = v - 108;
        out.push((w >> 8) as u8 + 247);
        out.push(w as u8);
    } else if (-1131..=-108).contains(&v) && !wide {
        let w = -v - 108;
        out.push((w >> 8) as u8 + 251);
        out.push(w as u8);
    } else {
        out.push(28);
        out.extend_from_slice(&(v as i16).to_be_bytes());
    }
}

fn dict_int5(out: &mut Vec<u8>, v: i32) {
    out.push(29);
    out.extend_from_slice(&v.to_be_bytes());
}

fn index(objs: &[Vec<u8>]) -> Vec<u8> {
    let mut w = W::new();
    w.u32(objs.len() as u32);
    if objs.is_empty() {
        return w.b;
    }
    let total: usize = objs.iter().map(|o| o.len()).sum();
    let off_size: u8 = if total + 1 < 0x100 {
        1
    } else if total + 1 < 0x10000 {
        2
    } else {
        4
    };
    w.u8(off_size);
    let mut at = 1u32;
    let put = |w: &mut W, v: u32| match off_size {
        1 => {
            w.u8(v as u8);
        }
        2 => {
            w.u16(v as u16);
        }
        _ => {
            w.u32(v);
        }
    };
    put(&mut w, at);
    for o in objs {
        at += o.len() as u32;
        put(&mut w, at);
    }
    for o in objs {
        w.bytes(o);
    }
    w.b
}

/// CharString bytes of one glyph; blend groups are chosen at random. Returns the event classes.
pub fn write_charstring(c: &Cff2, g: &CffGlyph, rng: &mut Rng, cls: &mut Vec<&'static str>) -> Vec<u8> {
    let mut out = Vec::new();
    if let Some(v) = g.vsindex {
        cs_num(&mut out, (v as i32) << 16, rng);
        out.push(15);
        cls.push("cff2:vsindex-in-charstring");
    }
    let k = c.data_regions.get(c.glyph_vsindex(g) as usize).map_or(0, |r| r.len());
    for op in &g.ops {
        let mut i = 0;
        while i < op.args.len() {
            let a = &op.args[i];
            let blend_here = a.deltas.is_some() || (k > 0 && rng.chance(1, 12));
            if !blend_here || k == 0 && a.deltas.is_none() {
                cs_num(&mut out, a.def, rng);
                i += 1;
                continue;
            }
            // a blend group of n operands starting here
            let mut n = 1;
            let max_n = (op.args.len() - i).min(400 / (k + 1)).max(1);
            while n < max_n && rng.chance(3, 4) && (op.args[i + n].deltas.is_some() || rng.chance(1, 6)) {
                n += 1;
            }
            for a in &op.args[i..i + n] {
                cs_num(&mut out, a.def, rng);
            }
            for a in &op.args[i..i + n] {
                for r in 0..k {
                    let d = a.deltas.as_ref().map_or(0, |d| d[r]);
                    cs_num(&mut out, d << 16, rng);
                }
            }
            cs_num(&mut out, (n as i32) << 16, rng);
            out.push(16);
            cls.push(if n > 1 { "cff2:blend-group" } else { "cff2:blend-single" });
            i += n;
        }
        if op.op >= 0x0C00 {
            out.push(12);
            out.push(op.op as u8);
        } else {
            out.push(op.op as u8);
        }
        out.extend_from_slice(&op.mask);
    }
    out
}

pub fn write_cff2(c: &Cff2, axis_count: usize, rng: &mut Rng, cls: &mut Vec<&'static str>) -> Vec<u8> {
    let charstrings: Vec<Vec<u8>> = c.glyphs.iter().map(|g| write_charstring(c, g, rng, cls)).collect();
    let cs_index = index(&charstrings);
    let ivs = Ivs { regions: c.regions.clone(), data: c.data_regions.iter().map(|r| IvData { region_idx: r.clone(), rows: Vec::new(), word_count: 0, long: false }).collect() };
    let ivs_bytes = write_ivs(&ivs, axis_count);
    let mut vstore = W::new();
    vstore.u16(ivs_bytes.len() as u16).bytes(&ivs_bytes);
    let mut private = Vec::new();
    if let Some(v) = c.private_vsindex {
        dict_int5(&mut private, v as i32);
        private.push(22);
        cls.push("cff2:vsindex-in-private-dict");
    }
    // layout: header, top dict, global subrs (empty), vstore, charstrings, fdarray, private
    let top_len = 5 + 1 + 5 + 2 + 5 + 1;
    let gsubrs = index(&[]);
    let vstore_off = 5 + top_len + gsubrs.len();
    let cs_off = vstore_off + vstore.len();
    let mut font_dict = Vec::new();
    let fd_off = cs_off + cs_index.len();
    // font dict INDEX has a fixed size: count(4) offsize(1) 2 offsets(1 each) + dict (5+5+1)
    let private_off = fd_off + 4 + 1 + 2 + 11;
    dict_int5(&mut font_dict, private.len() as i32);
    dict_int5(&mut font_dict, private_off as i32);
    font_dict.push(18);
    let fd_index = index(&[font_dict]);
    let mut top = Vec::new();
    dict_int5(&mut top, cs_off as i32);
    top.push(17);
    dict_int5(&mut top, fd_off as i32);
    top.push(12);
    top.push(36);
    dict_int5(&mut top, vstore_off as i32);
    top.push(24);
    debug_assert_eq!(top.len(), top_len);
    let mut w = W::new();
    w.u8(2).u8(0).u8(5).u16(top.len() as u16);
    w.bytes(&top).bytes(&gsubrs).bytes(&vstore.b).bytes(&cs_index).bytes(&fd_index).bytes(&private);
    w.b
}

// ---- generator ----------------------------------------------------------------------------------

fn gen_arg(rng: &mut Rng, k: usize) -> CsArg {
    let def = if rng.chance(1, 10) { rng.range(-300 * 65536, 300 * 65536) as i32 } else { (rng.range(-400, 400) as i32) << 16 };
    let deltas = if k > 0 && rng.chance(3, 5) {
        Some((0..k).map(|_| if rng.chance(1, 3) { 0 } else { rng.range(-150, 150) as i32 }).collect())
    } else {
        None
    };
    CsArg { def, deltas }
}

fn gen_op(rng: &mut Rng, op: u16, n: usize, k: usize) -> CsOp {
    CsOp { op, args: (0..n).map(|_| gen_arg(rng, k)).collect(), mask: Vec::new() }
}

pub fn gen_cff2(rng: &mut Rng, n_axes: usize, n_glyphs: usize) -> Cff2 {
    let mut c = Cff2::default();
    let nreg = 1 + rng.below(5);
    for _ in 0..nreg {
        let (p, i) = gen_region(rng, n_axes, false);
        let t = TupleVar { peak: p, inter: i, shared_peak: None, points: None, deltas: vec![] };
        c.regions.push(t.region());
    }
    let ndata = 1 + rng.below(3);
    for _ in 0..ndata {
        let mut idx: Vec<u16> = (0..nreg as u16).collect();
        rng.shuffle(&mut idx);
        idx.truncate(if rng.chance(1, 10) { 0 } else { 1 + rng.below(nreg) });
        c.data_regions.push(idx);
    }
    c.private_vsindex = if rng.chance(1, 2) { Some(rng.below(ndata) as u16) } else { None };
    for _ in 0..n_glyphs {
        let mut g = CffGlyph::default();
        if rng.chance(1, 8) {
            c.glyphs.push(g); // empty CharString
            continue;
        }
        if rng.chance(1, 3) {
            g.vsindex = Some(rng.below(ndata) as u16);
        }
        let k = c.data_regions[c.glyph_vsindex(&g) as usize].len();
        // hints
        let mut stems = 0usize;
        let masks = rng.chance(1, 3);
        if rng.chance(1, 2) {
            let n = 1 + rng.below(3);
            g.ops.push(gen_op(rng, if masks { 18 } else { 1 }, 2 * n, k));
            stems += n;
            if rng.chance(1, 2) {
                let n = 1 + rng.below(3);
                stems += n;
                if masks && rng.chance(1, 2) {
                    // implicit vstem: the operands sit in front of the hintmask operator
                    let mut op = gen_op(rng, 19, 2 * n, k);
                    op.mask = rng.bytes((stems + 7) / 8);
                    g.ops.push(op);
                } else {
                    g.ops.push(gen_op(rng, if masks { 23 } else { 3 }, 2 * n, k));
                    if masks {
                        let which = *rng.pick(&[19u16, 20]);
                        let mut op = gen_op(rng, which, 0, k);
                        op.mask = rng.bytes((stems + 7) / 8);
                        g.ops.push(op);
                    }
                }
            } else if masks {
                let mut op = gen_op(rng, 19, 0, k);
                op.mask = rng.bytes((stems + 7) / 8);
                g.ops.push(op);
            }
        }
        for _ in 0..1 + rng.below(3) {
            match rng.below(3) {
                0 => g.ops.push(gen_op(rng, 21, 2, k)),
                1 => g.ops.push(gen_op(rng, 22, 1, k)),
                _ => g.ops.push(gen_op(rng, 4, 1, k)),
            }
            for _ in 0..1 + rng.below(4) {
                let (op, n): (u16, usize) = match rng.below(14) {
                    0 => (5, 2 * (1 + rng.below(3))),
                    1 => (6, 1 + rng.below(4)),
                    2 => (7, 1 + rng.below(4)),
                    3 => (8, 6 * (1 + rng.below(2))),
                    4 => (27, 4 * (1 + rng.below(2)) + rng.below(2)),
                    5 => (26, 4 * (1 + rng.below(2)) + rng.below(2)),
                    6 => (31, *rng.pick(&[4usize, 5, 8, 9, 12, 13])),
                    7 => (30, *rng.pick(&[4usize, 5, 8, 9, 12, 13])),
                    8 => (24, 6 * (1 + rng.below(2)) + 2),
                    9 => (25, 2 * (1 + rng.below(2)) + 6),
                    10 => (0x0C00 | 35, 13),
                    11 => (0x0C00 | 34, 7),
                    12 => (0x0C00 | 36, 9),
                    _ => (0x0C00 | 37, 11),
                };
                g.ops.push(gen_op(rng, op, n, k));
            }
            if masks && stems > 0 && rng.chance(1, 4) {
                let mut op = gen_op(rng, 19, 0, k);
                op.mask = rng.bytes((stems + 7) / 8);
                g.ops.push(op);
            }
        }
        c.glyphs.push(g);
    }
    c
}

/// A free-standing HVAR (CFF2 fonts have no phantom points it would have to agree with).
pub fn gen_free_hvar(rng: &mut Rng, n_axes: usize, n_glyphs: usize) -> Hvar {
    let mut regions: Vec<Reg> = Vec::new();
    for _ in 0..1 + rng.below(4) {
        let (p, i) = gen_region(rng, n_axes, false);
        let t = TupleVar { peak: p, inter: i, shared_peak: None, points: None, deltas: vec![] };
        regions.push(t.region());
    }
    let all: Vec<u16> = (0..regions.len() as u16).collect();
    let row = |rng: &mut Rng| -> Vec<i32> { all.iter().map(|_| if rng.chance(1, 3) { 0 } else { rng.range(-200, 300) as i32 }).collect() };
    let mut h = Hvar::default();
    if rng.bool() {
        let rows = (0..n_glyphs).map(|_| row(rng)).collect();
        h.ivs = Ivs { regions, data: vec![make_ivdata(rng, all.clone(), rows, true)] };
    } else {
        let nsub = 1 + rng.below(2);
        let mut subs: Vec<Vec<Vec<i32>>> = vec![Vec::new(); nsub];
        let mut adv = Vec::new();
        let mut lsb = Vec::new();
        for _ in 0..n_glyphs {
            for e in [&mut adv, &mut lsb] {
                let s = rng.below(nsub);
                let r = row(rng);
                subs[s].push(r);
                e.push((s as u16, (subs[s].len() - 1) as u16));
            }
        }
        // sub-tables that received no row still need one (an ItemVariationData may be empty, but keep it simple)
        for s in subs.iter_mut() {
            if s.is_empty() {
                let r = row(rng);
                s.push(r);
            }
        }
        let data = subs.into_iter().map(|rows| make_ivdata(rng, all.clone(), rows, true)).collect();
        h.ivs = Ivs { regions, data };
        h.adv_map = Some(make_dsmap(rng, adv));
        if rng.bool() {
            h.lsb_map = Some(make_dsmap(rng, lsb));
        }
    }
    h
}

// ---- model --------------------------------------------------------------------------------------

/// Expected operand values (real numbers) of every operator of glyph `g` at `coords`.
pub fn expected_ops(c: &Cff2, g: &CffGlyph, coords: &[i16]) -> Option<Vec<(u16, Vec<f64>, Vec<u8>, bool)>> {
    let regs = c.data_regions.get(c.glyph_vsindex(g) as usize)?;
    let scalars: Vec<f64> = regs.iter().map(|&r| c.regions.get(r as usize).map(|reg| model::region_scalar(coords, reg).0)).collect::<Option<_>>()?;
    let mut out = Vec::new();
    for op in &g.ops {
        let mut varied = false;
        let args = op
            .args
            .iter()
            .map(|a| {
                let mut v = a.def as f64 / 65536.0;
                if let Some(d) = &a.deltas {
                    for (r, &dv) in d.iter().enumerate() {
                        let t = scalars.get(r).copied().unwrap_or(0.0) * dv as f64;
                        if t != 0.0 {
                            varied = true;
                        }
                        v += t;
                    }
                }
                v
            })
            .collect();
        out.push((op.op, args, op.mask.clone(), varied));
    }
    Some(out)
}

// ---- independent reader -------------------------------------------------------------------------

fn read_index(d: &[u8], at: usize) -> Option<(Vec<&[u8]>, usize)> {
    let count = be32(d, at)? as usize;
    if count == 0 {
        return Some((Vec::new(), at + 4));
    }
    let off_size = *d.get(at + 4)? as usize;
    if !(1..=4).contains(&off_size) {
        return None;
    }
    let off = |i: usize| -> Option<usize> {
        let o = at + 5 + i * off_size;
        let mut v = 0usize;
        for k in 0..off_size {
            v = (v << 8) | *d.get(o + k)? as usize;
        }
        Some(v)
    };
    let data_at = at + 5 + (count + 1) * off_size - 1;
    let mut objs = Vec::new();
    for i in 0..count {
        let (a, b) = (off(i)?, off(i + 1)?);
        if b < a {
            return None;
        }
        objs.push(d.get(data_at + a..data_at + b)?);
    }
    Some((objs, data_at + off(count)?))
}

/// DICT -> list of (operator, operands); operators 12 x as 0x0C00 | x
fn read_dict(d: &[u8]) -> Option<Vec<(u16, Vec<f64>)>> {
    let mut out = Vec::new();
    let mut st: Vec<f64> = Vec::new();
    let mut i = 0;
    while i < d.len() {
        let b = d[i];
        match b {
            28 => {
                st.push(be16(d, i + 1)? as i16 as f64);
                i += 3;
            }
            29 => {
                st.push(be32(d, i + 1)? as i32 as f64);
                i += 5;
            }
            30 => {
                // real: skip nibbles until 0xf
                i += 1;
                loop {
                    let x = *d.get(i)?;
                    i += 1;
                    if x & 0x0F == 0x0F || x >> 4 == 0x0F {
                        break;
                    }
                }
                st.push(f64::NAN);
            }
            32..=246 => {
                st.push(b as f64 - 139.0);
                i += 1;
            }
            247..=250 => {
                st.push((b as f64 - 247.0) * 256.0 + *d.get(i + 1)? as f64 + 108.0);
                i += 2;
            }
            251..=254 => {
                st.push(-(b as f64 - 251.0) * 256.0 - *d.get(i + 1)? as f64 - 108.0);
                i += 2;
            }
            12 => {
                out.push((0x0C00 | *d.get(i + 1)? as u16, std::mem::take(&mut st)));
                i += 2;
            }
            _ => {
                out.push((b as u16, std::mem::take(&mut st)));
                i += 1;
            }
        }
    }
    Some(out)
}

pub struct Cff2Read {
    pub has_vstore: bool,
    pub regions: Vec<Reg>,
    pub data_regions: Vec<Vec<u16>>,
    pub private_vsindex: Option<u16>,
    pub charstrings: Vec<Vec<u8>>,
    pub fd_count: usize,
    pub subrs: Subrs,
}

pub fn read_cff2(d: &[u8]) -> Option<Cff2Read> {
    if *d.first()? != 2 {
        return None;
    }
    let hdr = *d.get(2)? as usize;
    let top_len = be16(d, 3)? as usize;
    let top = read_dict(d.get(hdr..hdr + top_len)?)?;
    let get = |op: u16| -> Option<usize> { top.iter().find(|e| e.0 == op).and_then(|e| e.1.last().copied()).map(|v| v as usize) };
    let cs_off = get(17)?;
    let fd_off = get(0x0C00 | 36)?;
    let (cs, _) = read_index(d, cs_off)?;
    let (fds, _) = read_index(d, fd_off)?;
    let (gs, _) = read_index(d, hdr + top_len)?;
    let mut subrs = Subrs { local: Vec::new(), global: gs.into_iter().map(|c| c.to_vec()).collect() };
    let mut private_vsindex = None;
    if let Some(fd) = fds.first() {
        let fdict = read_dict(fd)?;
        if let Some(p) = fdict.iter().find(|e| e.0 == 18) {
            if p.1.len() == 2 {
                let (size, off) = (p.1[0] as usize, p.1[1] as usize);
                let pd = read_dict(d.get(off..off + size)?)?;
                private_vsindex = pd.iter().find(|e| e.0 == 22).and_then(|e| e.1.last().copied()).map(|v| v as u16);
                if let Some(so) = pd.iter().find(|e| e.0 == 19).and_then(|e| e.1.last().copied()) {
                    let (ls, _) = read_index(d, off + so as usize)?;
                    subrs.local = ls.into_iter().map(|c| c.to_vec()).collect();
                }
            }
        }
    }
    let (mut regions, mut data_regions, mut has_vstore) = (Vec::new(), Vec::new(), false);
    if let Some(vo) = get(24) {
        has_vstore = true;
        let ivs = model::read_ivs(d.get(vo + 2..)?)?;
        regions = ivs.regions;
        data_regions = ivs.data.into_iter().map(|x| x.region_idx).collect();
    }
    Some(Cff2Read { has_vstore, regions, data_regions, private_vsindex, charstrings: cs.into_iter().map(|c| c.to_vec()).collect(), fd_count: fds.len(), subrs })
}

/// Subroutines available to a CharString (empty slices: none; a call is then outside the grammar).
#[derive(Default, Clone)]
pub struct Subrs {
    pub local: Vec<Vec<u8>>,
    pub global: Vec<Vec<u8>>,
}

fn subr_bias(n: usize) -> i32 {
    if n < 1240 {
        107
    } else if n < 33900 {
        1131
    } else {
        32768
    }
}

struct CsState {
    g: CffGlyph,
    st: Vec<CsArg>,
    stems: usize,
    seen_blend: bool,
}

/// Tokenise a CFF2 CharString into the AST, inlining subroutine calls. `k_of(vsindex)` gives
/// the region count. Returns None on anything outside that grammar.
pub fn read_charstring(cs: &[u8], default_vsindex: u16, k_of: &dyn Fn(u16) -> Option<usize>) -> Option<CffGlyph> {
    read_charstring_subrs(cs, default_vsindex, k_of, &Subrs::default())
}

pub fn read_charstring_subrs(cs: &[u8], default_vsindex: u16, k_of: &dyn Fn(u16) -> Option<usize>, subrs: &Subrs) -> Option<CffGlyph> {
    let mut s = CsState { g: CffGlyph::default(), st: Vec::new(), stems: 0, seen_blend: false };
    read_cs_rec(cs, default_vsindex, k_of, subrs, &mut s, 0)?;
    if !s.st.is_empty() {
        return None;
    }
    Some(s.g)
}

fn read_cs_rec(cs: &[u8], default_vsindex: u16, k_of: &dyn Fn(u16) -> Option<usize>, subrs: &Subrs, s: &mut CsState, depth: usize) -> Option<()> {
    if depth > 10 {
        return None;
    }
    let mut i = 0;
    while i < cs.len() {
        let b = cs[i];
        match b {
            28 => {
                s.st.push(CsArg { def: (be16(cs, i + 1)? as i16 as i32) << 16, deltas: None });
                i += 3;
            }
            255 => {
                s.st.push(CsArg { def: be32(cs, i + 1)? as i32, deltas: None });
                i += 5;
            }
            32..=246 => {
                s.st.push(CsArg { def: (b as i32 - 139) << 16, deltas: None });
                i += 1;
            }
            247..=250 => {
                s.st.push(CsArg { def: ((b as i32 - 247) * 256 + *cs.get(i + 1)? as i32 + 108) << 16, deltas: None });
                i += 2;
            }
            251..=254 => {
                s.st.push(CsArg { def: (-(b as i32 - 251) * 256 - *cs.get(i + 1)? as i32 - 108) << 16, deltas: None });
                i += 2;
            }
            15 => {
                if s.seen_blend || s.g.vsindex.is_some() || !s.g.ops.is_empty() || s.st.len() != 1 {
                    return None;
                }
                s.g.vsindex = Some((s.st.pop()?.def >> 16) as u16);
                i += 1;
            }
            16 => {
                s.seen_blend = true;
                let k = k_of(s.g.vsindex.unwrap_or(default_vsindex))?;
                let n = (s.st.pop()?.def >> 16) as usize;
                if s.st.len() < n * (k + 1) {
                    return None;
                }
                let at = s.st.len() - n * k;
                let deltas: Vec<CsArg> = s.st.split_off(at);
                let at = s.st.len() - n;
                let defaults: Vec<CsArg> = s.st.split_off(at);
                for (j, dflt) in defaults.into_iter().enumerate() {
                    if dflt.deltas.is_some() {
                        return None;
                    }
                    let d: Vec<i32> = deltas[j * k..(j + 1) * k].iter().map(|a| a.def >> 16).collect();
                    if deltas[j * k..(j + 1) * k].iter().any(|a| a.def & 0xFFFF != 0 || a.deltas.is_some()) {
                        return None;
                    }
                    s.st.push(CsArg { def: dflt.def, deltas: Some(d) });
                }
                i += 1;
            }
            10 | 29 => {
                let list = if b == 10 { &subrs.local } else { &subrs.global };
                let a = s.st.pop()?;
                if a.deltas.is_some() || a.def & 0xFFFF != 0 {
                    return None;
                }
                let idx = (a.def >> 16) + subr_bias(list.len());
                let body = list.get(usize::try_from(idx).ok()?)?;
                read_cs_rec(body, default_vsindex, k_of, subrs, s, depth + 1)?;
                i += 1;
            }
            11 | 14 => return None, // return / endchar do not exist in CFF2
            12 => {
                let b2 = *cs.get(i + 1)?;
                s.g.ops.push(CsOp { op: 0x0C00 | b2 as u16, args: std::mem::take(&mut s.st), mask: Vec::new() });
                i += 2;
            }
            _ => {
                let mut op = CsOp { op: b as u16, args: std::mem::take(&mut s.st), mask: Vec::new() };
                i += 1;
                match b {
                    1 | 3 | 18 | 23 => s.stems += op.args.len() / 2,
                    19 | 20 => {
                        s.stems += op.args.len() / 2;
                        let n = (s.stems + 7) / 8;
                        op.mask = cs.get(i..i + n)?.to_vec();
                        i += n;
                    }
                    _ => {}
                }
                s.g.ops.push(op);
            }
        }
    }
    Some(())
}

/// AST equality up to the blend grouping the writer chose: an operand blended with all-zero
/// deltas is the same as a plain operand.
pub fn same_glyph(a: &CffGlyph, b: &CffGlyph) -> bool {
    let norm = |x: &CsArg| -> (i32, Option<Vec<i32>>) { (x.def, x.deltas.clone().filter(|d| d.iter().any(|&v| v != 0))) };
    a.vsindex == b.vsindex && a.ops.len() == b.ops.len() && a.ops.iter().zip(b.ops.iter()).all(|(p, q)| p.op == q.op && p.mask == q.mask && p.args.len() == q.args.len() && p.args.iter().zip(q.args.iter()).all(|(x, y)| norm(x) == norm(y)))
}
