//! C15 oracle 2: bytes -> value -> bytes -> value -> bytes over the fixture corpus (raw tables cut
//! out with the independent sfnt reader; WOFF / WOFF2 through allsorts' table provider) and over
//! lightly faulted variants.

use super::cffm::step_dict;
use super::cffw::{step_cff, step_cff2, step_ivs};
use super::tc::{step_cmap, step_sub, step_sub_owned};
use super::tg::{pack_glyf, step_glyf};
use super::tn::{step_name, step_name_owned, step_os2, step_post};
use super::tt::*;
use super::*;
use crate::sfnt;
use allsorts::binary::read::ReadScope;
use allsorts::font_data::FontData;
use allsorts::tables::{FontTableProvider, IndexToLocFormat};

pub struct FontTables {
    pub name: String,
    pub size: usize,
    pub tables: Vec<(String, Vec<u8>)>,
}

pub struct Corpus {
    pub fonts: Vec<FontTables>,
}

const TAGS: &[&str] = &["head", "hhea", "vhea", "maxp", "hmtx", "vmtx", "name", "OS/2", "post", "cvt ", "loca", "glyf", "cmap", "CFF ", "CFF2", "HVAR", "VVAR", "MVAR", "GDEF"];

impl FontTables {
    pub fn get(&self, tag: &str) -> Option<&[u8]> {
        self.tables.iter().find(|(t, _)| t == tag).map(|(_, d)| d.as_slice())
    }
}

impl Corpus {
    pub fn load(quick: bool) -> Corpus {
        let max = if quick { 500_000 } else { 5_000_000 };
        let mut fonts = Vec::new();
        for f in load_seed_fonts(max, true) {
            let magic = sfnt::be32(&f.data, 0).unwrap_or(0);
            if magic == sfnt::tag("wOFF") || magic == sfnt::tag("wOF2") {
                // compressed containers: table bytes through allsorts' provider
                let data = f.data.clone();
                let r = std::panic::catch_unwind(std::panic::AssertUnwindSafe(|| {
                    let mut tables = Vec::new();
                    if let Ok(fd) = ReadScope::new(&data).read::<FontData<'_>>() {
                        if let Ok(p) = fd.table_provider(0) {
                            for t in TAGS {
                                if let Ok(Some(d)) = p.table_data(sfnt::tag(t)) {
                                    tables.push((t.to_string(), d.into_owned()));
                                }
                            }
                        }
                    }
                    tables
                }));
                let _ = take_last_panic();
                if let Ok(tables) = r {
                    if !tables.is_empty() {
                        fonts.push(FontTables { name: f.name.clone(), size: f.data.len(), tables });
                    }
                }
                continue;
            }
            let offs = match sfnt::Font::member_offsets(&f.data) {
                Some(o) => o,
                None => continue,
            };
            for (k, at) in offs.iter().enumerate().take(4) {
                if let Some(font) = sfnt::Font::parse_at(&f.data, *at) {
                    let tables: Vec<(String, Vec<u8>)> = TAGS.iter().filter_map(|t| font.gets(t).map(|d| (t.to_string(), d.to_vec()))).collect();
                    if !tables.is_empty() {
                        fonts.push(FontTables { name: if k == 0 { f.name.clone() } else { format!("{}#{}", f.name, k) }, size: f.data.len(), tables });
                    }
                }
            }
        }
        fonts.sort_by(|a, b| a.size.cmp(&b.size).then(a.name.cmp(&b.name)));
        Corpus { fonts }
    }
}

fn be16(d: &[u8], o: usize) -> Option<u16> {
    sfnt::be16(d, o)
}

/// dependent arguments read with the independent reader
struct Deps {
    num_glyphs: Option<usize>,
    num_h: Option<usize>,
    num_v: Option<usize>,
    loc_format: Option<IndexToLocFormat>,
}

fn deps(f: &FontTables, over: Option<(&str, &[u8])>) -> Deps {
    let get = |t: &str| -> Option<&[u8]> {
        if let Some((ot, od)) = over {
            if ot == t {
                return Some(od);
            }
        }
        f.get(t)
    };
    Deps {
        num_glyphs: get("maxp").and_then(|m| be16(m, 4)).map(|v| v as usize),
        num_h: get("hhea").and_then(|m| be16(m, 34)).map(|v| v as usize),
        num_v: get("vhea").and_then(|m| be16(m, 34)).map(|v| v as usize),
        loc_format: get("head").and_then(|m| be16(m, 50)).and_then(|v| match v {
            0 => Some(IndexToLocFormat::Short),
            1 => Some(IndexToLocFormat::Long),
            _ => None,
        }),
    }
}

/// offsets of the cmap sub-tables (independent reader)
fn cmap_subtable_offsets(cmap: &[u8]) -> Vec<usize> {
    let n = be16(cmap, 2).unwrap_or(0) as usize;
    let mut v: Vec<usize> = (0..n).filter_map(|i| sfnt::be32(cmap, 4 + 8 * i + 4)).map(|o| o as usize).filter(|o| *o < cmap.len()).collect();
    v.sort();
    v.dedup();
    v
}

fn ivs_offset(tag: &str, d: &[u8]) -> Option<usize> {
    let o = match tag {
        "HVAR" | "VVAR" => sfnt::be32(d, 4)? as usize,
        "MVAR" => be16(d, 10)? as usize,
        "GDEF" => {
            if be16(d, 0)? == 1 && be16(d, 2)? >= 3 {
                sfnt::be32(d, 14)? as usize
            } else {
                return None;
            }
        }
        _ => return None,
    };
    if o == 0 || o >= d.len() {
        None
    } else {
        Some(o)
    }
}

/// Run the stability oracle on one table (`data` is the possibly faulted body of `tag`).
pub fn one_table(cx: &mut Ctx, rng: &mut Rng, f: &FontTables, tag: &str, data: &[u8], pristine: bool, fault_desc: &str) {
    let d = deps(f, Some((tag, data)));
    let fname = f.name.clone();
    let fd = fault_desc.to_string();
    let tg = tag.to_string();
    let wit = move || J::obj(vec![("font", J::s(fname.clone())), ("table", J::s(tg.clone())), ("fault", J::s(fd.clone()))]);
    match tag {
        "head" => {
            stability(cx, "head", pristine, data, &mut |cx, b| step_head(cx, b), &wit);
        }
        "hhea" | "vhea" => {
            stability(cx, tag, pristine, data, &mut |cx, b| step_hhea(cx, b), &wit);
        }
        "maxp" => {
            stability(cx, "maxp", pristine, data, &mut |cx, b| step_maxp(cx, b), &wit);
        }
        "hmtx" | "vmtx" => {
            let n = if tag == "hmtx" { d.num_h } else { d.num_v };
            if let (Some(g), Some(n)) = (d.num_glyphs, n) {
                stability(cx, tag, pristine, data, &mut |cx, b| step_hmtx(cx, b, g, n), &wit);
            } else {
                cx.class(&format!("stable:{}:missing-deps", tag));
            }
        }
        "name" => {
            stability(cx, "name", pristine, data, &mut |cx, b| step_name(cx, b), &wit);
            stability(cx, "name(owned)", pristine, data, &mut |cx, b| step_name_owned(cx, b), &wit);
        }
        "OS/2" => {
            stability(cx, "OS/2", pristine, data, &mut |cx, b| step_os2(cx, b), &wit);
        }
        "post" => {
            stability(cx, "post", pristine, data, &mut |cx, b| step_post(cx, b), &wit);
        }
        "cvt " => {
            stability(cx, "cvt", pristine, data, &mut |cx, b| step_cvt(cx, b), &wit);
        }
        "loca" => {
            if let (Some(g), Some(fmt)) = (d.num_glyphs, d.loc_format) {
                stability(cx, "loca", pristine, data, &mut |cx, b| step_loca(cx, b, g, fmt), &wit);
            } else {
                cx.class("stable:loca:missing-deps");
            }
        }
        "glyf" => {
            // `data` = glyf body; loca from the same font (faults on loca are applied by the caller
            // through tag "glyf+loca")
            if let (Some(g), Some(fmt), Some(loca)) = (d.num_glyphs, d.loc_format, f.get("loca")) {
                let packed = pack_glyf(loca, data);
                let reparse = rng.bool();
                // re-encoded glyphs are larger (no short vectors / repeats): a short loca may
                // legitimately refuse them
                let strict = pristine && !(reparse && fmt == IndexToLocFormat::Short);
                stability(cx, if reparse { "glyf(parsed-records)" } else { "glyf" }, strict, &packed, &mut |cx, b| step_glyf(cx, b, g, fmt, reparse), &wit);
            } else {
                cx.class("stable:glyf:missing-deps");
            }
        }
        "cmap" => {
            stability(cx, "cmap(owned)", pristine, data, &mut |cx, b| step_cmap(cx, b), &wit);
            for o in cmap_subtable_offsets(data) {
                let sub = &data[o..];
                let fmt = be16(sub, 0).unwrap_or(0xFFFF);
                let fname = if matches!(fmt, 0 | 2 | 4 | 6 | 10 | 12 | 13 | 14) { fmt.to_string() } else { "-other".to_string() };
                stability(cx, &format!("cmap.format{}", fname), pristine, sub, &mut |cx, b| step_sub(cx, b), &wit);
                if fmt != 2 {
                    stability(cx, &format!("cmap.format{}(owned)", fname), pristine, sub, &mut |cx, b| step_sub_owned(cx, b), &wit);
                }
            }
        }
        "CFF " => {
            stability(cx, "CFF", pristine, data, &mut |cx, b| step_cff(cx, b), &wit);
        }
        "CFF2" => {
            stability(cx, "CFF2", pristine, data, &mut |cx, b| step_cff2(cx, b), &wit);
        }
        "HVAR" | "VVAR" | "MVAR" | "GDEF" => {
            if let Some(o) = ivs_offset(tag, data) {
                stability(cx, &format!("{}.ivs", tag), pristine, &data[o..], &mut |cx, b| step_ivs(cx, b), &wit);
            }
        }
        _ => {}
    }
    let _ = step_dict;
}

/// every table of one font, unfaulted
pub fn all_tables(cx: &mut Ctx, rng: &mut Rng, corpus: &Corpus, i: usize) {
    let f = &corpus.fonts[i];
    for (tag, data) in &f.tables {
        if cx.quick() && data.len() > 150_000 {
            continue;
        }
        one_table(cx, rng, f, tag, data, true, "");
    }
    cx.class("stable:clean-font");
}

pub fn case(cx: &mut Ctx, rng: &mut Rng, corpus: &Corpus) {
    if corpus.fonts.is_empty() {
        cx.inconclusive("no-seed-fonts");
        return;
    }
    // bias towards small fonts
    let n = corpus.fonts.len();
    let i = rng.below(n).min(rng.below(n)).min(if rng.bool() { rng.below(n) } else { n });
    let f = &corpus.fonts[i];
    let (tag, data) = {
        let mut pick = &f.tables[rng.below(f.tables.len())];
        for _ in 0..3 {
            if pick.1.len() > if cx.quick() { 60_000 } else { 600_000 } {
                pick = &f.tables[rng.below(f.tables.len())];
            }
        }
        pick
    };
    if data.len() > if cx.quick() { 200_000 } else { 3_000_000 } {
        cx.class("stable:skipped-large-table");
        return;
    }
    let mut data = data.clone();
    let faulted = rng.chance(3, 4) && !data.is_empty();
    let mut desc = String::new();
    if faulted {
        for _ in 0..1 + rng.small(2) {
            // structure-blind byte faults, biased towards the head of the table where counts,
            // formats and offsets live
            let at = if rng.bool() { rng.below(data.len().min(64)) } else { rng.below(data.len()) };
            let old = data[at];
            let new = match rng.below(6) {
                0 => 0,
                1 => 0xFF,
                2 => old.wrapping_add(1),
                3 => old.wrapping_sub(1),
                4 => old ^ (1 << rng.below(8)),
                _ => rng.u8(),
            };
            data[at] = new;
            desc.push_str(&format!("[{}]:{:02x}->{:02x} ", at, old, new));
        }
        if rng.chance(1, 10) {
            let cut = rng.below(data.len() + 1);
            data.truncate(cut);
            desc.push_str(&format!("truncate({}) ", cut));
        }
        cx.class("stable:faulted-input");
    }
    one_table(cx, rng, f, tag, &data, !faulted, &desc);
    if cx.want_sample() {
        cx.sample(J::obj(vec![("font", J::s(f.name.clone())), ("table", J::s(tag.clone())), ("fault", J::s(desc))]));
    }
}
