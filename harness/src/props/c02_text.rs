//! C02 text generator: per-script texts mixing dictionary words from /repo/tests with hostile
//! material (lone marks, long mark runs, shaddas + modifier marks, joiners, variation selectors,
//! dotted circles, halant chains, reph/matra repetitions, incomplete syllables, foreign and astral
//! characters, empty and one-character strings). Self-contained (hand-written ranges, no tables
//! shared with allsorts).

use crate::rt::*;

pub const fn t(b: &[u8; 4]) -> u32 {
    ((b[0] as u32) << 24) | ((b[1] as u32) << 16) | ((b[2] as u32) << 8) | b[3] as u32
}

pub fn tag_str(tag: u32) -> String {
    tag.to_be_bytes().iter().map(|&b| if (0x20..0x7f).contains(&b) { b as char } else { '?' }).collect()
}

#[derive(Copy, Clone, PartialEq, Eq, Debug)]
pub enum Fam {
    Arabic,
    Syriac,
    Indic,
    Khmer,
    Myanmar,
    Thai,
    Lao,
    Latin,
    Hebrew,
}

#[derive(Copy, Clone, Debug)]
pub struct Sc {
    pub tag: u32,
    /// class name used in event classes
    pub name: &'static str,
    pub fam: Fam,
    /// ISCII-style block base for Indic scripts (0 otherwise)
    pub base: u32,
    /// word file below /repo/tests (or "")
    pub words: &'static str,
    pub bad_words: &'static str,
}

const fn sc(tag: &[u8; 4], name: &'static str, fam: Fam, base: u32, words: &'static str, bad_words: &'static str) -> Sc {
    Sc { tag: t(tag), name, fam, base, words, bad_words }
}

pub const SCRIPTS: &[Sc] = &[
    sc(b"arab", "arab", Fam::Arabic, 0, "", ""),
    sc(b"syrc", "syrc", Fam::Syriac, 0, "", ""),
    sc(b"deva", "deva", Fam::Indic, 0x900, "indic/good.hi", "indic/bad/bad.hi"),
    sc(b"beng", "beng", Fam::Indic, 0x980, "indic/good.bn", "indic/bad/bad.bn"),
    sc(b"guru", "guru", Fam::Indic, 0xA00, "indic/good.pa", "indic/bad/bad.pa"),
    sc(b"gujr", "gujr", Fam::Indic, 0xA80, "indic/good.gu", "indic/bad/bad.gu"),
    sc(b"orya", "orya", Fam::Indic, 0xB00, "indic/good.or", "indic/bad/bad.or"),
    sc(b"taml", "taml", Fam::Indic, 0xB80, "indic/good.ta", "indic/bad/bad.ta"),
    sc(b"telu", "telu", Fam::Indic, 0xC00, "indic/good.te", "indic/bad/bad.te"),
    sc(b"knda", "knda", Fam::Indic, 0xC80, "indic/good.kn", "indic/bad/bad.kn"),
    sc(b"mlym", "mlym", Fam::Indic, 0xD00, "indic/good.ml", "indic/bad/bad.ml"),
    sc(b"sinh", "sinh", Fam::Indic, 0xD80, "indic/good.si", "indic/bad/bad.si"),
    sc(b"khmr", "khmr", Fam::Khmer, 0, "khmer/good", "khmer/bad"),
    sc(b"mymr", "mymr", Fam::Myanmar, 0, "myanmar/good", ""),
    sc(b"thai", "thai", Fam::Thai, 0, "", ""),
    sc(b"lao ", "lao", Fam::Lao, 0, "", ""),
    sc(b"latn", "latn", Fam::Latin, 0, "", ""),
    sc(b"hebr", "hebr", Fam::Hebrew, 0, "", ""),
];

/// Tags that select the same shaper as `tag` does (v2 Indic tags, mym2, DFLT ...).
pub fn script_for_tag(tag: u32) -> Option<&'static Sc> {
    let alias: &[(&[u8; 4], &[u8; 4])] = &[
        (b"dev2", b"deva"),
        (b"bng2", b"beng"),
        (b"gur2", b"guru"),
        (b"gjr2", b"gujr"),
        (b"ory2", b"orya"),
        (b"tml2", b"taml"),
        (b"tel2", b"telu"),
        (b"knd2", b"knda"),
        (b"mlm2", b"mlym"),
        (b"mym2", b"mymr"),
        (b"DFLT", b"latn"),
        (b"cyrl", b"latn"),
        (b"grek", b"latn"),
    ];
    let mut tag = tag;
    for (a, b) in alias {
        if t(a) == tag {
            tag = t(b);
        }
    }
    SCRIPTS.iter().find(|s| s.tag == tag)
}

/// Tags handed to `shape`/`map_glyphs` besides the 18 above.
pub const EXTRA_TAGS: &[&[u8; 4]] = &[
    b"dev2", b"bng2", b"gur2", b"gjr2", b"ory2", b"tml2", b"tel2", b"knd2", b"mlm2", b"mym2", b"DFLT", b"cyrl", b"grek", b"tibt", b"hang", b"kana",
    b"hani", b"mong", b"nko ", b"thaa", b"\0\0\0\0", b"\xff\xff\xff\xff", b"ARAB", b"zzzz",
];

const ZWJ: char = '\u{200D}';
const ZWNJ: char = '\u{200C}';
const CGJ: char = '\u{034F}';
const DOTTED_CIRCLE: char = '\u{25CC}';
const SHADDA: char = '\u{0651}';
const MCM: &[u32] = &[0x0654, 0x0655, 0x0658, 0x06DC, 0x06E3, 0x06E7, 0x06E8, 0x08CA, 0x08CB, 0x08CD, 0x08CE, 0x08CF, 0x08D3, 0x08F3];
const VS: &[u32] = &[0xFE00, 0xFE01, 0xFE0E, 0xFE0F, 0xE0100, 0xE01EF, 0x180B];
const SPECIALS: &[u32] = &[
    0x200D, 0x200C, 0x034F, 0x25CC, 0x20, 0xA0, 0x2D, 0x200B, 0x2060, 0xFEFF, 0x0640, 0xE000, 0xF8FF, 0x0000, 0xFFFD, 0x0300, 0x2044, 0x2215, 0x200E, 0x200F, 0x202E,
    0x0964, 0x0965, 0x2010, 0x2011, 0xFFFC, 0x0001, 0x007F, 0x0085, 0x2028,
];
const ASTRAL: &[u32] = &[
    0x1F600, 0x10000, 0x1D165, 0x1D16D, 0x1E8D0, 0x10A0D, 0x10A38, 0x11046, 0x1D242, 0x16AF0, 0xF0000, 0x10FFFD, 0x20000, 0x1F1E6, 0x1F1FA, 0xE0001, 0x1F3FB, 0x1F468,
    0x11000, 0x11038, 0x11046, 0x1133C, 0x1F9B0, 0x2F800,
];

fn ch(cp: u32) -> char {
    char::from_u32(cp).unwrap_or('\u{FFFD}')
}

pub struct TextGen {
    words: Vec<(u32, Vec<Vec<char>>)>,
}

fn load_words(path: &str, max: usize) -> Vec<Vec<char>> {
    if path.is_empty() {
        return Vec::new();
    }
    let s = match std::fs::read(format!("/repo/tests/{}", path)) {
        Ok(s) => String::from_utf8_lossy(&s).to_string(),
        Err(_) => return Vec::new(),
    };
    let lines: Vec<&str> = s.lines().filter(|l| !l.is_empty() && l.chars().count() <= 40).collect();
    let stride = (lines.len() / max.max(1)).max(1);
    lines.iter().step_by(stride).map(|l| l.chars().collect()).collect()
}

fn range_pick(rng: &mut Rng, ranges: &[(u32, u32)]) -> char {
    let total: u32 = ranges.iter().map(|(a, b)| b - a + 1).sum();
    let mut k = rng.below(total as usize) as u32;
    for &(a, b) in ranges {
        let n = b - a + 1;
        if k < n {
            return ch(a + k);
        }
        k -= n;
    }
    'a'
}

impl TextGen {
    pub fn new(quick: bool, load: bool) -> TextGen {
        let max = if quick { 1200 } else { 5000 };
        let mut words = Vec::new();
        for s in SCRIPTS.iter().filter(|_| load) {
            let mut w = load_words(s.words, max);
            w.extend(load_words(s.bad_words, max / 2));
            if !w.is_empty() {
                words.push((s.tag, w));
            }
        }
        TextGen { words }
    }

    pub fn words_loaded(&self) -> usize {
        self.words.iter().map(|(_, w)| w.len()).sum()
    }

    fn word(&self, rng: &mut Rng, s: &Sc) -> Option<&Vec<char>> {
        let (_, w) = self.words.iter().find(|(t, _)| *t == s.tag)?;
        Some(&w[rng.below(w.len())])
    }

    /// any code point of the blocks the script uses (assigned or not)
    fn any_in_block(&self, rng: &mut Rng, s: &Sc) -> char {
        match s.fam {
            Fam::Arabic => range_pick(rng, &[(0x600, 0x6FF), (0x750, 0x77F), (0x8A0, 0x8FF), (0xFB50, 0xFDFF), (0xFE70, 0xFEFF)]),
            Fam::Syriac => range_pick(rng, &[(0x700, 0x74F), (0x860, 0x86F)]),
            Fam::Indic => range_pick(rng, &[(s.base, s.base + 0x7F), (0x1CD0, 0x1CFF), (0xA8E0, 0xA8FF), (0x0951, 0x0954), (0x0964, 0x0965)]),
            Fam::Khmer => range_pick(rng, &[(0x1780, 0x17FF), (0x19E0, 0x19FF)]),
            Fam::Myanmar => range_pick(rng, &[(0x1000, 0x109F), (0xA9E0, 0xA9FF), (0xAA60, 0xAA7F)]),
            Fam::Thai => range_pick(rng, &[(0xE00, 0xE7F)]),
            Fam::Lao => range_pick(rng, &[(0xE80, 0xEFF)]),
            Fam::Latin => range_pick(rng, &[(0x20, 0x24F), (0x300, 0x36F), (0x2000, 0x206F), (0x1E00, 0x1EFF)]),
            Fam::Hebrew => range_pick(rng, &[(0x590, 0x5FF), (0xFB1D, 0xFB4F)]),
        }
    }

    pub fn base(&self, rng: &mut Rng, s: &Sc) -> char {
        if rng.chance(1, 14) {
            return self.any_in_block(rng, s);
        }
        match s.fam {
            Fam::Arabic => range_pick(rng, &[(0x620, 0x64A), (0x620, 0x64A), (0x66E, 0x6D3), (0x750, 0x77F), (0x8A0, 0x8B4), (0x660, 0x669), (0xFB50, 0xFBB1), (0xFE70, 0xFEFC)]),
            Fam::Syriac => range_pick(rng, &[(0x710, 0x72F), (0x710, 0x72F), (0x74D, 0x74F), (0x700, 0x70D), (0x620, 0x64A)]),
            Fam::Indic if s.base == 0xD80 => range_pick(rng, &[(0xD9A, 0xDC6), (0xD9A, 0xDC6), (0xD85, 0xD96)]),
            Fam::Indic => {
                let b = s.base;
                if rng.chance(1, 5) {
                    ch(b + 0x30) // RA
                } else {
                    range_pick(rng, &[(b + 0x15, b + 0x39), (b + 0x15, b + 0x39), (b + 0x05, b + 0x14), (b + 0x58, b + 0x61), (b + 0x66, b + 0x6F)])
                }
            }
            Fam::Khmer => range_pick(rng, &[(0x1780, 0x17A2), (0x1780, 0x17A2), (0x17A3, 0x17B3), (0x17E0, 0x17E9)]),
            Fam::Myanmar => range_pick(rng, &[(0x1000, 0x1021), (0x1000, 0x1021), (0x1023, 0x102A), (0x103F, 0x1049), (0x1050, 0x1055), (0x1075, 0x1081), (0xAA60, 0xAA7A)]),
            Fam::Thai => range_pick(rng, &[(0xE01, 0xE2E), (0xE01, 0xE2E), (0xE40, 0xE44), (0xE50, 0xE59)]),
            Fam::Lao => range_pick(rng, &[(0xE81, 0xEAE), (0xEC0, 0xEC4), (0xED0, 0xED9), (0xEDC, 0xEDF)]),
            Fam::Latin => range_pick(rng, &[(0x41, 0x5A), (0x61, 0x7A), (0x61, 0x7A), (0x30, 0x39), (0x20, 0x2F), (0xC0, 0x17F), (0x391, 0x3C9), (0x410, 0x44F)]),
            Fam::Hebrew => range_pick(rng, &[(0x5D0, 0x5EA), (0x5D0, 0x5EA), (0xFB1D, 0xFB4F)]),
        }
    }

    pub fn mark(&self, rng: &mut Rng, s: &Sc) -> char {
        match s.fam {
            Fam::Arabic => range_pick(rng, &[(0x64B, 0x65F), (0x64B, 0x652), (0x610, 0x61A), (0x670, 0x670), (0x6D6, 0x6ED), (0x8D3, 0x8FF)]),
            Fam::Syriac => range_pick(rng, &[(0x730, 0x74A), (0x711, 0x711), (0x64B, 0x655)]),
            Fam::Indic if s.base == 0xD80 => range_pick(rng, &[(0xDCF, 0xDDF), (0xDCA, 0xDCA), (0xD81, 0xD83), (0xDF2, 0xDF3)]),
            Fam::Indic => {
                let b = s.base;
                range_pick(rng, &[(b + 0x3E, b + 0x4C), (b + 0x3E, b + 0x4C), (b + 0x4D, b + 0x4D), (b + 0x3C, b + 0x3C), (b + 0x01, b + 0x03), (b + 0x51, b + 0x57), (b + 0x62, b + 0x63)])
            }
            Fam::Khmer => range_pick(rng, &[(0x17B6, 0x17C5), (0x17C6, 0x17D1), (0x17D2, 0x17D3), (0x17DD, 0x17DD), (0x17B4, 0x17B5)]),
            Fam::Myanmar => range_pick(rng, &[(0x102B, 0x1035), (0x1036, 0x103A), (0x103B, 0x103E), (0x1056, 0x1059), (0x105E, 0x1060), (0x1062, 0x1064), (0x1082, 0x108D)]),
            Fam::Thai => range_pick(rng, &[(0xE31, 0xE31), (0xE33, 0xE3A), (0xE47, 0xE4E)]),
            Fam::Lao => range_pick(rng, &[(0xEB1, 0xEB1), (0xEB3, 0xEBC), (0xEC8, 0xECD)]),
            Fam::Latin => range_pick(rng, &[(0x300, 0x36F), (0x300, 0x315), (0x1AB0, 0x1ABE), (0x1DC0, 0x1DF5), (0x20D0, 0x20F0), (0xFE20, 0xFE2F)]),
            Fam::Hebrew => range_pick(rng, &[(0x591, 0x5BD), (0x5B0, 0x5BC), (0x5BF, 0x5BF), (0x5C1, 0x5C2), (0x5C4, 0x5C5), (0x5C7, 0x5C7)]),
        }
    }

    fn any_script(&self, rng: &mut Rng) -> &'static Sc {
        &SCRIPTS[rng.below(SCRIPTS.len())]
    }

    fn halant(&self, s: &Sc) -> char {
        match s.fam {
            Fam::Indic if s.base == 0xD80 => '\u{0DCA}',
            Fam::Indic => ch(s.base + 0x4D),
            Fam::Khmer => '\u{17D2}',
            Fam::Myanmar => '\u{1039}',
            Fam::Thai => '\u{0E3A}',
            Fam::Lao => '\u{0EBA}',
            Fam::Arabic => '\u{0652}',
            Fam::Syriac => '\u{0748}',
            Fam::Hebrew => '\u{05B0}',
            Fam::Latin => '\u{0335}',
        }
    }

    fn ra(&self, s: &Sc) -> char {
        match s.fam {
            Fam::Indic if s.base == 0xD80 => '\u{0DBB}',
            Fam::Indic => ch(s.base + 0x30),
            Fam::Khmer => '\u{179A}',
            Fam::Myanmar => '\u{1004}',
            _ => self.halant(s),
        }
    }

    fn mark_run(&self, rng: &mut Rng, s: &Sc, n: usize, out: &mut Vec<char>) {
        let psize = 1 + rng.below(6);
        let mut palette: Vec<char> = (0..psize)
            .map(|_| if rng.chance(1, 6) { let o = self.any_script(rng); self.mark(rng, o) } else { self.mark(rng, s) })
            .collect();
        if s.fam == Fam::Arabic || s.fam == Fam::Syriac || rng.chance(1, 12) {
            if rng.chance(3, 4) {
                palette.push(SHADDA);
            }
            for _ in 0..rng.below(4) {
                palette.push(ch(*rng.pick(MCM)));
            }
        }
        if rng.chance(1, 5) {
            palette.push(*rng.pick(&[ZWJ, ZWNJ, CGJ]));
        }
        for _ in 0..n {
            out.push(*rng.pick(&palette));
        }
    }

    fn seg_arabic(&self, rng: &mut Rng, s: &Sc, out: &mut Vec<char>) {
        match rng.below(8) {
            0 => {
                // several shaddas interleaved with modifier combining marks
                if !rng.chance(1, 6) {
                    out.push(self.base(rng, s));
                }
                let n = match rng.below(6) {
                    0 => rng.urange(21, 48),
                    1 => rng.urange(10, 22),
                    _ => rng.urange(2, 9),
                };
                for _ in 0..n {
                    out.push(match rng.below(10) {
                        0..=2 => SHADDA,
                        3..=5 => ch(*rng.pick(MCM)),
                        6 if rng.chance(1, 4) => CGJ,
                        _ => self.mark(rng, s),
                    });
                }
            }
            1 => {
                // lam-alef, allah and other ligature bait, with tatweel and joiners in between
                let w: &[&[u32]] = &[&[0x644, 0x627], &[0x627, 0x644, 0x644, 0x647], &[0x644, 0x644, 0x647], &[0x644, 0x622], &[0x644, 0x623], &[0x644, 0x625], &[0xFDF2], &[0x644, 0x640, 0x627], &[0x628, 0x64A, 0x646], &[0x645, 0x62D, 0x645, 0x62F], &[0x715, 0x71D, 0x720], &[0x710, 0x720, 0x717, 0x710]];
                let word = *rng.pick(w);
                for (i, c) in word.iter().enumerate() {
                    out.push(ch(*c));
                    if i + 1 < word.len() {
                        match rng.below(10) {
                            0 => out.push(ZWJ),
                            1 => out.push(ZWNJ),
                            2 => out.push(self.mark(rng, s)),
                            3 => out.push(SHADDA),
                            _ => {}
                        }
                    }
                }
            }
            _ => {
                // a word: letters with sparse marks
                for _ in 0..1 + rng.below(7) {
                    out.push(self.base(rng, s));
                    if rng.chance(1, 3) {
                        out.push(self.mark(rng, s));
                        if rng.chance(1, 3) {
                            out.push(if rng.bool() { SHADDA } else { self.mark(rng, s) });
                        }
                    }
                }
                if rng.chance(1, 2) {
                    out.push(' ');
                }
            }
        }
    }

    fn seg_thai_lao(&self, rng: &mut Rng, lao: bool, out: &mut Vec<char>) {
        let (am, tones, above, below, nik): (u32, &[u32], &[u32], &[u32], u32) = if !lao {
            (0x0E33, &[0x0E48, 0x0E49, 0x0E4A, 0x0E4B], &[0x0E31, 0x0E34, 0x0E35, 0x0E36, 0x0E37, 0x0E47, 0x0E4C, 0x0E4D, 0x0E4E], &[0x0E38, 0x0E39, 0x0E3A], 0x0E4D)
        } else {
            (0x0EB3, &[0x0EC8, 0x0EC9, 0x0ECA, 0x0ECB], &[0x0EB1, 0x0EB4, 0x0EB5, 0x0EB6, 0x0EB7, 0x0EBB, 0x0ECC, 0x0ECD], &[0x0EB8, 0x0EB9, 0x0EBA, 0x0EBC], 0x0ECD)
        };
        let s = if lao { &SCRIPTS[15] } else { &SCRIPTS[14] };
        for _ in 0..1 + rng.below(4) {
            if rng.chance(1, 4) {
                out.push(ch(if lao { 0xEC0 + rng.below(5) as u32 } else { 0xE40 + rng.below(5) as u32 }));
            }
            if !rng.chance(1, 8) {
                out.push(self.base(rng, s));
            }
            for _ in 0..rng.small(5) {
                out.push(ch(match rng.below(10) {
                    0..=3 => *rng.pick(tones),
                    4..=5 => *rng.pick(above),
                    6..=7 => *rng.pick(below),
                    8 => nik,
                    _ => {
                        if lao {
                            *rng.pick(&[0x0E48u32, 0x0E49, 0x0E34, 0x0E38])
                        } else {
                            *rng.pick(&[0x0EC8u32, 0x0EC9, 0x0EB4, 0x0EB8])
                        }
                    }
                }));
            }
            if rng.chance(1, 2) {
                out.push(ch(am));
                if rng.chance(1, 6) {
                    out.push(ch(am));
                }
            }
        }
    }

    /// syllable-machine bait for Indic / Khmer / Myanmar
    fn seg_syllabic(&self, rng: &mut Rng, s: &Sc, out: &mut Vec<char>) {
        let h = self.halant(s);
        let ra = self.ra(s);
        match rng.below(14) {
            0 => {
                // halant chain: C H C H C H ... (conjunct of many consonants)
                let n = 2 + rng.small(10);
                for i in 0..n {
                    out.push(if rng.chance(1, 4) { ra } else { self.base(rng, s) });
                    if i + 1 < n || rng.bool() {
                        out.push(h);
                        if rng.chance(1, 6) {
                            out.push(*rng.pick(&[ZWJ, ZWNJ]));
                        }
                    }
                }
            }
            1 => {
                // repeated reph: RA H RA H RA H C, kinzi for Myanmar
                for _ in 0..1 + rng.small(6) {
                    out.push(ra);
                    if s.fam == Fam::Myanmar {
                        out.push('\u{103A}');
                    }
                    out.push(h);
                }
                if rng.chance(3, 4) {
                    out.push(self.base(rng, s));
                }
            }
            2 => {
                // repeated matras / vowel signs after one base
                out.push(self.base(rng, s));
                for _ in 0..2 + rng.small(8) {
                    out.push(self.mark(rng, s));
                }
            }
            3 => {
                // incomplete syllable: starts with halant / matra / nukta
                for _ in 0..1 + rng.small(3) {
                    out.push(if rng.bool() { h } else { self.mark(rng, s) });
                }
                if rng.bool() {
                    out.push(self.base(rng, s));
                }
            }
            4 => {
                // dangling halant + joiner at the end of a cluster
                out.push(self.base(rng, s));
                out.push(h);
                out.push(*rng.pick(&[ZWJ, ZWNJ, CGJ, DOTTED_CIRCLE, ' ']));
                if rng.bool() {
                    out.push(h);
                }
            }
            5 => {
                // dotted circle as base of marks
                out.push(DOTTED_CIRCLE);
                for _ in 0..1 + rng.small(4) {
                    out.push(self.mark(rng, s));
                }
                if rng.bool() {
                    out.push(h);
                    out.push(self.base(rng, s));
                }
            }
            6 => {
                // pre-base matra / split vowel forms and reordering marks (script specific)
                let c: &[u32] = match s.fam {
                    Fam::Indic if s.base == 0xD80 => &[0xDD9, 0xDDA, 0xDDB, 0xDDC, 0xDDD, 0xDDE],
                    Fam::Indic => &[0x3F, 0x47, 0x48, 0x4A, 0x4B, 0x4C, 0x40, 0x46],
                    Fam::Khmer => &[0x17BE, 0x17BF, 0x17C0, 0x17C1, 0x17C2, 0x17C3, 0x17C4, 0x17C5],
                    Fam::Myanmar => &[0x1031, 0x103C, 0x1084, 0x103B, 0x103D, 0x103E],
                    _ => &[0x300],
                };
                out.push(if rng.chance(1, 4) { ra } else { self.base(rng, s) });
                if rng.bool() {
                    out.push(h);
                    out.push(self.base(rng, s));
                }
                for _ in 0..1 + rng.small(3) {
                    let v = *rng.pick(c);
                    out.push(ch(if s.fam == Fam::Indic && s.base != 0xD80 { s.base + v } else { v }));
                }
            }
            7 => {
                // nukta / halant permutations
                out.push(self.base(rng, s));
                let nukta = if s.fam == Fam::Indic && s.base != 0xD80 { ch(s.base + 0x3C) } else { self.mark(rng, s) };
                for _ in 0..1 + rng.small(5) {
                    out.push(*rng.pick(&[nukta, h, ZWJ, ZWNJ]));
                }
            }
            8 => {
                // RA H ZWJ (eyelash ra, Kannada swap) at a cluster start
                out.push(ra);
                out.push(h);
                out.push(if rng.chance(4, 5) { ZWJ } else { ZWNJ });
                out.push(self.base(rng, s));
            }
            9 if s.fam == Fam::Myanmar => {
                // medial orders, asat, dot below, tone marks
                out.push(self.base(rng, s));
                for _ in 0..1 + rng.small(6) {
                    out.push(ch(*rng.pick(&[0x103Bu32, 0x103C, 0x103D, 0x103E, 0x103A, 0x1037, 0x1036, 0x1038, 0x1031, 0x102D, 0x102F, 0x1032])));
                }
            }
            9 if s.fam == Fam::Khmer => {
                // coeng chains incl. coeng RO, registers shifters, robat
                out.push(self.base(rng, s));
                for _ in 0..1 + rng.small(4) {
                    out.push('\u{17D2}');
                    out.push(if rng.chance(1, 3) { '\u{179A}' } else { self.base(rng, s) });
                }
                for _ in 0..rng.small(3) {
                    out.push(ch(*rng.pick(&[0x17C9u32, 0x17CA, 0x17CC, 0x17C6, 0x17C7, 0x17C8, 0x17CB, 0x17CD, 0x17D0])));
                }
            }
            _ => {
                if let Some(w) = self.word(rng, s) {
                    out.extend_from_slice(w);
                    if rng.chance(1, 2) {
                        out.push(' ');
                    }
                } else {
                    out.push(self.base(rng, s));
                    out.push(self.mark(rng, s));
                }
            }
        }
    }

    fn seg_latin(&self, rng: &mut Rng, s: &Sc, out: &mut Vec<char>) {
        match rng.below(8) {
            0 => {
                // fraction patterns for FRAC
                let pats: &[&str] = &["1/2", "3/4", "12/345", "1/", "/2", "1//2", "1/2/3", "a1/2b", "1\u{2044}2", "9/0", "١/٢", "1 /2"];
                out.extend(rng.pick(pats).chars());
            }
            1 => {
                let pats: &[&str] = &["ffi", "fi", "fl", "ffl", "ff", "Th", "fj", "AV", "To", "T.", "f f", "office", "www", "->", "!=", "==="];
                out.extend(rng.pick(pats).chars());
            }
            _ => {
                for _ in 0..1 + rng.below(8) {
                    out.push(self.base(rng, s));
                    if rng.chance(1, 5) {
                        out.push(self.mark(rng, s));
                    }
                }
                out.push(' ');
            }
        }
    }

    fn seg_generic(&self, rng: &mut Rng, s: &Sc, out: &mut Vec<char>) {
        match rng.below(11) {
            0 => out.push(ch(*rng.pick(SPECIALS))),
            1 => out.push(ch(*rng.pick(ASTRAL))),
            2 => {
                // lone marks
                for _ in 0..1 + rng.small(4) {
                    out.push(self.mark(rng, s));
                }
            }
            3 => {
                // long mark run (>= 32 now and then)
                if rng.bool() {
                    out.push(self.base(rng, s));
                }
                let n = if rng.chance(1, 2) { rng.urange(32, 60) } else { rng.urange(12, 34) };
                self.mark_run(rng, s, n, out);
            }
            4 => {
                // foreign script cluster
                let o = self.any_script(rng);
                out.push(self.base(rng, o));
                for _ in 0..rng.small(3) {
                    out.push(self.mark(rng, o));
                }
            }
            5 => {
                // joiner runs
                for _ in 0..1 + rng.small(6) {
                    out.push(*rng.pick(&[ZWJ, ZWNJ, CGJ, ZWJ, ZWNJ]));
                }
            }
            6 => {
                // variation selectors: after a base, after a mark, doubled, leading
                if rng.chance(3, 4) {
                    out.push(self.base(rng, s));
                }
                if rng.chance(1, 3) {
                    out.push(self.mark(rng, s));
                }
                for _ in 0..1 + rng.small(2) {
                    out.push(ch(*rng.pick(VS)));
                }
            }
            7 => {
                // emoji-like sequences: ZWJ sequences, flags, keycaps, modifiers
                let pats: &[&[u32]] = &[&[0x1F468, 0x200D, 0x1F469, 0x200D, 0x1F467], &[0x1F1E6, 0x1F1FA], &[0x23, 0xFE0F, 0x20E3], &[0x1F44D, 0x1F3FB], &[0x2764, 0xFE0F], &[0x2764, 0xFE0E], &[0x1F468, 0x200D]];
                out.extend(rng.pick(pats).iter().map(|c| ch(*c)));
            }
            8 => {
                out.push(self.base(rng, s));
                out.push(self.mark(rng, s));
                out.push(*rng.pick(&[ZWJ, ZWNJ, CGJ, '\u{FE0F}', '\u{FE00}', DOTTED_CIRCLE]));
                out.push(self.mark(rng, s));
            }
            _ => {
                out.push(self.base(rng, s));
                let n = rng.small(6);
                self.mark_run(rng, s, n, out);
            }
        }
    }

    /// Text for script `s`, 0-64 characters.
    pub fn gen(&self, rng: &mut Rng, s: &Sc) -> Vec<char> {
        let mut out: Vec<char> = Vec::new();
        let target = match rng.below(20) {
            0 => return out,
            1 => 1,
            2 => 2,
            3..=10 => rng.urange(3, 14),
            11 if rng.chance(1, 4) => rng.urange(65, 400),
            _ => rng.urange(8, 64),
        };
        if target == 1 {
            out.push(match rng.below(5) {
                0 => self.mark(rng, s),
                1 => ch(*rng.pick(SPECIALS)),
                2 => ch(*rng.pick(ASTRAL)),
                _ => self.base(rng, s),
            });
            return out;
        }
        if rng.chance(1, 8) {
            // lone marks / halants at the very start
            for _ in 0..1 + rng.small(3) {
                out.push(if rng.bool() { self.mark(rng, s) } else { self.halant(s) });
            }
        }
        while out.len() < target {
            if rng.chance(3, 5) {
                match s.fam {
                    Fam::Arabic | Fam::Syriac => self.seg_arabic(rng, s, &mut out),
                    Fam::Thai => {
                        let lao = rng.chance(1, 12);
                        self.seg_thai_lao(rng, lao, &mut out)
                    }
                    Fam::Lao => {
                        let lao = !rng.chance(1, 12);
                        self.seg_thai_lao(rng, lao, &mut out)
                    }
                    Fam::Indic | Fam::Khmer | Fam::Myanmar => self.seg_syllabic(rng, s, &mut out),
                    Fam::Latin => self.seg_latin(rng, s, &mut out),
                    Fam::Hebrew => {
                        out.push(self.base(rng, s));
                        for _ in 0..rng.small(4) {
                            out.push(self.mark(rng, s));
                        }
                    }
                }
            } else {
                match rng.below(30) {
                    0 => self.seg_arabic(rng, &SCRIPTS[0], &mut out),
                    1 => {
                        let lao = rng.bool();
                        self.seg_thai_lao(rng, lao, &mut out)
                    }
                    2 => {
                        let o = self.any_script(rng);
                        self.seg_syllabic(rng, o, &mut out)
                    }
                    3 => self.seg_latin(rng, &SCRIPTS[16], &mut out),
                    _ => self.seg_generic(rng, s, &mut out),
                }
            }
        }
        // incomplete syllable at the end
        if rng.chance(1, 8) {
            out.push(if rng.bool() { self.halant(s) } else { *rng.pick(&[ZWJ, ZWNJ]) });
        }
        out.truncate(if target > 64 { 400 } else { 64 });
        out
    }

    /// Arbitrary code points.
    pub fn gen_arbitrary(&self, rng: &mut Rng) -> Vec<char> {
        let n = match rng.below(8) {
            0 => rng.below(3),
            _ => rng.urange(1, 64),
        };
        let mut out = Vec::with_capacity(n);
        while out.len() < n {
            let cp = match rng.below(8) {
                0 => rng.below(0x3000) as u32,
                1 => rng.below(0x10000) as u32,
                2 => 0x300 + rng.below(0x70) as u32,
                3 => 0x900 + rng.below(0x500) as u32,
                _ => rng.below(0x110000) as u32,
            };
            if let Some(c) = char::from_u32(cp) {
                out.push(c);
            }
        }
        out
    }
}
