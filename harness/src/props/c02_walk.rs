//! C02: independent walker over OpenType layout tables (GSUB / GPOS / GDEF / kern / morx).
//!
//! Shares no code with allsorts. Its only purpose is to *locate fields* deep inside the tables
//! (script list -> feature list -> lookup list -> subtables -> coverage / class definitions /
//! anchors / rule sets ...) so that the fault injector can hit them, and to list the script,
//! language and feature tags a font declares. It is tolerant: anything unreadable is skipped.

use std::collections::HashSet;

#[derive(Copy, Clone, PartialEq, Eq, Debug)]
pub enum Kind {
    Offset,
    Count,
    Index,
    Glyph,
    Class,
    Format,
    Flag,
    Value,
}

impl Kind {
    pub fn name(self) -> &'static str {
        match self {
            Kind::Offset => "offset",
            Kind::Count => "count",
            Kind::Index => "index",
            Kind::Glyph => "glyph",
            Kind::Class => "class",
            Kind::Format => "format",
            Kind::Flag => "flag",
            Kind::Value => "value",
        }
    }
}

#[derive(Copy, Clone, Debug)]
pub struct Site {
    pub at: u32,
    pub w: u8,
    pub kind: Kind,
    pub depth: u8,
    pub what: &'static str,
}

#[derive(Default, Clone, Debug)]
pub struct Walked {
    pub sites: Vec<Site>,
    /// starts of structures seen (targets for "type confusion" offset faults)
    pub starts: Vec<u32>,
    pub scripts: Vec<u32>,
    pub langs: Vec<u32>,
    pub features: Vec<u32>,
    pub lookup_types: Vec<u16>,
    pub max_depth: u8,
}

struct W<'a> {
    d: &'a [u8],
    out: Walked,
    depth: u8,
    seen: HashSet<(u32, u8)>,
    visits: usize,
}

const MAX_SITES: usize = 30_000;
const MAX_VISITS: usize = 12_000;

/// Indices to descend into for an array of `n` homogeneous children.
fn sample(n: usize, max: usize) -> Vec<usize> {
    if n <= max {
        return (0..n).collect();
    }
    let mut v: Vec<usize> = (0..max.saturating_sub(3)).collect();
    let mut x = n as u64 * 0x9E37_79B9 + 12345;
    for _ in 0..2 {
        x = x.wrapping_mul(6364136223846793005).wrapping_add(1442695040888963407);
        v.push(((x >> 33) as usize) % n);
    }
    v.push(n - 1);
    v.sort();
    v.dedup();
    v
}

impl<'a> W<'a> {
    fn new(d: &'a [u8]) -> W<'a> {
        W { d, out: Walked::default(), depth: 0, seen: HashSet::new(), visits: 0 }
    }
    fn peek16(&self, at: usize) -> Option<u16> {
        self.d.get(at..at + 2).map(|b| u16::from_be_bytes([b[0], b[1]]))
    }
    fn peek32(&self, at: usize) -> Option<u32> {
        self.d.get(at..at + 4).map(|b| u32::from_be_bytes([b[0], b[1], b[2], b[3]]))
    }
    fn site(&mut self, at: usize, w: u8, kind: Kind, what: &'static str) {
        if self.out.sites.len() < MAX_SITES && at + w as usize <= self.d.len() {
            self.out.sites.push(Site { at: at as u32, w, kind, depth: self.depth, what });
            if self.depth > self.out.max_depth {
                self.out.max_depth = self.depth;
            }
        }
    }
    fn f16(&mut self, at: usize, kind: Kind, what: &'static str) -> Option<u16> {
        let v = self.peek16(at)?;
        self.site(at, 2, kind, what);
        Some(v)
    }
    fn f32(&mut self, at: usize, kind: Kind, what: &'static str) -> Option<u32> {
        let v = self.peek32(at)?;
        self.site(at, 4, kind, what);
        Some(v)
    }
    /// offset16 field at `at`, relative to `base`; None when null or outside the table
    fn off16(&mut self, base: usize, at: usize, what: &'static str) -> Option<usize> {
        let v = self.f16(at, Kind::Offset, what)? as usize;
        if v == 0 || base + v >= self.d.len() {
            return None;
        }
        Some(base + v)
    }
    fn off32(&mut self, base: usize, at: usize, what: &'static str) -> Option<usize> {
        let v = self.f32(at, Kind::Offset, what)? as usize;
        if v == 0 || base.checked_add(v)? >= self.d.len() {
            return None;
        }
        Some(base + v)
    }
    /// register a structure; false when it was walked already or the budget is spent
    fn enter(&mut self, at: usize, ty: u8) -> bool {
        if self.visits >= MAX_VISITS || self.out.sites.len() >= MAX_SITES || self.depth > 14 {
            return false;
        }
        if !self.seen.insert((at as u32, ty)) {
            return false;
        }
        self.visits += 1;
        self.out.starts.push(at as u32);
        self.depth += 1;
        true
    }
    fn leave(&mut self) {
        self.depth -= 1;
    }
    /// a homogeneous u16 array: record the first two and the last element only
    fn arr16(&mut self, at: usize, n: usize, kind: Kind, what: &'static str) {
        for i in sample(n, 3) {
            self.f16(at + 2 * i, kind, what);
        }
    }

    // ---- common structures -----------------------------------------------------------------

    fn coverage(&mut self, at: usize) {
        if !self.enter(at, 1) {
            return;
        }
        (|| {
            let fmt = self.f16(at, Kind::Format, "coverage.format")?;
            let n = self.f16(at + 2, Kind::Count, "coverage.count")? as usize;
            if fmt == 1 {
                self.arr16(at + 4, n, Kind::Glyph, "coverage.glyph");
            } else {
                for i in sample(n, 3) {
                    self.f16(at + 4 + 6 * i, Kind::Glyph, "coverage.range-start");
                    self.f16(at + 6 + 6 * i, Kind::Glyph, "coverage.range-end");
                    self.f16(at + 8 + 6 * i, Kind::Index, "coverage.range-start-index");
                }
            }
            Some(())
        })();
        self.leave();
    }

    fn classdef(&mut self, at: usize) {
        if !self.enter(at, 2) {
            return;
        }
        (|| {
            let fmt = self.f16(at, Kind::Format, "classdef.format")?;
            if fmt == 1 {
                self.f16(at + 2, Kind::Glyph, "classdef.start-glyph")?;
                let n = self.f16(at + 4, Kind::Count, "classdef.count")? as usize;
                self.arr16(at + 6, n, Kind::Class, "classdef.class");
            } else {
                let n = self.f16(at + 2, Kind::Count, "classdef.count")? as usize;
                for i in sample(n, 3) {
                    self.f16(at + 4 + 6 * i, Kind::Glyph, "classdef.range-start");
                    self.f16(at + 6 + 6 * i, Kind::Glyph, "classdef.range-end");
                    self.f16(at + 8 + 6 * i, Kind::Class, "classdef.range-class");
                }
            }
            Some(())
        })();
        self.leave();
    }

    fn device(&mut self, at: usize) {
        if !self.enter(at, 3) {
            return;
        }
        self.f16(at, Kind::Value, "device.start");
        self.f16(at + 2, Kind::Value, "device.end");
        self.f16(at + 4, Kind::Format, "device.format");
        self.f16(at + 6, Kind::Value, "device.data");
        self.leave();
    }

    fn anchor(&mut self, at: usize) {
        if !self.enter(at, 4) {
            return;
        }
        (|| {
            let fmt = self.f16(at, Kind::Format, "anchor.format")?;
            self.f16(at + 2, Kind::Value, "anchor.x");
            self.f16(at + 4, Kind::Value, "anchor.y");
            if fmt == 2 {
                self.f16(at + 6, Kind::Index, "anchor.point");
            } else if fmt == 3 {
                if let Some(o) = self.off16(at, at + 6, "anchor.x-device") {
                    self.device(o);
                }
                if let Some(o) = self.off16(at, at + 8, "anchor.y-device") {
                    self.device(o);
                }
            }
            Some(())
        })();
        self.leave();
    }

    /// value record at `at` with `format`; `base` = start of the enclosing subtable. Returns size.
    fn value_record(&mut self, base: usize, at: usize, format: u16) -> usize {
        let mut p = at;
        for bit in 0..8 {
            if format & (1 << bit) != 0 {
                if bit < 4 {
                    self.f16(p, Kind::Value, "value-record.value");
                } else if let Some(o) = self.off16(base, p, "value-record.device") {
                    self.device(o);
                }
                p += 2;
            }
        }
        p - at
    }

    fn value_size(format: u16) -> usize {
        2 * (format & 0xFF).count_ones() as usize
    }

    // ---- script / feature / lookup lists ------------------------------------------------------

    fn langsys(&mut self, at: usize) {
        if !self.enter(at, 5) {
            return;
        }
        (|| {
            self.f16(at, Kind::Offset, "langsys.lookup-order")?;
            self.f16(at + 2, Kind::Index, "langsys.required-feature")?;
            let n = self.f16(at + 4, Kind::Count, "langsys.feature-count")? as usize;
            self.arr16(at + 6, n, Kind::Index, "langsys.feature-index");
            Some(())
        })();
        self.leave();
    }

    fn script_list(&mut self, at: usize) {
        if !self.enter(at, 6) {
            return;
        }
        (|| {
            let n = self.f16(at, Kind::Count, "script-list.count")? as usize;
            for i in 0..n.min(64) {
                let rec = at + 2 + 6 * i;
                if let Some(tag) = self.peek32(rec) {
                    self.out.scripts.push(tag);
                }
                if let Some(s) = self.off16(at, rec + 4, "script-list.script-offset") {
                    if self.enter(s, 7) {
                        (|| {
                            if let Some(l) = self.off16(s, s, "script.default-langsys") {
                                self.langsys(l);
                            }
                            let m = self.f16(s + 2, Kind::Count, "script.langsys-count")? as usize;
                            for j in sample(m, 4) {
                                let lr = s + 4 + 6 * j;
                                if let Some(tag) = self.peek32(lr) {
                                    self.out.langs.push(tag);
                                }
                                if let Some(l) = self.off16(s, lr + 4, "script.langsys-offset") {
                                    self.langsys(l);
                                }
                            }
                            Some(())
                        })();
                        self.leave();
                    }
                }
            }
            Some(())
        })();
        self.leave();
    }

    fn feature_table(&mut self, f: usize) {
        if !self.enter(f, 9) {
            return;
        }
        (|| {
            self.f16(f, Kind::Offset, "feature.params")?;
            let m = self.f16(f + 2, Kind::Count, "feature.lookup-count")? as usize;
            self.arr16(f + 4, m, Kind::Index, "feature.lookup-index");
            Some(())
        })();
        self.leave();
    }

    fn feature_list(&mut self, at: usize) {
        if !self.enter(at, 8) {
            return;
        }
        (|| {
            let n = self.f16(at, Kind::Count, "feature-list.count")? as usize;
            for i in 0..n.min(400) {
                if let Some(tag) = self.peek32(at + 2 + 6 * i) {
                    if !self.out.features.contains(&tag) {
                        self.out.features.push(tag);
                    }
                }
            }
            for i in sample(n, 24) {
                let rec = at + 2 + 6 * i;
                if let Some(f) = self.off16(at, rec + 4, "feature-list.feature-offset") {
                    self.feature_table(f);
                }
            }
            Some(())
        })();
        self.leave();
    }

    fn feature_variations(&mut self, at: usize) {
        if !self.enter(at, 10) {
            return;
        }
        (|| {
            self.f16(at, Kind::Format, "feature-variations.major")?;
            self.f16(at + 2, Kind::Format, "feature-variations.minor")?;
            let n = self.f32(at + 4, Kind::Count, "feature-variations.count")? as usize;
            for i in sample(n, 6) {
                let rec = at + 8 + 8 * i;
                if let Some(cs) = self.off32(at, rec, "feature-variations.condition-set") {
                    if self.enter(cs, 11) {
                        (|| {
                            let m = self.f16(cs, Kind::Count, "condition-set.count")? as usize;
                            for j in sample(m, 4) {
                                if let Some(c) = self.off32(cs, cs + 2 + 4 * j, "condition-set.condition") {
                                    self.f16(c, Kind::Format, "condition.format");
                                    self.f16(c + 2, Kind::Index, "condition.axis-index");
                                    self.f16(c + 4, Kind::Value, "condition.min");
                                    self.f16(c + 6, Kind::Value, "condition.max");
                                }
                            }
                            Some(())
                        })();
                        self.leave();
                    }
                }
                if let Some(ft) = self.off32(at, rec + 4, "feature-variations.substitution") {
                    if self.enter(ft, 12) {
                        (|| {
                            self.f16(ft, Kind::Format, "feature-substitution.major")?;
                            self.f16(ft + 2, Kind::Format, "feature-substitution.minor")?;
                            let m = self.f16(ft + 4, Kind::Count, "feature-substitution.count")? as usize;
                            for j in sample(m, 4) {
                                self.f16(ft + 6 + 6 * j, Kind::Index, "feature-substitution.feature-index");
                                if let Some(f) = self.off32(ft, ft + 8 + 6 * j, "feature-substitution.feature") {
                                    self.feature_table(f);
                                }
                            }
                            Some(())
                        })();
                        self.leave();
                    }
                }
            }
            Some(())
        })();
        self.leave();
    }

    fn lookup_list(&mut self, at: usize, gpos: bool) {
        if !self.enter(at, 13) {
            return;
        }
        (|| {
            let n = self.f16(at, Kind::Count, "lookup-list.count")? as usize;
            for i in sample(n, 48) {
                if let Some(l) = self.off16(at, at + 2 + 2 * i, "lookup-list.lookup-offset") {
                    self.lookup(l, gpos);
                }
            }
            Some(())
        })();
        self.leave();
    }

    fn lookup(&mut self, at: usize, gpos: bool) {
        if !self.enter(at, 14) {
            return;
        }
        (|| {
            let ty = self.f16(at, Kind::Format, "lookup.type")?;
            let flag = self.f16(at + 2, Kind::Flag, "lookup.flag")?;
            let n = self.f16(at + 4, Kind::Count, "lookup.subtable-count")? as usize;
            if !self.out.lookup_types.contains(&(ty | if gpos { 0x100 } else { 0 })) {
                self.out.lookup_types.push(ty | if gpos { 0x100 } else { 0 });
            }
            if flag & 0x10 != 0 {
                self.f16(at + 6 + 2 * n, Kind::Index, "lookup.mark-filtering-set");
            }
            for i in sample(n, 6) {
                if let Some(s) = self.off16(at, at + 6 + 2 * i, "lookup.subtable-offset") {
                    self.subtable(s, ty, gpos);
                }
            }
            Some(())
        })();
        self.leave();
    }

    fn subtable(&mut self, at: usize, ty: u16, gpos: bool) {
        if !self.enter(at, 15) {
            return;
        }
        let _ = match (gpos, ty) {
            (false, 1) => self.gsub_single(at),
            (false, 2) => self.gsub_sets(at, "multiple-subst.sequence-offset", "sequence"),
            (false, 3) => self.gsub_sets(at, "alternate-subst.set-offset", "alternate-set"),
            (false, 4) => self.gsub_ligature(at),
            (false, 5) | (true, 7) => self.context(at),
            (false, 6) | (true, 8) => self.chain_context(at),
            (false, 7) | (true, 9) => self.extension(at, gpos),
            (false, 8) => self.reverse_chain(at),
            (true, 1) => self.gpos_single(at),
            (true, 2) => self.gpos_pair(at),
            (true, 3) => self.gpos_cursive(at),
            (true, 4) => self.gpos_mark_attach(at, 4),
            (true, 5) => self.gpos_mark_attach(at, 5),
            (true, 6) => self.gpos_mark_attach(at, 6),
            _ => None,
        };
        self.leave();
    }

    fn extension(&mut self, at: usize, gpos: bool) -> Option<()> {
        self.f16(at, Kind::Format, "extension.format")?;
        let ty = self.f16(at + 2, Kind::Format, "extension.lookup-type")?;
        if let Some(s) = self.off32(at, at + 4, "extension.offset") {
            if ty != 7 && ty != 9 {
                self.subtable(s, ty, gpos);
            }
        }
        Some(())
    }

    // ---- GSUB -----------------------------------------------------------------------------------

    fn gsub_single(&mut self, at: usize) -> Option<()> {
        let fmt = self.f16(at, Kind::Format, "single-subst.format")?;
        if let Some(c) = self.off16(at, at + 2, "single-subst.coverage") {
            self.coverage(c);
        }
        if fmt == 1 {
            self.f16(at + 4, Kind::Value, "single-subst.delta")?;
        } else {
            let n = self.f16(at + 4, Kind::Count, "single-subst.count")? as usize;
            self.arr16(at + 6, n, Kind::Glyph, "single-subst.substitute");
        }
        Some(())
    }

    fn gsub_sets(&mut self, at: usize, what: &'static str, _child: &'static str) -> Option<()> {
        self.f16(at, Kind::Format, "subst.format")?;
        if let Some(c) = self.off16(at, at + 2, "subst.coverage") {
            self.coverage(c);
        }
        let n = self.f16(at + 4, Kind::Count, "subst.set-count")? as usize;
        for i in sample(n, 6) {
            if let Some(s) = self.off16(at, at + 6 + 2 * i, what) {
                if self.enter(s, 16) {
                    if let Some(m) = self.f16(s, Kind::Count, "glyph-sequence.count") {
                        self.arr16(s + 2, m as usize, Kind::Glyph, "glyph-sequence.glyph");
                    }
                    self.leave();
                }
            }
        }
        Some(())
    }

    fn gsub_ligature(&mut self, at: usize) -> Option<()> {
        self.f16(at, Kind::Format, "ligature-subst.format")?;
        if let Some(c) = self.off16(at, at + 2, "ligature-subst.coverage") {
            self.coverage(c);
        }
        let n = self.f16(at + 4, Kind::Count, "ligature-subst.set-count")? as usize;
        for i in sample(n, 6) {
            if let Some(s) = self.off16(at, at + 6 + 2 * i, "ligature-subst.set-offset") {
                if self.enter(s, 17) {
                    (|| {
                        let m = self.f16(s, Kind::Count, "ligature-set.count")? as usize;
                        for j in sample(m, 4) {
                            if let Some(l) = self.off16(s, s + 2 + 2 * j, "ligature-set.ligature-offset") {
                                if self.enter(l, 18) {
                                    self.f16(l, Kind::Glyph, "ligature.glyph");
                                    if let Some(k) = self.f16(l + 2, Kind::Count, "ligature.component-count") {
                                        self.arr16(l + 4, (k as usize).saturating_sub(1), Kind::Glyph, "ligature.component");
                                    }
                                    self.leave();
                                }
                            }
                        }
                        Some(())
                    })();
                    self.leave();
                }
            }
        }
        Some(())
    }

    fn seq_lookup_records(&mut self, at: usize, n: usize) {
        for i in sample(n, 4) {
            self.f16(at + 4 * i, Kind::Index, "seq-lookup.sequence-index");
            self.f16(at + 4 * i + 2, Kind::Index, "seq-lookup.lookup-index");
        }
    }

    /// rule sets of context formats 1/2 (`chain` selects the chained rule layout)
    fn rule_sets(&mut self, at: usize, count_at: usize, chain: bool, kind: Kind) -> Option<()> {
        let n = self.f16(count_at, Kind::Count, "context.rule-set-count")? as usize;
        for i in sample(n, 6) {
            if let Some(rs) = self.off16(at, count_at + 2 + 2 * i, "context.rule-set-offset") {
                if self.enter(rs, 19) {
                    (|| {
                        let m = self.f16(rs, Kind::Count, "rule-set.rule-count")? as usize;
                        for j in sample(m, 4) {
                            if let Some(r) = self.off16(rs, rs + 2 + 2 * j, "rule-set.rule-offset") {
                                if self.enter(r, 20) {
                                    (|| {
                                        if !chain {
                                            let g = self.f16(r, Kind::Count, "rule.glyph-count")? as usize;
                                            let s = self.f16(r + 2, Kind::Count, "rule.seq-lookup-count")? as usize;
                                            self.arr16(r + 4, g.saturating_sub(1), kind, "rule.input");
                                            self.seq_lookup_records(r + 4 + 2 * g.saturating_sub(1), s);
                                        } else {
                                            let mut p = r;
                                            let b = self.f16(p, Kind::Count, "chain-rule.backtrack-count")? as usize;
                                            self.arr16(p + 2, b, kind, "chain-rule.backtrack");
                                            p += 2 + 2 * b;
                                            let g = self.f16(p, Kind::Count, "chain-rule.input-count")? as usize;
                                            self.arr16(p + 2, g.saturating_sub(1), kind, "chain-rule.input");
                                            p += 2 + 2 * g.saturating_sub(1);
                                            let l = self.f16(p, Kind::Count, "chain-rule.lookahead-count")? as usize;
                                            self.arr16(p + 2, l, kind, "chain-rule.lookahead");
                                            p += 2 + 2 * l;
                                            let s = self.f16(p, Kind::Count, "chain-rule.seq-lookup-count")? as usize;
                                            self.seq_lookup_records(p + 2, s);
                                        }
                                        Some(())
                                    })();
                                    self.leave();
                                }
                            }
                        }
                        Some(())
                    })();
                    self.leave();
                }
            }
        }
        Some(())
    }

    fn context(&mut self, at: usize) -> Option<()> {
        let fmt = self.f16(at, Kind::Format, "context.format")?;
        match fmt {
            1 => {
                if let Some(c) = self.off16(at, at + 2, "context.coverage") {
                    self.coverage(c);
                }
                self.rule_sets(at, at + 4, false, Kind::Glyph)?;
            }
            2 => {
                if let Some(c) = self.off16(at, at + 2, "context.coverage") {
                    self.coverage(c);
                }
                if let Some(c) = self.off16(at, at + 4, "context.classdef") {
                    self.classdef(c);
                }
                self.rule_sets(at, at + 6, false, Kind::Class)?;
            }
            3 => {
                let g = self.f16(at + 2, Kind::Count, "context3.glyph-count")? as usize;
                let s = self.f16(at + 4, Kind::Count, "context3.seq-lookup-count")? as usize;
                for i in sample(g, 4) {
                    if let Some(c) = self.off16(at, at + 6 + 2 * i, "context3.coverage") {
                        self.coverage(c);
                    }
                }
                self.seq_lookup_records(at + 6 + 2 * g, s);
            }
            _ => {}
        }
        Some(())
    }

    fn chain_context(&mut self, at: usize) -> Option<()> {
        let fmt = self.f16(at, Kind::Format, "chain-context.format")?;
        match fmt {
            1 => {
                if let Some(c) = self.off16(at, at + 2, "chain-context.coverage") {
                    self.coverage(c);
                }
                self.rule_sets(at, at + 4, true, Kind::Glyph)?;
            }
            2 => {
                if let Some(c) = self.off16(at, at + 2, "chain-context.coverage") {
                    self.coverage(c);
                }
                for (k, what) in ["chain-context.backtrack-classdef", "chain-context.input-classdef", "chain-context.lookahead-classdef"].iter().enumerate() {
                    if let Some(c) = self.off16(at, at + 4 + 2 * k, what) {
                        self.classdef(c);
                    }
                }
                self.rule_sets(at, at + 10, true, Kind::Class)?;
            }
            3 => {
                let mut p = at + 2;
                for what in ["chain-context3.backtrack", "chain-context3.input", "chain-context3.lookahead"] {
                    let n = self.f16(p, Kind::Count, "chain-context3.count")? as usize;
                    for i in sample(n, 3) {
                        if let Some(c) = self.off16(at, p + 2 + 2 * i, what) {
                            self.coverage(c);
                        }
                    }
                    p += 2 + 2 * n;
                }
                let s = self.f16(p, Kind::Count, "chain-context3.seq-lookup-count")? as usize;
                self.seq_lookup_records(p + 2, s);
            }
            _ => {}
        }
        Some(())
    }

    fn reverse_chain(&mut self, at: usize) -> Option<()> {
        self.f16(at, Kind::Format, "reverse-chain.format")?;
        if let Some(c) = self.off16(at, at + 2, "reverse-chain.coverage") {
            self.coverage(c);
        }
        let mut p = at + 4;
        for what in ["reverse-chain.backtrack", "reverse-chain.lookahead"] {
            let n = self.f16(p, Kind::Count, "reverse-chain.count")? as usize;
            for i in sample(n, 3) {
                if let Some(c) = self.off16(at, p + 2 + 2 * i, what) {
                    self.coverage(c);
                }
            }
            p += 2 + 2 * n;
        }
        let n = self.f16(p, Kind::Count, "reverse-chain.glyph-count")? as usize;
        self.arr16(p + 2, n, Kind::Glyph, "reverse-chain.substitute");
        Some(())
    }

    // ---- GPOS -----------------------------------------------------------------------------------

    fn gpos_single(&mut self, at: usize) -> Option<()> {
        let fmt = self.f16(at, Kind::Format, "single-pos.format")?;
        if let Some(c) = self.off16(at, at + 2, "single-pos.coverage") {
            self.coverage(c);
        }
        let vf = self.f16(at + 4, Kind::Flag, "single-pos.value-format")?;
        if fmt == 1 {
            self.value_record(at, at + 6, vf);
        } else {
            let n = self.f16(at + 6, Kind::Count, "single-pos.count")? as usize;
            let sz = Self::value_size(vf);
            for i in sample(n, 3) {
                self.value_record(at, at + 8 + sz * i, vf);
            }
        }
        Some(())
    }

    fn gpos_pair(&mut self, at: usize) -> Option<()> {
        let fmt = self.f16(at, Kind::Format, "pair-pos.format")?;
        if let Some(c) = self.off16(at, at + 2, "pair-pos.coverage") {
            self.coverage(c);
        }
        let vf1 = self.f16(at + 4, Kind::Flag, "pair-pos.value-format1")?;
        let vf2 = self.f16(at + 6, Kind::Flag, "pair-pos.value-format2")?;
        let (s1, s2) = (Self::value_size(vf1), Self::value_size(vf2));
        if fmt == 1 {
            let n = self.f16(at + 8, Kind::Count, "pair-pos.set-count")? as usize;
            for i in sample(n, 5) {
                if let Some(ps) = self.off16(at, at + 10 + 2 * i, "pair-pos.set-offset") {
                    if self.enter(ps, 21) {
                        if let Some(m) = self.f16(ps, Kind::Count, "pair-set.count") {
                            for j in sample(m as usize, 3) {
                                let r = ps + 2 + (2 + s1 + s2) * j;
                                self.f16(r, Kind::Glyph, "pair-set.second-glyph");
                                self.value_record(ps, r + 2, vf1);
                                self.value_record(ps, r + 2 + s1, vf2);
                            }
                        }
                        self.leave();
                    }
                }
            }
        } else if fmt == 2 {
            if let Some(c) = self.off16(at, at + 8, "pair-pos.classdef1") {
                self.classdef(c);
            }
            if let Some(c) = self.off16(at, at + 10, "pair-pos.classdef2") {
                self.classdef(c);
            }
            let c1 = self.f16(at + 12, Kind::Count, "pair-pos.class1-count")? as usize;
            let c2 = self.f16(at + 14, Kind::Count, "pair-pos.class2-count")? as usize;
            for i in sample(c1 * c2, 3) {
                let r = at + 16 + (s1 + s2) * i;
                self.value_record(at, r, vf1);
                self.value_record(at, r + s1, vf2);
            }
        }
        Some(())
    }

    fn gpos_cursive(&mut self, at: usize) -> Option<()> {
        self.f16(at, Kind::Format, "cursive.format")?;
        if let Some(c) = self.off16(at, at + 2, "cursive.coverage") {
            self.coverage(c);
        }
        let n = self.f16(at + 4, Kind::Count, "cursive.count")? as usize;
        for i in sample(n, 5) {
            if let Some(a) = self.off16(at, at + 6 + 4 * i, "cursive.entry-anchor") {
                self.anchor(a);
            }
            if let Some(a) = self.off16(at, at + 8 + 4 * i, "cursive.exit-anchor") {
                self.anchor(a);
            }
        }
        Some(())
    }

    fn mark_array(&mut self, at: usize) {
        if !self.enter(at, 22) {
            return;
        }
        if let Some(n) = self.f16(at, Kind::Count, "mark-array.count") {
            for i in sample(n as usize, 4) {
                self.f16(at + 2 + 4 * i, Kind::Class, "mark-array.class");
                if let Some(a) = self.off16(at, at + 4 + 4 * i, "mark-array.anchor") {
                    self.anchor(a);
                }
            }
        }
        self.leave();
    }

    /// BaseArray / Mark2Array: count, then count x class_count anchor offsets
    fn anchor_matrix(&mut self, at: usize, class_count: usize) {
        if !self.enter(at, 23) {
            return;
        }
        if let Some(n) = self.f16(at, Kind::Count, "anchor-matrix.count") {
            for i in sample(n as usize * class_count, 5) {
                if let Some(a) = self.off16(at, at + 2 + 2 * i, "anchor-matrix.anchor") {
                    self.anchor(a);
                }
            }
        }
        self.leave();
    }

    fn gpos_mark_attach(&mut self, at: usize, ty: u16) -> Option<()> {
        self.f16(at, Kind::Format, "mark-attach.format")?;
        if let Some(c) = self.off16(at, at + 2, "mark-attach.mark-coverage") {
            self.coverage(c);
        }
        if let Some(c) = self.off16(at, at + 4, "mark-attach.base-coverage") {
            self.coverage(c);
        }
        let cc = self.f16(at + 6, Kind::Count, "mark-attach.class-count")? as usize;
        if let Some(m) = self.off16(at, at + 8, "mark-attach.mark-array") {
            self.mark_array(m);
        }
        if let Some(b) = self.off16(at, at + 10, "mark-attach.base-array") {
            if ty == 5 {
                if self.enter(b, 24) {
                    if let Some(n) = self.f16(b, Kind::Count, "ligature-array.count") {
                        for i in sample(n as usize, 4) {
                            if let Some(la) = self.off16(b, b + 2 + 2 * i, "ligature-array.attach-offset") {
                                self.anchor_matrix(la, cc);
                            }
                        }
                    }
                    self.leave();
                }
            } else {
                self.anchor_matrix(b, cc);
            }
        }
        Some(())
    }

    // ---- whole tables ---------------------------------------------------------------------------

    fn layout(&mut self, gpos: bool) -> Option<()> {
        self.f16(0, Kind::Format, "header.major")?;
        let minor = self.f16(2, Kind::Format, "header.minor")?;
        // lookups first: they are the deep part and must not be starved by the budget
        if let Some(l) = self.off16(0, 8, "header.lookup-list") {
            self.lookup_list(l, gpos);
        }
        if let Some(s) = self.off16(0, 4, "header.script-list") {
            self.script_list(s);
        }
        if let Some(f) = self.off16(0, 6, "header.feature-list") {
            self.feature_list(f);
        }
        if minor >= 1 {
            if let Some(v) = self.off32(0, 10, "header.feature-variations") {
                self.feature_variations(v);
            }
        }
        Some(())
    }

    fn gdef(&mut self) -> Option<()> {
        self.f16(0, Kind::Format, "gdef.major")?;
        let minor = self.f16(2, Kind::Format, "gdef.minor")?;
        if let Some(c) = self.off16(0, 4, "gdef.glyph-classdef") {
            self.classdef(c);
        }
        if let Some(a) = self.off16(0, 6, "gdef.attach-list") {
            if self.enter(a, 30) {
                (|| {
                    if let Some(c) = self.off16(a, a, "attach-list.coverage") {
                        self.coverage(c);
                    }
                    let n = self.f16(a + 2, Kind::Count, "attach-list.count")? as usize;
                    for i in sample(n, 3) {
                        if let Some(p) = self.off16(a, a + 4 + 2 * i, "attach-list.point-offset") {
                            if let Some(m) = self.f16(p, Kind::Count, "attach-point.count") {
                                self.arr16(p + 2, m as usize, Kind::Index, "attach-point.index");
                            }
                        }
                    }
                    Some(())
                })();
                self.leave();
            }
        }
        if let Some(l) = self.off16(0, 8, "gdef.lig-caret-list") {
            if self.enter(l, 31) {
                (|| {
                    if let Some(c) = self.off16(l, l, "lig-caret-list.coverage") {
                        self.coverage(c);
                    }
                    let n = self.f16(l + 2, Kind::Count, "lig-caret-list.count")? as usize;
                    for i in sample(n, 3) {
                        if let Some(g) = self.off16(l, l + 4 + 2 * i, "lig-caret-list.lig-glyph") {
                            if let Some(m) = self.f16(g, Kind::Count, "lig-glyph.caret-count") {
                                for j in sample(m as usize, 2) {
                                    if let Some(cv) = self.off16(g, g + 2 + 2 * j, "lig-glyph.caret-offset") {
                                        self.f16(cv, Kind::Format, "caret-value.format");
                                        self.f16(cv + 2, Kind::Value, "caret-value.value");
                                    }
                                }
                            }
                        }
                    }
                    Some(())
                })();
                self.leave();
            }
        }
        if let Some(c) = self.off16(0, 10, "gdef.mark-attach-classdef") {
            self.classdef(c);
        }
        if minor >= 2 {
            if let Some(m) = self.off16(0, 12, "gdef.mark-glyph-sets") {
                if self.enter(m, 32) {
                    (|| {
                        self.f16(m, Kind::Format, "mark-glyph-sets.format")?;
                        let n = self.f16(m + 2, Kind::Count, "mark-glyph-sets.count")? as usize;
                        for i in sample(n, 6) {
                            if let Some(c) = self.off32(m, m + 4 + 4 * i, "mark-glyph-sets.coverage") {
                                self.coverage(c);
                            }
                        }
                        Some(())
                    })();
                    self.leave();
                }
            }
        }
        if minor >= 3 {
            if let Some(v) = self.off32(0, 14, "gdef.item-variation-store") {
                if self.enter(v, 33) {
                    (|| {
                        self.f16(v, Kind::Format, "ivs.format")?;
                        let rl = self.off32(v, v + 2, "ivs.region-list");
                        let n = self.f16(v + 6, Kind::Count, "ivs.data-count")? as usize;
                        for i in sample(n, 4) {
                            if let Some(dd) = self.off32(v, v + 8 + 4 * i, "ivs.data-offset") {
                                self.f16(dd, Kind::Count, "ivs-data.item-count");
                                self.f16(dd + 2, Kind::Count, "ivs-data.short-delta-count");
                                if let Some(r) = self.f16(dd + 4, Kind::Count, "ivs-data.region-count") {
                                    self.arr16(dd + 6, r as usize, Kind::Index, "ivs-data.region-index");
                                }
                            }
                        }
                        if let Some(rl) = rl {
                            self.f16(rl, Kind::Count, "ivs-regions.axis-count");
                            self.f16(rl + 2, Kind::Count, "ivs-regions.region-count");
                            self.f16(rl + 4, Kind::Value, "ivs-regions.start");
                            self.f16(rl + 6, Kind::Value, "ivs-regions.peak");
                            self.f16(rl + 8, Kind::Value, "ivs-regions.end");
                        }
                        Some(())
                    })();
                    self.leave();
                }
            }
        }
        Some(())
    }

    fn kern(&mut self) -> Option<()> {
        let v = self.peek16(0)?;
        if v == 0 {
            self.f16(0, Kind::Format, "kern.version")?;
            let n = self.f16(2, Kind::Count, "kern.table-count")? as usize;
            let mut p = 4;
            for _ in 0..n.min(8) {
                self.depth = 1;
                self.f16(p, Kind::Format, "kern.subtable-version")?;
                let len = self.f16(p + 2, Kind::Count, "kern.subtable-length")? as usize;
                let cov = self.f16(p + 4, Kind::Flag, "kern.subtable-coverage")?;
                self.kern_body(p + 6, p, cov >> 8);
                if len < 6 {
                    break;
                }
                p += len;
            }
        } else {
            self.f32(0, Kind::Format, "kern.version")?;
            let n = self.f32(4, Kind::Count, "kern.table-count")? as usize;
            let mut p = 8;
            for _ in 0..n.min(8) {
                self.depth = 1;
                let len = self.f32(p, Kind::Count, "kern.subtable-length")? as usize;
                let cov = self.f16(p + 4, Kind::Flag, "kern.subtable-coverage")?;
                self.f16(p + 6, Kind::Index, "kern.tuple-index")?;
                self.kern_body(p + 8, p, cov & 0xFF);
                if len < 8 {
                    break;
                }
                p += len;
            }
        }
        self.depth = 0;
        Some(())
    }

    fn kern_body(&mut self, at: usize, sub: usize, format: u16) -> Option<()> {
        self.depth = 2;
        if format == 0 {
            let n = self.f16(at, Kind::Count, "kern0.pair-count")? as usize;
            self.f16(at + 2, Kind::Value, "kern0.search-range");
            self.f16(at + 4, Kind::Value, "kern0.entry-selector");
            self.f16(at + 6, Kind::Value, "kern0.range-shift");
            for i in sample(n, 6) {
                self.f16(at + 8 + 6 * i, Kind::Glyph, "kern0.left");
                self.f16(at + 10 + 6 * i, Kind::Glyph, "kern0.right");
                self.f16(at + 12 + 6 * i, Kind::Value, "kern0.value");
            }
        } else if format == 2 {
            self.f16(at, Kind::Count, "kern2.row-width");
            for (k, what) in ["kern2.left-class-table", "kern2.right-class-table"].iter().enumerate() {
                if let Some(c) = self.off16(sub, at + 2 + 2 * k, what) {
                    self.f16(c, Kind::Glyph, "kern2.first-glyph");
                    if let Some(n) = self.f16(c + 2, Kind::Count, "kern2.glyph-count") {
                        self.arr16(c + 4, n as usize, Kind::Value, "kern2.class-offset");
                    }
                }
            }
            self.off16(sub, at + 6, "kern2.array");
        }
        Some(())
    }

    fn morx(&mut self) -> Option<()> {
        self.f16(0, Kind::Format, "morx.version")?;
        let n = self.f32(4, Kind::Count, "morx.chain-count")? as usize;
        let mut p = 8;
        for _ in 0..n.min(4) {
            self.depth = 1;
            self.f32(p, Kind::Flag, "morx.default-flags")?;
            let clen = self.f32(p + 4, Kind::Count, "morx.chain-length")? as usize;
            let nf = self.f32(p + 8, Kind::Count, "morx.feature-count")? as usize;
            let ns = self.f32(p + 12, Kind::Count, "morx.subtable-count")? as usize;
            for i in sample(nf, 3) {
                let f = p + 16 + 12 * i;
                self.f16(f, Kind::Value, "morx.feature-type");
                self.f16(f + 2, Kind::Value, "morx.feature-setting");
                self.f32(f + 4, Kind::Flag, "morx.enable-flags");
                self.f32(f + 8, Kind::Flag, "morx.disable-flags");
            }
            let mut s = p + 16 + 12 * nf;
            for _ in 0..ns.min(12) {
                self.depth = 2;
                let slen = self.f32(s, Kind::Count, "morx.subtable-length")? as usize;
                let cov = self.f32(s + 4, Kind::Flag, "morx.subtable-coverage")?;
                self.f32(s + 8, Kind::Flag, "morx.sub-feature-flags")?;
                let body = s + 12;
                self.depth = 3;
                let ty = cov & 0xFF;
                if ty == 4 {
                    self.lookup_table(body);
                } else {
                    // extended state table header
                    self.f32(body, Kind::Count, "stx.class-count");
                    let ct = self.f32(body + 4, Kind::Offset, "stx.class-table");
                    let sa = self.f32(body + 8, Kind::Offset, "stx.state-array");
                    let et = self.f32(body + 12, Kind::Offset, "stx.entry-table");
                    let extra = match ty {
                        1 => 1,
                        2 => 3,
                        5 => 1,
                        _ => 0,
                    };
                    for k in 0..extra {
                        self.f32(body + 16 + 4 * k, Kind::Offset, "stx.extra-table");
                    }
                    if let Some(ct) = ct {
                        self.lookup_table(body + ct as usize);
                    }
                    self.depth = 4;
                    if let Some(sa) = sa {
                        for k in 0..6 {
                            self.f16(body + sa as usize + 2 * k, Kind::Index, "stx.state-entry-index");
                        }
                    }
                    if let Some(et) = et {
                        for k in 0..6 {
                            self.f16(body + et as usize + 2 * k, Kind::Index, "stx.entry-field");
                        }
                    }
                }
                if slen < 12 {
                    break;
                }
                s += slen;
            }
            if clen < 16 {
                break;
            }
            p += clen;
        }
        self.depth = 0;
        Some(())
    }

    /// AAT lookup table header
    fn lookup_table(&mut self, at: usize) -> Option<()> {
        self.depth += 1;
        let r = (|| {
            let fmt = self.f16(at, Kind::Format, "aat-lookup.format")?;
            match fmt {
                0 => self.arr16(at + 2, 8, Kind::Value, "aat-lookup0.value"),
                2 | 4 | 6 => {
                    self.f16(at + 2, Kind::Count, "aat-lookup.unit-size")?;
                    let n = self.f16(at + 4, Kind::Count, "aat-lookup.unit-count")? as usize;
                    self.f16(at + 6, Kind::Value, "aat-lookup.search-range");
                    self.f16(at + 8, Kind::Value, "aat-lookup.entry-selector");
                    self.f16(at + 10, Kind::Value, "aat-lookup.range-shift");
                    for i in sample(n, 3) {
                        self.f16(at + 12 + 6 * i, Kind::Glyph, "aat-lookup.last-glyph");
                        self.f16(at + 14 + 6 * i, Kind::Glyph, "aat-lookup.first-glyph");
                        self.f16(at + 16 + 6 * i, Kind::Value, "aat-lookup.value");
                    }
                }
                8 => {
                    self.f16(at + 2, Kind::Glyph, "aat-lookup8.first-glyph")?;
                    let n = self.f16(at + 4, Kind::Count, "aat-lookup8.glyph-count")? as usize;
                    self.arr16(at + 6, n, Kind::Value, "aat-lookup8.value");
                }
                _ => {}
            }
            Some(())
        })();
        self.depth -= 1;
        r
    }
}

pub fn walk(tag: &str, data: &[u8]) -> Walked {
    let mut w = W::new(data);
    match tag {
        "GSUB" => {
            w.layout(false);
        }
        "GPOS" => {
            w.layout(true);
        }
        "GDEF" => {
            w.gdef();
        }
        "kern" => {
            w.kern();
        }
        "morx" => {
            w.morx();
        }
        _ => {}
    }
    w.out
}

/// Script / language / feature tags of a GSUB or GPOS table only (cheap).
pub fn walk_tags(data: &[u8]) -> Walked {
    let mut w = W::new(data);
    if let Some(s) = w.off16(0, 4, "header.script-list") {
        w.script_list(s);
    }
    if let Some(f) = w.off16(0, 6, "header.feature-list") {
        w.feature_list(f);
    }
    w.out
}

// ---------------------------------------------------------------------------------------------
// growth potential of a GSUB table
// ---------------------------------------------------------------------------------------------

fn r16(d: &[u8], at: usize) -> Option<usize> {
    d.get(at..at + 2).map(|b| u16::from_be_bytes([b[0], b[1]]) as usize)
}
fn r32(d: &[u8], at: usize) -> Option<usize> {
    d.get(at..at + 4).map(|b| u32::from_be_bytes([b[0], b[1], b[2], b[3]]) as usize)
}

/// glyphs covered by a coverage table at `at` are marked in `set`
fn mark_coverage(d: &[u8], at: usize, set: &mut [bool]) -> Option<()> {
    match r16(d, at)? {
        1 => {
            let n = r16(d, at + 2)?;
            for i in 0..n {
                set[r16(d, at + 4 + 2 * i)?] = true;
            }
        }
        2 => {
            let n = r16(d, at + 2)?;
            for i in 0..n {
                let (a, b) = (r16(d, at + 4 + 6 * i)?, r16(d, at + 6 + 6 * i)?);
                if a <= b {
                    for g in a..=b {
                        set[g] = true;
                    }
                }
            }
        }
        _ => {}
    }
    Some(())
}

/// (lookup type, subtable start) of every subtable of lookup `li`, extension resolved
fn subtables(d: &[u8], ll: usize, li: usize) -> Vec<(usize, usize)> {
    let mut out = Vec::new();
    let mut inner = || -> Option<()> {
        if li >= r16(d, ll)? {
            return None;
        }
        let l = ll + r16(d, ll + 2 + 2 * li)?;
        let ty = r16(d, l)?;
        let ns = r16(d, l + 4)?;
        for s in 0..ns.min(64) {
            let mut st = l + r16(d, l + 6 + 2 * s)?;
            let mut ty = ty;
            if ty == 7 {
                ty = r16(d, st + 2)?;
                st += r32(d, st + 4)?;
            }
            out.push((ty, st));
        }
        Some(())
    };
    inner();
    out
}

/// Upper bound on the factor by which one application of lookup `li` multiplies the number of
/// *growable* glyphs (glyphs some multiple substitution covers): for a multiple substitution the
/// largest number of growable glyphs in one of its sequences; for contexts what the lookups they
/// call add per position. Sequences that do not fit in the table count as 1 (they do not parse).
fn lookup_growth(d: &[u8], ll: usize, li: usize, growable: &[bool], maxlen: &mut usize, memo: &mut std::collections::HashMap<usize, f64>, stack: &mut Vec<usize>) -> f64 {
    if let Some(v) = memo.get(&li) {
        return *v;
    }
    if stack.contains(&li) || stack.len() > 8 {
        // cyclic / deep nesting: allsorts stops at its recursion limit
        return 1.0;
    }
    stack.push(li);
    let mut worst: f64 = 1.0;
    for (ty, st) in subtables(d, ll, li) {
        match ty {
            2 => {
                let count = r16(d, st + 4).unwrap_or(0);
                for k in 0..count.min(4096) {
                    let sq = match r16(d, st + 6 + 2 * k) {
                        Some(o) => st + o,
                        None => continue,
                    };
                    let c = match r16(d, sq) {
                        Some(c) => c,
                        None => continue,
                    };
                    if sq + 2 + 2 * c <= d.len() {
                        *maxlen = (*maxlen).max(c);
                        let g = (0..c).filter(|i| r16(d, sq + 2 + 2 * i).map_or(false, |g| growable[g])).count();
                        worst = worst.max(g as f64);
                    }
                }
            }
            5 | 6 => {
                let mut add = 0.0;
                let mut recs: Vec<(usize, usize)> = Vec::new();
                context_records(d, st, ty == 6, &mut recs);
                for (_, lk) in recs.iter().take(4096) {
                    add += lookup_growth(d, ll, *lk, growable, maxlen, memo, stack) - 1.0;
                }
                worst = worst.max(1.0 + add);
            }
            _ => {}
        }
    }
    stack.pop();
    memo.insert(li, worst);
    worst
}

/// (sequence index, lookup index) records of a (chain) context subtable, all rules together
fn context_records(d: &[u8], st: usize, chain: bool, out: &mut Vec<(usize, usize)>) -> Option<()> {
    let fmt = r16(d, st)?;
    let mut push = |at: usize, n: usize, out: &mut Vec<(usize, usize)>| {
        for i in 0..n.min(64) {
            if let (Some(a), Some(b)) = (r16(d, at + 4 * i), r16(d, at + 4 * i + 2)) {
                out.push((a, b));
            }
        }
    };
    match fmt {
        1 | 2 => {
            let count_at = match (fmt, chain) {
                (1, _) => st + 4,
                (2, false) => st + 6,
                _ => st + 10,
            };
            let nsets = r16(d, count_at)?;
            for i in 0..nsets.min(256) {
                let off = r16(d, count_at + 2 + 2 * i)?;
                if off == 0 {
                    continue;
                }
                let rs = st + off;
                let nr = match r16(d, rs) {
                    Some(n) => n,
                    None => continue,
                };
                for j in 0..nr.min(64) {
                    let r = match r16(d, rs + 2 + 2 * j) {
                        Some(o) => rs + o,
                        None => continue,
                    };
                    if !chain {
                        if let (Some(g), Some(s)) = (r16(d, r), r16(d, r + 2)) {
                            push(r + 4 + 2 * g.saturating_sub(1), s, out);
                        }
                    } else {
                        let mut p = r;
                        let b = match r16(d, p) {
                            Some(b) => b,
                            None => continue,
                        };
                        p += 2 + 2 * b;
                        let g = match r16(d, p) {
                            Some(g) => g,
                            None => continue,
                        };
                        p += 2 + 2 * g.saturating_sub(1);
                        let l = match r16(d, p) {
                            Some(l) => l,
                            None => continue,
                        };
                        p += 2 + 2 * l;
                        if let Some(s) = r16(d, p) {
                            push(p + 2, s, out);
                        }
                    }
                }
            }
        }
        3 => {
            if !chain {
                let g = r16(d, st + 2)?;
                let s = r16(d, st + 4)?;
                push(st + 6 + 2 * g, s, out);
            } else {
                let mut p = st + 2;
                for _ in 0..3 {
                    let n = r16(d, p)?;
                    p += 2 + 2 * n;
                }
                let s = r16(d, p)?;
                push(p + 2, s, out);
            }
        }
        _ => {}
    }
    Some(())
}

/// Upper bound on the factor by which shaping with this GSUB table can grow a run, assuming every
/// feature table (feature list and feature variation alternates) is applied once: the product over
/// all lookup references of the factor by which the lookup multiplies the growable glyphs, times
/// the longest sequence. Used to keep exponential growth out of the workload (allsorts does not
/// limit the run length; that limitation is recorded, not judged).
pub fn growth_potential(d: &[u8]) -> f64 {
    let inner = || -> Option<f64> {
        let fl = r16(d, 6)?;
        let ll = r16(d, 8)?;
        let nl = r16(d, ll)?;
        let mut growable = vec![false; 65536];
        for li in 0..nl.min(4096) {
            for (ty, st) in subtables(d, ll, li) {
                if ty == 2 {
                    if let Some(c) = r16(d, st + 2) {
                        mark_coverage(d, st + c, &mut growable);
                    }
                }
            }
        }
        let mut feature_tables: Vec<usize> = Vec::new();
        let nf = r16(d, fl)?;
        for i in 0..nf.min(512) {
            if let Some(o) = r16(d, fl + 2 + 6 * i + 4) {
                feature_tables.push(fl + o);
            }
        }
        if r16(d, 2)? >= 1 {
            if let Some(fv) = r32(d, 10) {
                if fv != 0 {
                    let n = r32(d, fv + 4).unwrap_or(0);
                    for i in 0..n.min(64) {
                        if let Some(fts) = r32(d, fv + 8 + 8 * i + 4) {
                            if fts == 0 {
                                continue;
                            }
                            let fts = fv + fts;
                            let m = r16(d, fts + 4).unwrap_or(0);
                            for j in 0..m.min(64) {
                                if let Some(o) = r32(d, fts + 6 + 6 * j + 2) {
                                    feature_tables.push(fts + o);
                                }
                            }
                        }
                    }
                }
            }
        }
        let mut cache: std::collections::HashMap<usize, f64> = std::collections::HashMap::new();
        let mut total: f64 = 1.0;
        let mut maxlen = 1usize;
        let mut stack: Vec<usize> = Vec::new();
        for ft in feature_tables {
            let n = match r16(d, ft + 2) {
                Some(n) => n,
                None => continue,
            };
            for k in 0..n.min(1024) {
                if let Some(li) = r16(d, ft + 4 + 2 * k) {
                    let g = lookup_growth(d, ll, li, &growable, &mut maxlen, &mut cache, &mut stack);
                    total *= g;
                    if total > 1e12 {
                        return Some(total);
                    }
                }
            }
        }
        Some(total * maxlen as f64)
    };
    inner().unwrap_or(1.0)
}
