//! C03 — pure operations produce identical output for identical input on every run.
//!
//! `subset`, `whole_font`, `prince::subset`, `variations::instance`, WOFF/WOFF2 table decoding and
//! `preprocess_text` are run two or three times on the same input (the first two runs share one
//! table provider, the last one gets a newly parsed provider) and the results are compared byte for
//! byte. Every `HashMap` created by a run gets its own `RandomState` keys (std increments the
//! per-thread key for each new state), so in-process repetition already varies the hash seeds the
//! way a second process would.

use crate::rt::*;
use allsorts::binary::read::ReadScope;
use allsorts::font_data::{DynamicFontTableProvider, FontData};
use allsorts::subset::prince::{self, PrinceCmapTarget};
use allsorts::tables::variable_fonts::fvar::FvarTable;
use allsorts::tables::{Fixed, FontTableProvider};

pub struct Pure {
    fonts: Vec<SeedFont>,
    variable: Vec<usize>,
    containers: Vec<usize>,
}

fn provider(bytes: &[u8]) -> Option<DynamicFontTableProvider<'_>> {
    ReadScope::new(bytes).read::<FontData<'_>>().ok()?.table_provider(0).ok()
}

fn render(r: Result<Vec<u8>, String>) -> (bool, Vec<u8>) {
    match r {
        Ok(b) => (true, b),
        Err(e) => (false, e.into_bytes()),
    }
}

fn first_difference(a: &[u8], b: &[u8]) -> usize {
    a.iter().zip(b.iter()).position(|(x, y)| x != y).unwrap_or(a.len().min(b.len()))
}

impl Pure {
    pub fn new(cx: &mut Ctx) -> Pure {
        let max_len = if cx.quick() { 400_000 } else { 2_500_000 };
        let fonts: Vec<SeedFont> = load_seed_fonts(max_len, false).into_iter().filter(|f| provider(&f.data).is_some()).collect();
        let variable = (0..fonts.len()).filter(|&i| provider(&fonts[i].data).map_or(false, |p| p.has_table(allsorts::tag::FVAR))).collect();
        let containers = (0..fonts.len()).filter(|&i| fonts[i].name.ends_with(".woff") || fonts[i].name.ends_with(".woff2")).collect();
        Pure { fonts, variable, containers }
    }

    /// Run `f` on provider A twice and on a newly parsed provider once; compare.
    fn repeat(&self, cx: &mut Ctx, name: &str, font: &SeedFont, args: String, f: &dyn Fn(&DynamicFontTableProvider<'_>) -> Result<Vec<u8>, String>) {
        let pa = match provider(&font.data) {
            Some(p) => p,
            None => {
                cx.inconclusive("pure:provider");
                return;
            }
        };
        let mut outs: Vec<(bool, Vec<u8>)> = Vec::new();
        for rep in 0..3 {
            let r = if rep < 2 {
                std::panic::catch_unwind(std::panic::AssertUnwindSafe(|| f(&pa)))
            } else {
                match provider(&font.data) {
                    Some(pb) => std::panic::catch_unwind(std::panic::AssertUnwindSafe(|| f(&pb))),
                    None => {
                        cx.inconclusive("pure:provider");
                        return;
                    }
                }
            };
            let r = match r {
                Ok(r) => r,
                Err(_) => {
                    let p = take_last_panic().unwrap_or_default();
                    Err(format!("PANIC[{}] {}", p.site, normalise_digits(&p.message)))
                }
            };
            outs.push(render(r));
        }
        cx.class(&format!("pure:{}:{}", name, if outs[0].0 { "ok" } else { "err" }));
        cx.class(&format!("pure:{}:repeated", name));
        for rep in 1..outs.len() {
            if outs[rep] != outs[0] {
                let at = first_difference(&outs[0].1, &outs[rep].1);
                cx.violation(
                    "pure-differs",
                    name,
                    J::obj(vec![
                        ("operation", J::s(name)),
                        ("font", J::s(font.name.clone())),
                        ("args", J::s(args.clone())),
                        ("repetition", J::U(rep as u64)),
                        ("same_provider", J::Bool(rep < 2)),
                        ("first_ok", J::Bool(outs[0].0)),
                        ("other_ok", J::Bool(outs[rep].0)),
                        ("len_first", J::U(outs[0].1.len() as u64)),
                        ("len_other", J::U(outs[rep].1.len() as u64)),
                        ("first_difference_at", J::U(at as u64)),
                        ("first_window", J::hex(&outs[0].1[at.min(outs[0].1.len())..(at + 24).min(outs[0].1.len())])),
                        ("other_window", J::hex(&outs[rep].1[at.min(outs[rep].1.len())..(at + 24).min(outs[rep].1.len())])),
                    ]),
                );
                return;
            }
        }
        if outs[0].0 && !outs[0].1.is_empty() {
            cx.nontrivial(mix(mix(hash_bytes(&font.data), hash_str(name)), hash_str(&args)));
        }
    }

    pub fn case(&mut self, cx: &mut Ctx, rng: &mut Rng) {
        if self.fonts.is_empty() {
            cx.inconclusive("pure:no-fonts");
            return;
        }
        let which = rng.below(100);
        let font = if which >= 70 && which < 85 && !self.variable.is_empty() {
            &self.fonts[*rng.pick(&self.variable)]
        } else if which >= 85 && which < 95 && !self.containers.is_empty() {
            &self.fonts[*rng.pick(&self.containers)]
        } else {
            rng.pick(&self.fonts)
        };
        let num_glyphs = provider(&font.data)
            .and_then(|p| p.table_data(allsorts::tag::MAXP).ok().flatten().and_then(|d| crate::sfnt::be16(&d, 4)))
            .unwrap_or(1)
            .max(1);
        let mut ids: Vec<u16> = vec![0];
        for _ in 0..rng.below(30) {
            let g = rng.below(num_glyphs as usize) as u16;
            if !ids.contains(&g) {
                ids.push(g);
            }
        }
        if rng.chance(1, 4) {
            ids = (0..num_glyphs.min(200)).collect();
        }
        match which {
            0..=29 => {
                let ids2 = ids.clone();
                self.repeat(cx, "subset", font, format!("{:?}", ids), &move |p| allsorts::subset::subset(p, &ids2).map_err(|e| format!("{:?}", e)));
            }
            30..=44 => {
                let tags = provider(&font.data).and_then(|p| p.table_tags()).unwrap_or_default();
                let mut tags: Vec<u32> = tags.into_iter().filter(|_| !rng.chance(1, 4)).collect();
                tags.sort();
                let t2 = tags.clone();
                self.repeat(cx, "whole_font", font, format!("{:?}", tags), &move |p| allsorts::subset::whole_font(p, &t2).map_err(|e| format!("{:?}", e)));
            }
            45..=69 => {
                let k = rng.below(4);
                let cid = rng.bool();
                let ids2 = ids.clone();
                let table: [u8; 256] = {
                    let mut t = [0u8; 256];
                    for (i, x) in t.iter_mut().enumerate() {
                        *x = (i % ids.len().max(1)) as u8;
                    }
                    t
                };
                self.repeat(cx, "prince::subset", font, format!("{:?} target={} cid={}", ids, k, cid), &move |p| {
                    let tgt = match k {
                        0 => PrinceCmapTarget::Unrestricted,
                        1 => PrinceCmapTarget::MacRoman,
                        2 => PrinceCmapTarget::Omit,
                        _ => PrinceCmapTarget::MacRomanCmap(Box::new(table)),
                    };
                    prince::subset(p, &ids2, tgt, cid).map_err(|e| format!("{:?}", e))
                });
            }
            70..=84 => {
                // instancing (errors for non-variable fonts are compared too)
                let user: Vec<Fixed> = provider(&font.data)
                    .and_then(|p| p.table_data(allsorts::tag::FVAR).ok().flatten().map(|d| d.into_owned()))
                    .and_then(|d| {
                        let fvar = ReadScope::new(&d).read::<FvarTable<'_>>().ok()?;
                        Some(
                            fvar.axes()
                                .map(|a| {
                                    let (lo, hi) = (a.min_value.raw_value() as i64, a.max_value.raw_value() as i64);
                                    match rng.below(4) {
                                        0 => a.min_value,
                                        1 => a.max_value,
                                        2 => a.default_value,
                                        _ => Fixed::from_raw(rng.range(lo.min(hi), hi.max(lo)) as i32),
                                    }
                                })
                                .collect::<Vec<_>>(),
                        )
                    })
                    .unwrap_or_default();
                let u2 = user.clone();
                self.repeat(cx, "instance", font, format!("{:?}", user.iter().map(|f| f.raw_value()).collect::<Vec<_>>()), &move |p| {
                    allsorts::variations::instance(p, &u2).map(|(b, t)| {
                        let mut out = format!("{:?}|", t).into_bytes();
                        out.extend_from_slice(&b);
                        out
                    })
                    .map_err(|e| format!("{:?}", e))
                });
            }
            85..=94 => {
                // container decoding: every table of the provider; tags compared as a set
                self.repeat(cx, "table-decoding", font, String::new(), &|p| {
                    let mut tags = p.table_tags().ok_or_else(|| "no-tags".to_string())?;
                    tags.sort();
                    tags.dedup();
                    let mut out = Vec::new();
                    for t in tags {
                        out.extend_from_slice(&t.to_be_bytes());
                        match p.table_data(t) {
                            Ok(Some(d)) => {
                                out.extend_from_slice(&(d.len() as u32).to_be_bytes());
                                out.extend_from_slice(&d);
                            }
                            Ok(None) => out.extend_from_slice(b"none"),
                            Err(e) => out.extend_from_slice(format!("{:?}", e).as_bytes()),
                        }
                    }
                    Ok(out)
                });
                if font.name.ends_with(".woff2") {
                    cx.class("pure:table-decoding:woff2");
                } else if font.name.ends_with(".woff") {
                    cx.class("pure:table-decoding:woff");
                }
            }
            _ => {
                // preprocess_text
                let ranges: &[(u32, u32)] = &[(0x900, 0x97F), (0x980, 0x9FF), (0xB80, 0xBFF), (0xD00, 0xD7F), (0xD80, 0xDFF), (0x600, 0x6FF), (0x1780, 0x17FF), (0x1000, 0x109F), (0xE00, 0xE7F), (0x20, 0x7E)];
                let (lo, hi) = *rng.pick(ranges);
                let n = rng.below(24);
                let cs: Vec<char> = (0..n).filter_map(|_| char::from_u32(rng.range(lo as i64, hi as i64) as u32)).collect();
                let script = *rng.pick(&[allsorts::tag::DEVA, allsorts::tag::BENG, allsorts::tag::TAML, allsorts::tag::MLYM, allsorts::tag::SINH, allsorts::tag::ARAB, allsorts::tag::KHMR, allsorts::tag::MYM2, allsorts::tag::THAI, allsorts::tag::LATN]);
                let mut outs = Vec::new();
                for _ in 0..3 {
                    let mut v = cs.clone();
                    allsorts::scripts::preprocess_text(&mut v, script);
                    outs.push(v);
                }
                cx.class("pure:preprocess_text:repeated");
                if outs[1] != outs[0] || outs[2] != outs[0] {
                    cx.violation("pure-differs", "preprocess_text", J::obj(vec![("input", J::s(cs.iter().collect::<String>())), ("script", J::s(crate::sfnt::tag_str(script))), ("first", J::s(outs[0].iter().collect::<String>())), ("second", J::s(outs[1].iter().collect::<String>()))]));
                } else if outs[0] != cs {
                    cx.class("pure:preprocess_text:changed-the-text");
                    cx.nontrivial(mix(hash_str(&cs.iter().collect::<String>()), script as u64));
                }
            }
        }
    }
}
