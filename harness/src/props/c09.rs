//! C09 — every font the library writes is a valid, self-consistent sfnt.
//!
//! Invariant oracle at the API boundary: every successful `subset`, `prince::subset`, `whole_font`
//! and `variations::instance` output is run through the independent structural validator
//! (`sfnt::validate_c09`), then loaded by allsorts itself and queried for the advance and the
//! outline of every glyph.

use super::c07::common::*;
use super::c07::subset_case;
use super::Prop;
use crate::rt::*;
use crate::sfnt::validate_c09::{validate, Facts, Finding, Opts};
use crate::sfnt::{self, cff_c07, tag, tag_str};
use allsorts::binary::read::ReadScope;
use allsorts::cff::CFF;
use allsorts::font_data::FontData;
use allsorts::outline::OutlineBuilder;
use allsorts::tables::glyf::GlyfTable;
use allsorts::tables::loca::LocaTable;
use allsorts::tables::{FontTableProvider, HeadTable, MaxpTable};
use allsorts::Font;
use std::collections::BTreeSet;

pub struct C09 {
    w: Workload,
}

impl C09 {
    pub fn new(cx: &mut Ctx) -> C09 {
        C09 { w: Workload::new(cx) }
    }
}

/// Rule ids of tables that a subset copies verbatim from the source.
const COPIED_BY_SUBSET: &[&str] = &["name-unparsable", "os2-version-length", "head-magic", "head-length", "glyph-unparsable", "maxp-version-length", "maxp-version-vs-outlines", "hhea-length", "indexToLocFormat-invalid"];

fn source_findings(src: &Src) -> BTreeSet<String> {
    if let Some(s) = src.src_findings.borrow().as_ref() {
        return s.clone();
    }
    let (f, _) = validate(&src.plain, &Opts { cross_table: true, ..Default::default() });
    let set: BTreeSet<String> = f.into_iter().filter(|x| x.rule != "container").map(|x| x.sig).collect();
    *src.src_findings.borrow_mut() = Some(set.clone());
    set
}

/// Outline of every glyph through allsorts. Ok(list of glyph ids whose outline failed).
fn outlines_fail(data: &[u8]) -> Result<Vec<(u16, String)>, String> {
    let fd = ReadScope::new(data).read::<FontData<'_>>().map_err(|e| format!("FontData: {:?}", e))?;
    let p = fd.table_provider(0).map_err(|e| format!("table_provider: {:?}", e))?;
    let maxp = ReadScope::new(&p.read_table_data(allsorts::tag::MAXP).map_err(|e| format!("maxp: {:?}", e))?).read::<MaxpTable>().map_err(|e| format!("maxp: {:?}", e))?;
    let n = maxp.num_glyphs;
    let mut bad = Vec::new();
    if p.has_table(allsorts::tag::GLYF) {
        let head = ReadScope::new(&p.read_table_data(allsorts::tag::HEAD).map_err(|e| format!("head: {:?}", e))?).read::<HeadTable>().map_err(|e| format!("head: {:?}", e))?;
        let loca_data = p.read_table_data(allsorts::tag::LOCA).map_err(|e| format!("loca: {:?}", e))?;
        let loca = ReadScope::new(&loca_data).read_dep::<LocaTable<'_>>((usize::from(n), head.index_to_loc_format)).map_err(|e| format!("loca: {:?}", e))?;
        let glyf_data = p.read_table_data(allsorts::tag::GLYF).map_err(|e| format!("glyf: {:?}", e))?;
        let mut glyf = ReadScope::new(&glyf_data).read_dep::<GlyfTable<'_>>(&loca).map_err(|e| format!("glyf: {:?}", e))?;
        for g in 0..n {
            let mut sink = RecSink::default();
            if let Err(e) = glyf.visit(g, &mut sink) {
                bad.push((g, format!("{:?}", e)));
            }
        }
    } else if p.has_table(allsorts::tag::CFF) {
        let cff_data = p.read_table_data(allsorts::tag::CFF).map_err(|e| format!("CFF: {:?}", e))?;
        let mut cff = ReadScope::new(&cff_data).read::<CFF<'_>>().map_err(|e| format!("CFF: {:?}", e))?;
        for g in 0..n {
            let mut sink = RecSink::default();
            if let Err(e) = cff.visit(g, &mut sink) {
                bad.push((g, format!("{:?}", e)));
            }
        }
    } else if p.has_table(allsorts::tag::CFF2) {
        let data = p.read_table_data(allsorts::tag::CFF2).map_err(|e| format!("CFF2: {:?}", e))?;
        let cff2 = ReadScope::new(&data).read::<allsorts::cff::cff2::CFF2<'_>>().map_err(|e| format!("CFF2: {:?}", e))?;
        // a variable source needs a tuple; only static CFF2 tables are visited here
        if cff2.vstore.is_none() || !p.has_table(allsorts::tag::FVAR) {
            for g in 0..n {
                let mut sink = RecSink::default();
                let mut o = allsorts::cff::outline::CFF2Outlines { table: &cff2, tuple: None };
                if let Err(e) = o.visit(g, &mut sink) {
                    bad.push((g, format!("{:?}", e)));
                }
            }
        }
    }
    Ok(bad)
}

/// Font::new and an advance for every glyph. Ok(None) = fine, Ok(Some(..)) = first failure.
fn load_fail(data: &[u8]) -> Result<Option<String>, String> {
    let fd = ReadScope::new(data).read::<FontData<'_>>().map_err(|e| format!("FontData: {:?}", e))?;
    let p = fd.table_provider(0).map_err(|e| format!("table_provider: {:?}", e))?;
    let mut f = Font::new(p).map_err(|e| format!("Font::new: {:?}", e))?;
    for g in 0..f.num_glyphs() {
        if f.horizontal_advance(g).is_none() {
            return Ok(Some(format!("horizontal_advance({}) is None (numGlyphs {})", g, f.num_glyphs())));
        }
    }
    Ok(None)
}

impl C09 {
    fn judge(&mut self, cx: &mut Ctx, case: &Case, out: &[u8]) {
        let src = &case.src;
        let opname = match &case.op {
            Op::Subset => "subset",
            Op::Prince { .. } => "prince",
            Op::WholeFont { .. } => "whole_font",
            Op::Instance { .. } => "instance",
        };
        // the Prince API returns a bare CFF table for CFF / CFF2 sources
        if matches!(case.op, Op::Prince { .. }) && src.kind != Kind::TrueType {
            match cff_c07::parse(out) {
                Some(c) if c.charstrings.len() == case.ids.len() => {}
                Some(c) => {
                    cx.violation("tables", "prince-cff:charstring-count", case.witness(format!("{} charstrings for {} requested glyphs", c.charstrings.len(), case.ids.len())));
                    return;
                }
                None => {
                    cx.violation("tables", "prince-cff:unparsable", case.witness("the independent CFF reader rejects the bare CFF table".into()));
                    return;
                }
            }
            let n = case.ids.len();
            let res = cx.guard("prince-cff-load", out.len(), || -> Result<Option<String>, String> {
                let mut cff = ReadScope::new(out).read::<CFF<'_>>().map_err(|e| format!("{:?}", e))?;
                for g in 0..n {
                    let mut sink = RecSink::default();
                    if let Err(e) = cff.visit(g as u16, &mut sink) {
                        return Ok(Some(format!("glyph {}: {:?}", g, e)));
                    }
                }
                Ok(None)
            });
            match res {
                Some(Err(e)) => cx.violation("load", "prince-cff:rejected-by-allsorts", case.witness(e)),
                Some(Ok(Some(e))) => {
                    // only a defect of the writer when the source glyph is fine
                    let _ = e;
                    cx.class("prince-cff:some-outline-fails");
                }
                Some(Ok(None)) => {
                    cx.class("validated:prince-bare-cff");
                    cx.class(&format!("container:{}", case.container.name()));
                    cx.nontrivial(case.hash());
                }
                None => {}
            }
            return;
        }
        let omit = matches!(&case.op, Op::Prince { target: Target::Omit, .. });
        let opts = match &case.op {
            Op::Subset | Op::Prince { .. } => Opts { cross_table: true, require_core: true, require_cmap: !omit, require_name: false, require_os2: src.kind != Kind::TrueType, written_by_subset: true },
            Op::WholeFont { .. } => Opts { cross_table: true, ..Default::default() },
            Op::Instance { .. } => Opts { cross_table: true, require_core: true, require_cmap: true, require_name: false, require_os2: false, written_by_subset: false },
        };
        let (findings, facts): (Vec<Finding>, Facts) = validate(out, &opts);
        let inherited = source_findings(src);
        let mut reported = false;
        for f in &findings {
            let inherit = f.rule != "container"
                && inherited.contains(&f.sig)
                && match &case.op {
                    Op::Subset | Op::Prince { .. } => COPIED_BY_SUBSET.contains(&f.sig.as_str()),
                    _ => true,
                };
            if inherit {
                cx.class(&format!("inherited-from-source:{}", f.sig));
                continue;
            }
            cx.violation(f.rule, &format!("{}:{}", opname, f.sig), case.witness(format!("{} (output of {} bytes, {} tables)", f.detail, out.len(), facts.num_tables)));
            reported = true;
        }
        if reported {
            return;
        }
        // ---- allsorts itself loads the result -------------------------------------------------------
        let full_font = match &case.op {
            Op::WholeFont { tags } => {
                // only when every table of the source was carried over
                src.font.tables.iter().all(|(t, _)| tags.contains(t))
            }
            _ => true,
        };
        if full_font && !omit {
            let res = cx.guard("load-output", out.len(), || load_fail(out));
            match res {
                None => return,
                Some(Err(e)) => {
                    // differential: a source that allsorts cannot load either is not the writer's fault
                    let src_ok = cx.guard("load-source", src.plain.len(), || load_fail(&src.plain)).map_or(false, |r| r.is_ok());
                    if src_ok || !matches!(case.op, Op::WholeFont { .. } | Op::Instance { .. }) {
                        cx.violation("load", &format!("{}:output-not-loadable", opname), case.witness(e));
                        return;
                    }
                    cx.class("source:not-loadable-by-allsorts");
                }
                Some(Ok(Some(e))) => {
                    cx.violation("load", &format!("{}:no-advance-for-glyph", opname), case.witness(e));
                    return;
                }
                Some(Ok(None)) => cx.class("loaded:font-new+advances"),
            }
        }
        if full_font {
            let res = cx.guard("outlines-output", out.len(), || outlines_fail(out));
            match res {
                None => return,
                Some(Err(e)) => {
                    let src_ok = cx.guard("outlines-source", src.plain.len(), || outlines_fail(&src.plain)).map_or(false, |r| r.is_ok());
                    if src_ok {
                        cx.violation("load", &format!("{}:glyph-tables-not-loadable", opname), case.witness(e));
                        return;
                    }
                    cx.class("source:glyph-tables-not-loadable");
                }
                Some(Ok(bad)) => {
                    if !bad.is_empty() {
                        // which source glyphs fail on their own?
                        let src_bad: BTreeSet<u16> = cx.guard("outlines-source", src.plain.len(), || outlines_fail(&src.plain)).and_then(|r| r.ok()).map(|v| v.into_iter().map(|x| x.0).collect()).unwrap_or_default();
                        let subset_like = matches!(case.op, Op::Subset | Op::Prince { .. });
                        let mut genuine = None;
                        for (g, e) in &bad {
                            let old = if subset_like { case.ids.get(*g as usize).copied() } else { Some(*g) };
                            match old {
                                Some(o) if !src_bad.contains(&o) && (src_bad.is_empty() || src.kind != Kind::TrueType) => {
                                    genuine = Some((*g, o, e.clone()));
                                    break;
                                }
                                _ => {}
                            }
                        }
                        if let Some((g, o, e)) = genuine {
                            cx.violation("load", &format!("{}:no-outline-for-glyph", opname), case.witness(format!("output glyph {} (source glyph {}) has no outline: {}; the source glyph is fine", g, o, e)));
                            return;
                        }
                        cx.class("source:some-glyph-outline-fails");
                    } else {
                        cx.class("loaded:all-outlines");
                    }
                }
            }
        }
        // ---- classes -----------------------------------------------------------------------------------
        cx.class(&format!("validated:{}", opname));
        cx.class(&format!("container:{}", case.container.name()));
        for f in &facts.cmap_formats {
            cx.class(&format!("out-cmap-format:{}", f));
        }
        if facts.has_glyf {
            cx.class(if facts.loca_long { "out-loca:long" } else { "out-loca:short" });
        }
        if facts.has_cff {
            cx.class("out:cff");
        }
        if facts.composites > 0 {
            cx.class("out:has-composites");
        }
        if facts.odd_length_tables > 0 {
            cx.class("out:table-length-not-multiple-of-4");
        }
        if !full_font {
            cx.class("whole_font:tag-subset");
        }
        cx.nontrivial(mix(case.hash(), hash_bytes(&out[..out.len().min(4096)])));
        if cx.want_sample() {
            cx.sample(J::obj(vec![("font", J::s(src.name.clone())), ("op", J::s(case.op.name())), ("container", J::s(case.container.name())), ("ids", J::U(case.ids.len() as u64)), ("output_bytes", J::U(out.len() as u64)), ("tables", J::U(facts.num_tables as u64))]));
        }
    }
}

impl C09 {
    /// Collect every table the WOFF2 provider returns, assemble them with the harness's own sfnt
    /// writer and run the cross-table validator (container-level rules do not apply to this copy).
    fn woff2_tables(&mut self, cx: &mut Ctx, case: &Case) {
        let bytes = &case.bytes;
        let got = cx.guard("woff2-provider-tables", bytes.len(), || -> Result<Vec<(u32, Vec<u8>)>, String> {
            let fd = ReadScope::new(bytes).read::<FontData<'_>>().map_err(|e| format!("FontData: {:?}", e))?;
            let p = fd.table_provider(0).map_err(|e| format!("table_provider: {:?}", e))?;
            let mut v = Vec::new();
            for t in p.table_tags().unwrap_or_default() {
                match p.table_data(t) {
                    Ok(Some(d)) => v.push((t, d.to_vec())),
                    Ok(None) => return Err(format!("listed table {} is absent", tag_str(t))),
                    Err(e) => return Err(format!("table {}: {:?}", tag_str(t), e)),
                }
            }
            Ok(v)
        });
        let tables = match got {
            Some(Ok(t)) => t,
            Some(Err(e)) => {
                // the harness's own encoder made this file from a font the independent reader accepts
                cx.violation("woff2-tables", "woff2-provider:tables-not-readable", case.witness(e));
                return;
            }
            None => return,
        };
        let mut f = sfnt::Font::new(case.src.font.version);
        for (t, d) in tables {
            f.set(t, d);
        }
        let rebuilt = f.build();
        let (findings, facts) = validate(&rebuilt, &Opts { cross_table: true, ..Default::default() });
        let inherited = source_findings(&case.src);
        let mut clean = true;
        for fi in &findings {
            if fi.rule == "container" {
                continue;
            }
            if inherited.contains(&fi.sig) {
                cx.class(&format!("inherited-from-source:{}", fi.sig));
                continue;
            }
            clean = false;
            cx.violation(fi.rule, &format!("woff2-provider:{}", fi.sig), case.witness(format!("{} (tables handed out by the WOFF2 provider)", fi.detail)));
        }
        if clean {
            cx.class("validated:woff2-provider-tables");
            if facts.has_glyf && matches!(case.container, Container::Woff2 { glyf_transform: true, .. }) {
                let src_long = crate::sfnt::tables::Head::read(case.src.font.gets("head").unwrap_or(&[])).map_or(false, |h| h.index_to_loc_format != 0);
                cx.class(match (src_long, facts.loca_long) {
                    (false, true) => "woff2-reconstruction:short-loca-upgraded-to-long",
                    (false, false) => "woff2-reconstruction:short-loca-kept",
                    (true, _) => "woff2-reconstruction:long-loca",
                });
            }
        }
    }
}

impl Prop for C09 {
    fn case(&mut self, cx: &mut Ctx, rng: &mut Rng) {
        let roll = rng.below(20);
        let case = if roll < 11 {
            match subset_case(&mut self.w, cx, rng, [8, 5, 4, 3, 1, 2], None) {
                Some((c, _)) => c,
                None => return,
            }
        } else if roll < 17 {
            let (src, _) = match self.w.pick_src(cx, rng, [6, 5, 3, 2, 3, 3], None) {
                Some(s) => s,
                None => return,
            };
            let mut tags: Vec<u32> = src.font.tables.iter().map(|t| t.0).collect();
            match rng.below(4) {
                0 => {
                    // random subset (head and maxp are always added by whole_font)
                    tags.retain(|_| rng.chance(2, 3));
                }
                1 => {
                    let extra = *rng.pick(&tags);
                    tags.push(extra);
                }
                _ => {}
            }
            rng.shuffle(&mut tags);
            let choice = rng.below(4).min(2);
            let (container, bytes) = wrap(&src, rng, choice);
            Case { src, ids: vec![0], id_mode: "n/a".into(), op: Op::WholeFont { tags }, container, bytes }
        } else {
            let generated = rng.chance(1, 2);
            let src = if generated {
                // generated variable TrueType fonts (C12 generator): composites with byte- and word-sized
                // offsets that vary, empty glyphs, numberOfHMetrics < numGlyphs, avar / HVAR / MVAR
                let vf = super::c12::c12_gen::gen_vfont(rng, cx.quick());
                let built = super::c12::c12_gen::build_font(&vf, rng);
                match Src::from_bytes("generated-variable", &built.bytes, true) {
                    Some(s) => {
                        cx.class("source:generated-variable-font");
                        std::rc::Rc::new(s)
                    }
                    None => {
                        cx.inconclusive("generator:variable-font-not-readable");
                        return;
                    }
                }
            } else {
                match self.w.pick_src(cx, rng, [0, 0, 0, 0, 1, 0], None) {
                    Some((s, _)) => s,
                    None => return,
                }
            };
            if src.axes.is_empty() {
                return;
            }
            let mode = rng.below(4);
            let coords: Vec<i32> = src
                .axes
                .iter()
                .map(|a| match if mode == 3 { rng.below(4) } else { mode } {
                    0 => a.def,
                    1 => a.min,
                    2 => a.max,
                    _ => rng.range(a.min as i64, a.max as i64) as i32,
                })
                .collect();
            let choice = rng.below(4).min(2);
            let (container, bytes) = wrap(&src, rng, choice);
            Case { src, ids: vec![0], id_mode: "n/a".into(), op: Op::Instance { coords }, container, bytes }
        };
        // "tables reconstructed from WOFF2 ... are mutually consistent": judged directly on what the
        // WOFF2 table provider hands out (not only through whole_font, which may fail on them)
        if matches!(case.container, Container::Woff2 { .. }) {
            self.woff2_tables(cx, &case);
        }
        let out = match run_op(cx, &case) {
            None => return,
            Some(Err(e)) => {
                cx.class(&format!("op-error:{}:{}", case.op.name(), e.chars().take(40).collect::<String>()));
                return;
            }
            Some(Ok(o)) => o,
        };
        self.judge(cx, &case, &out);
        let _ = (tag("head"), tag_str(0), sfnt::be16(&out, 0));
    }
}
