//! C09 — (stub, under construction)

use super::Prop;
use crate::rt::*;

pub struct C09 {}

impl C09 {
    pub fn new(_cx: &mut Ctx) -> C09 {
        C09 {}
    }
}

impl Prop for C09 {
    fn case(&mut self, cx: &mut Ctx, _rng: &mut Rng) {
        cx.inconclusive("not-implemented");
    }
}
