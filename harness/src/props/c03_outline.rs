//! C03 — outline decoding history: `GlyfTable` memoises parsed glyphs (`Present` -> `Parsed`), so a
//! visit of glyph g after visits of other glyphs (its components, glyphs that include it, itself)
//! must deliver the same drawing commands as the first visit on a freshly read table.

use super::super::c16::RecSink;
use crate::rt::*;
use allsorts::binary::read::ReadScope;
use allsorts::font_data::FontData;
use allsorts::outline::OutlineBuilder;
use allsorts::tables::glyf::GlyfTable;
use allsorts::tables::loca::LocaTable;
use allsorts::tables::{FontTableProvider, HeadTable, MaxpTable};

pub struct Outline {
    fonts: Vec<SeedFont>,
}

fn tables(data: &[u8]) -> Option<(Vec<u8>, Vec<u8>, usize, allsorts::tables::IndexToLocFormat)> {
    let fd = ReadScope::new(data).read::<FontData<'_>>().ok()?;
    let p = fd.table_provider(0).ok()?;
    let head = ReadScope::new(&p.read_table_data(allsorts::tag::HEAD).ok()?).read::<HeadTable>().ok()?;
    let maxp = ReadScope::new(&p.read_table_data(allsorts::tag::MAXP).ok()?).read::<MaxpTable>().ok()?;
    let loca = p.table_data(allsorts::tag::LOCA).ok()??.into_owned();
    let glyf = p.table_data(allsorts::tag::GLYF).ok()??.into_owned();
    Some((loca, glyf, maxp.num_glyphs as usize, head.index_to_loc_format))
}

impl Outline {
    pub fn new(_cx: &mut Ctx) -> Outline {
        let fonts = load_seed_fonts(700_000, false).into_iter().filter(|f| tables(&f.data).is_some()).collect();
        Outline { fonts }
    }

    pub fn case(&mut self, cx: &mut Ctx, rng: &mut Rng) {
        if self.fonts.is_empty() {
            cx.inconclusive("outline:no-fonts");
            return;
        }
        let font = rng.pick(&self.fonts);
        let (loca_b, glyf_b, n, fmt) = match tables(&font.data) {
            Some(t) => t,
            None => {
                cx.inconclusive("outline:tables");
                return;
            }
        };
        let loca = match ReadScope::new(&loca_b).read_dep::<LocaTable<'_>>((n, fmt)) {
            Ok(l) => l,
            Err(_) => {
                cx.inconclusive("outline:loca");
                return;
            }
        };
        let mut long = match ReadScope::new(&glyf_b).read_dep::<GlyfTable<'_>>(&loca) {
            Ok(t) => t,
            Err(_) => {
                cx.inconclusive("outline:glyf");
                return;
            }
        };
        let pool: Vec<u16> = (0..3 + rng.below(4)).map(|_| rng.below(n.max(1)) as u16).collect();
        let steps = 2 + rng.below(19);
        let mut seen: Vec<u16> = Vec::new();
        let mut nontrivial = false;
        for _ in 0..steps {
            let gid = *rng.pick(&pool);
            let render = |t: &mut GlyfTable<'_>| -> String {
                let mut sink = RecSink::default();
                let r = std::panic::catch_unwind(std::panic::AssertUnwindSafe(|| t.visit(gid, &mut sink)));
                match r {
                    Ok(r) => format!("{:?} {:?}", r, sink.cmds),
                    Err(_) => {
                        let p = take_last_panic().unwrap_or_default();
                        format!("PANIC[{}] {}", p.site, normalise_digits(&p.message))
                    }
                }
            };
            let fresh = match ReadScope::new(&glyf_b).read_dep::<GlyfTable<'_>>(&loca) {
                Ok(mut t) => render(&mut t),
                Err(_) => return,
            };
            let got = render(&mut long);
            cx.class("compared:outline-visit");
            if seen.contains(&gid) {
                cx.class("outline:revisit-of-parsed-glyph");
            }
            if !seen.is_empty() && fresh.len() > 12 {
                nontrivial = true;
            }
            if got != fresh {
                cx.violation(
                    "history-differs",
                    "glyf-visit<-glyf-visit",
                    J::obj(vec![
                        ("font", J::s(font.name.clone())),
                        ("visited_before", J::s(format!("{:?}", seen))),
                        ("probe_glyph", J::U(gid as u64)),
                        ("after_history", J::s(got.chars().take(800).collect::<String>())),
                        ("on_fresh_table", J::s(fresh.chars().take(800).collect::<String>())),
                    ]),
                );
                return;
            }
            seen.push(gid);
        }
        if nontrivial {
            cx.nontrivial(mix(hash_bytes(&glyf_b), hash_str(&format!("{:?}", seen))));
        }
    }
}
