//! C12 generator side: abstract description (AST) of a variable TrueType font and INDEPENDENT
//! writers for fvar / avar / gvar / HVAR / MVAR (ItemVariationStore, DeltaSetIndexMap) plus the
//! small static tables. Encoding choices (packed run kinds and lengths, shared/embedded peaks,
//! shared/private point numbers, offset sizes) are taken at random at write time and reported back
//! as event classes per tuple. Nothing here uses allsorts.

use crate::rt::Rng;
use crate::sfnt::glyf::{self as ig, Args, BBox, Component, Composite, EncChoice, Glyph, Pt, Scale, Simple};
use crate::sfnt::tables as it;
use crate::sfnt::{Font, W};
use std::collections::BTreeMap;

/// Per-axis (start, peak, end) in raw F2Dot14: the *effective* region of a tuple / IVS region.
pub type Reg = Vec<(i16, i16, i16)>;
/// avar segment map (from, to) raw F2Dot14
pub type SegMap = Vec<(i16, i16)>;

#[derive(Clone, Debug, PartialEq)]
pub struct Axis {
    pub tag: [u8; 4],
    pub min: i32,
    pub def: i32,
    pub max: i32,
}

#[derive(Clone, Debug, PartialEq)]
pub enum PointSel {
    /// the "all points" marker (count byte 0): every point incl. the four phantom points
    All,
    /// explicit, strictly increasing point numbers (may include phantom points n..n+3)
    List(Vec<u16>),
}

#[derive(Clone, Debug, PartialEq)]
pub struct TupleVar {
    pub peak: Vec<i16>,
    /// intermediate region (start, end) tuples when the INTERMEDIATE_REGION flag is set
    pub inter: Option<(Vec<i16>, Vec<i16>)>,
    /// Some(i): peak comes from shared tuple i of the gvar header; None: embedded peak
    pub shared_peak: Option<u16>,
    /// None: use the glyph's shared point numbers; Some: private point numbers
    pub points: Option<PointSel>,
    /// one (dx, dy) per selected point, in point-number order
    pub deltas: Vec<(i16, i16)>,
}

impl TupleVar {
    /// Effective region per the gvar text: explicit start/end, or implied from the peak.
    pub fn region(&self) -> Reg {
        match &self.inter {
            Some((s, e)) => self.peak.iter().enumerate().map(|(i, &p)| (s[i], p, e[i])).collect(),
            None => self.peak.iter().map(|&p| (p.min(0), p, p.max(0))).collect(),
        }
    }
}

#[derive(Clone, Debug, Default, PartialEq)]
pub struct GlyphVar {
    pub shared_points: Option<PointSel>,
    pub tuples: Vec<TupleVar>,
}

#[derive(Clone, Debug, Default, PartialEq)]
pub struct IvData {
    pub region_idx: Vec<u16>,
    /// rows[item][column]
    pub rows: Vec<Vec<i32>>,
    /// number of leading "word" columns
    pub word_count: u16,
    /// LONG_WORDS: word columns are int32 and the others int16
    pub long: bool,
}

#[derive(Clone, Debug, Default, PartialEq)]
pub struct Ivs {
    pub regions: Vec<Reg>,
    pub data: Vec<IvData>,
}

#[derive(Clone, Debug, PartialEq)]
pub struct DsMap {
    pub entries: Vec<(u16, u16)>,
    pub inner_bits: u8,
    pub entry_size: u8,
    pub format: u8,
}

#[derive(Clone, Debug, Default, PartialEq)]
pub struct Hvar {
    pub ivs: Ivs,
    pub adv_map: Option<DsMap>,
    pub lsb_map: Option<DsMap>,
    pub rsb_map: Option<DsMap>,
}

#[derive(Clone, Debug, Default, PartialEq)]
pub struct Mvar {
    pub ivs: Option<Ivs>,
    /// (tag, outer, inner), sorted by tag
    pub records: Vec<([u8; 4], u16, u16)>,
    pub rec_size: u16,
}

/// MVAR value tags and the field each one controls: (tag, table, byte offset, signed, min OS/2 version)
pub const MVAR_TARGETS: &[(&str, &str, usize, bool, u16)] = &[
    ("hasc", "OS/2", 68, true, 0),
    ("hdsc", "OS/2", 70, true, 0),
    ("hlgp", "OS/2", 72, true, 0),
    ("hcla", "OS/2", 74, false, 0),
    ("hcld", "OS/2", 76, false, 0),
    ("xhgt", "OS/2", 86, true, 2),
    ("cpht", "OS/2", 88, true, 2),
    ("sbxs", "OS/2", 10, true, 0),
    ("sbys", "OS/2", 12, true, 0),
    ("sbxo", "OS/2", 14, true, 0),
    ("sbyo", "OS/2", 16, true, 0),
    ("spxs", "OS/2", 18, true, 0),
    ("spys", "OS/2", 20, true, 0),
    ("spxo", "OS/2", 22, true, 0),
    ("spyo", "OS/2", 24, true, 0),
    ("strs", "OS/2", 26, true, 0),
    ("stro", "OS/2", 28, true, 0),
    ("unds", "post", 10, true, 0),
    ("undo", "post", 8, true, 0),
    ("hcrs", "hhea", 18, true, 0),
    ("hcrn", "hhea", 20, true, 0),
    ("hcof", "hhea", 22, true, 0),
    ("vasc", "vhea", 4, true, 0),
    ("vdsc", "vhea", 6, true, 0),
    ("vlgp", "vhea", 8, true, 0),
    ("vcrs", "vhea", 18, true, 0),
    ("vcrn", "vhea", 20, true, 0),
    ("vcof", "vhea", 22, true, 0),
];

/// The abstract variable font. Everything the reference model needs is here; the writer-only
/// knobs (shared tuple list, offset sizes, OS/2 version …) are here too so that a case replays.
#[derive(Clone, Debug, Default)]
pub struct VFont {
    pub axes: Vec<Axis>,
    pub avar: Option<Vec<SegMap>>,
    pub glyphs: Vec<Glyph>,
    /// (advance, lsb) per glyph
    pub metrics: Vec<(u16, i16)>,
    pub gvar: Vec<Option<GlyphVar>>,
    pub hvar: Option<Hvar>,
    pub mvar: Option<Mvar>,
    /// default value of every MVAR-controllable field that exists in this font, by value tag
    pub base: BTreeMap<String, i32>,
    // ---- writer-only ----
    pub shared_tuples: Vec<Vec<i16>>,
    pub gvar_long_offsets: bool,
    pub num_h_metrics: usize,
    pub os2_version: u16,
    pub with_vhea: bool,
    pub with_stat: bool,
    /// true when some region violates start <= peak <= end or straddles zero (spec: axis ignored)
    pub has_invalid_region: bool,
}

pub fn glyph_num_points(g: &Glyph) -> usize {
    match g {
        Glyph::Empty => 0,
        Glyph::Simple(s) => s.num_points(),
        Glyph::Composite(c) => c.components.len(),
    }
}

// =================================================================================================
// writers
// =================================================================================================

/// Pick a run length in 1..=max, biased towards the boundary lengths in `special`.
fn pick_run(rng: &mut Rng, max: usize, special: &[usize]) -> usize {
    if max <= 1 {
        return 1;
    }
    if rng.chance(1, 2) {
        let c: Vec<usize> = special.iter().copied().filter(|&s| s <= max).collect();
        if !c.is_empty() {
            return *rng.pick(&c);
        }
    }
    if rng.chance(1, 3) {
        max
    } else {
        1 + rng.below(max)
    }
}

pub fn write_packed_points(w: &mut W, sel: &PointSel, rng: &mut Rng, cls: &mut Vec<&'static str>) {
    match sel {
        PointSel::All => {
            w.u8(0);
            cls.push("points:all-marker");
        }
        PointSel::List(v) => {
            let n = v.len();
            if n >= 128 || rng.chance(1, 10) {
                w.u8(0x80 | (n >> 8) as u8).u8(n as u8);
                cls.push(if n >= 128 { "point-count:two-byte>=128" } else { "point-count:two-byte-small" });
            } else {
                w.u8(n as u8);
                cls.push("point-count:one-byte");
            }
            let mut i = 0;
            let mut prev = 0u16;
            while i < n {
                let max = (n - i).min(128);
                let run = pick_run(rng, max, &[1, 63, 64, 127, 128]);
                let mut diffs = Vec::with_capacity(run);
                for k in i..i + run {
                    diffs.push(v[k] - prev);
                    prev = v[k];
                }
                let need_word = diffs.iter().any(|&d| d > 255);
                let word = need_word || rng.chance(1, 6);
                w.u8((run - 1) as u8 | if word { 0x80 } else { 0 });
                for d in diffs {
                    if word {
                        w.u16(d);
                    } else {
                        w.u8(d as u8);
                    }
                }
                cls.push(if word { "point-run:word" } else { "point-run:byte" });
                match run {
                    63 | 64 => cls.push("point-run-len:63|64"),
                    127 | 128 => cls.push("point-run-len:127|128"),
                    _ => {}
                }
                i += run;
            }
        }
    }
}

/// Packed deltas for `vals`. `xy_boundary`: index where the Y deltas start; `allow_span`: runs may
/// cross that boundary.
pub fn write_packed_deltas(w: &mut W, vals: &[i16], xy_boundary: usize, allow_span: bool, rng: &mut Rng, cls: &mut Vec<&'static str>) {
    let kind_of = |v: i16| -> u8 {
        if v == 0 {
            0
        } else if (-128..=127).contains(&v) {
            1
        } else {
            2
        }
    };
    let mut i = 0;
    while i < vals.len() {
        let mut max = (vals.len() - i).min(64);
        if !allow_span && i < xy_boundary {
            max = max.min(xy_boundary - i);
        }
        let run = if rng.chance(1, 2) {
            // greedy: as long as the narrowest kind stays the same
            let k0 = kind_of(vals[i]);
            let mut r = 1;
            while r < max && kind_of(vals[i + r]) == k0 {
                r += 1;
            }
            r
        } else {
            pick_run(rng, max, &[1, 2, 63, 64])
        };
        let s = &vals[i..i + run];
        let widest = s.iter().map(|&v| kind_of(v)).max().unwrap_or(0);
        let mut kind = widest;
        // sometimes a wider encoding than necessary
        if kind < 2 && rng.chance(1, 6) {
            kind += 1;
        }
        match kind {
            0 => {
                w.u8(0x80 | (run - 1) as u8);
                cls.push("delta-run:zero");
            }
            1 => {
                w.u8((run - 1) as u8);
                for &v in s {
                    w.i8(v as i8);
                }
                cls.push("delta-run:byte");
            }
            _ => {
                w.u8(0x40 | (run - 1) as u8);
                for &v in s {
                    w.i16(v);
                }
                cls.push("delta-run:word");
            }
        }
        match run {
            63 | 64 => cls.push("delta-run-len:63|64"),
            _ => {}
        }
        if i < xy_boundary && i + run > xy_boundary {
            cls.push("delta-run:spans-xy");
        }
        i += run;
    }
}

fn write_tuple(w: &mut W, t: &[i16]) {
    for &v in t {
        w.i16(v);
    }
}

/// GlyphVariationData for one glyph. Returns (bytes, per-tuple encoding classes).
pub fn write_glyph_var(gv: &GlyphVar, rng: &mut Rng) -> (Vec<u8>, Vec<Vec<&'static str>>) {
    let mut classes: Vec<Vec<&'static str>> = vec![Vec::new(); gv.tuples.len()];
    let mut headers = W::new();
    let mut data = W::new();
    let mut shared_cls = Vec::new();
    if let Some(sp) = &gv.shared_points {
        write_packed_points(&mut data, sp, rng, &mut shared_cls);
    }
    for (ti, t) in gv.tuples.iter().enumerate() {
        let cls = &mut classes[ti];
        let mut d = W::new();
        match &t.points {
            Some(p) => {
                write_packed_points(&mut d, p, rng, cls);
                cls.push("points:private");
            }
            None => {
                cls.extend(shared_cls.iter().copied());
                cls.push("points:shared");
            }
        }
        let mut vals: Vec<i16> = t.deltas.iter().map(|d| d.0).collect();
        vals.extend(t.deltas.iter().map(|d| d.1));
        let allow_span = rng.chance(2, 3);
        write_packed_deltas(&mut d, &vals, t.deltas.len(), allow_span, rng, cls);
        let mut flags = 0u16;
        if t.points.is_some() {
            flags |= 0x2000;
        }
        match t.shared_peak {
            Some(i) => {
                flags |= i & 0x0FFF;
                cls.push("peak:shared");
            }
            None => {
                flags |= 0x8000;
                // the low 12 bits are ignored with an embedded peak: put junk there sometimes
                if rng.chance(1, 4) {
                    flags |= rng.below(0x1000) as u16;
                }
                cls.push("peak:embedded");
            }
        }
        if t.inter.is_some() {
            flags |= 0x4000;
            cls.push("region:intermediate");
        } else {
            cls.push("region:implied");
        }
        headers.u16(d.len() as u16).u16(flags);
        if t.shared_peak.is_none() {
            write_tuple(&mut headers, &t.peak);
        }
        if let Some((s, e)) = &t.inter {
            write_tuple(&mut headers, s);
            write_tuple(&mut headers, e);
        }
        data.bytes(&d.b);
    }
    let mut w = W::new();
    let count = gv.tuples.len() as u16 | if gv.shared_points.is_some() { 0x8000 } else { 0 };
    let gap = if rng.chance(1, 6) { rng.below(4) } else { 0 };
    let data_off = 4 + headers.len() + gap;
    w.u16(count).u16(data_off as u16).bytes(&headers.b);
    for _ in 0..gap {
        w.u8(0xAA);
    }
    w.bytes(&data.b);
    (w.b, classes)
}

pub struct GvarOut {
    pub bytes: Vec<u8>,
    /// [glyph][tuple] -> encoding classes
    pub classes: Vec<Vec<Vec<&'static str>>>,
}

pub fn write_gvar(vf: &VFont, rng: &mut Rng) -> GvarOut {
    let n = vf.glyphs.len();
    let mut array = W::new();
    let mut offs = vec![0u32];
    let mut classes = Vec::new();
    for g in 0..n {
        match &vf.gvar[g] {
            Some(gv) => {
                let (b, c) = write_glyph_var(gv, rng);
                array.bytes(&b);
                classes.push(c);
            }
            None => classes.push(Vec::new()),
        }
        // short offsets store offset/2: keep every record even-sized (harmless for long offsets)
        if array.len() % 2 == 1 {
            array.u8(0);
        }
        offs.push(array.len() as u32);
    }
    let long = vf.gvar_long_offsets || array.len() > 0x1FFFE;
    let axis_count = vf.axes.len();
    let mut w = W::new();
    let header_len = 20 + (n + 1) * if long { 4 } else { 2 };
    let shared_len = vf.shared_tuples.len() * axis_count * 2;
    // shared tuples either before or after the glyph variation data array
    let shared_first = rng.bool();
    let (shared_off, array_off) = if shared_first { (header_len, header_len + shared_len) } else { (header_len + array.len(), header_len) };
    w.u16(1).u16(0).u16(axis_count as u16).u16(vf.shared_tuples.len() as u16).u32(shared_off as u32);
    w.u16(n as u16).u16(if long { 1 } else { 0 }).u32(array_off as u32);
    for o in &offs {
        if long {
            w.u32(*o);
        } else {
            w.u16((*o / 2) as u16);
        }
    }
    let mut shared = W::new();
    for t in &vf.shared_tuples {
        write_tuple(&mut shared, t);
    }
    if shared_first {
        w.bytes(&shared.b).bytes(&array.b);
    } else {
        w.bytes(&array.b).bytes(&shared.b);
    }
    GvarOut { bytes: w.b, classes }
}

pub fn write_fvar(axes: &[Axis]) -> Vec<u8> {
    let mut w = W::new();
    w.u16(1).u16(0).u16(16).u16(2).u16(axes.len() as u16).u16(20).u16(0).u16(4 * axes.len() as u16 + 4);
    for (i, a) in axes.iter().enumerate() {
        w.bytes(&a.tag);
        w.i32(a.min).i32(a.def).i32(a.max).u16(0).u16(256 + i as u16);
    }
    w.b
}

pub fn write_avar(maps: &[SegMap]) -> Vec<u8> {
    let mut w = W::new();
    w.u16(1).u16(0).u16(0).u16(maps.len() as u16);
    for m in maps {
        w.u16(m.len() as u16);
        for &(f, t) in m {
            w.i16(f).i16(t);
        }
    }
    w.b
}

pub fn write_ivs(ivs: &Ivs, axis_count: usize) -> Vec<u8> {
    let mut w = W::new();
    let n = ivs.data.len();
    w.u16(1).u32(0).u16(n as u16);
    let offs_at = w.len();
    for _ in 0..n {
        w.u32(0);
    }
    // region list
    let rl = w.len();
    w.set_u32(2, rl as u32);
    w.u16(axis_count as u16).u16(ivs.regions.len() as u16);
    for r in &ivs.regions {
        for &(s, p, e) in r {
            w.i16(s).i16(p).i16(e);
        }
    }
    for (i, d) in ivs.data.iter().enumerate() {
        let at = w.len();
        w.set_u32(offs_at + 4 * i, at as u32);
        w.u16(d.rows.len() as u16).u16(d.word_count | if d.long { 0x8000 } else { 0 }).u16(d.region_idx.len() as u16);
        for &r in &d.region_idx {
            w.u16(r);
        }
        for row in &d.rows {
            for (c, &v) in row.iter().enumerate() {
                let word = c < d.word_count as usize;
                match (d.long, word) {
                    (false, true) => {
                        w.i16(v as i16);
                    }
                    (false, false) => {
                        w.i8(v as i8);
                    }
                    (true, true) => {
                        w.i32(v);
                    }
                    (true, false) => {
                        w.i16(v as i16);
                    }
                }
            }
        }
    }
    w.b
}

pub fn write_dsmap(m: &DsMap) -> Vec<u8> {
    let mut w = W::new();
    let entry_format = ((m.entry_size - 1) << 4) | (m.inner_bits - 1);
    w.u8(m.format).u8(entry_format);
    if m.format == 0 {
        w.u16(m.entries.len() as u16);
    } else {
        w.u32(m.entries.len() as u32);
    }
    for &(o, i) in &m.entries {
        let v: u32 = ((o as u32) << m.inner_bits) | i as u32;
        let b = v.to_be_bytes();
        w.bytes(&b[4 - m.entry_size as usize..]);
    }
    w.b
}

pub fn write_hvar(h: &Hvar, axis_count: usize) -> Vec<u8> {
    let mut w = W::new();
    w.u16(1).u16(0).u32(0).u32(0).u32(0).u32(0);
    let at = w.len();
    w.set_u32(4, at as u32);
    w.bytes(&write_ivs(&h.ivs, axis_count));
    for (slot, m) in [(8usize, &h.adv_map), (12, &h.lsb_map), (16, &h.rsb_map)] {
        if let Some(m) = m {
            while w.len() % 2 != 0 {
                w.u8(0);
            }
            let at = w.len();
            w.set_u32(slot, at as u32);
            w.bytes(&write_dsmap(m));
        }
    }
    w.b
}

pub fn write_mvar(m: &Mvar, axis_count: usize) -> Vec<u8> {
    let mut w = W::new();
    w.u16(1).u16(0).u16(0).u16(m.rec_size).u16(m.records.len() as u16).u16(0);
    for (tag, o, i) in &m.records {
        w.bytes(tag).u16(*o).u16(*i);
        for _ in 8..m.rec_size {
            w.u8(0x5A);
        }
    }
    if let Some(ivs) = &m.ivs {
        let at = w.len();
        w.set_u16(10, at as u16);
        w.bytes(&write_ivs(ivs, axis_count));
    }
    w.b
}

fn write_stat(axes: &[Axis]) -> Vec<u8> {
    // version 1.1, design axes only, no axis values, elided fallback name = 2
    let mut w = W::new();
    w.u16(1).u16(1).u16(8).u16(axes.len() as u16).u32(20).u16(0).u32(0).u16(2);
    for (i, a) in axes.iter().enumerate() {
        w.bytes(&a.tag).u16(256 + i as u16).u16(i as u16);
    }
    w.b
}

fn write_vhea(vf: &VFont, n: usize) -> Vec<u8> {
    let g = |t: &str| vf.base.get(t).copied().unwrap_or(0) as i16;
    let mut w = W::new();
    w.u32(0x0001_1000).i16(g("vasc")).i16(g("vdsc")).i16(g("vlgp")).u16(1000).i16(0).i16(0).i16(0);
    w.i16(g("vcrs")).i16(g("vcrn")).i16(g("vcof")).i16(0).i16(0).i16(0).i16(0).i16(0).u16(n as u16);
    w.b
}

pub struct Built {
    pub bytes: Vec<u8>,
    pub gvar_classes: Vec<Vec<Vec<&'static str>>>,
}

/// Exact bounding box of a glyph at the default master (composites flattened); used for the
/// bbox fields of the glyph headers the writer emits.
pub fn default_bbox(glyphs: &[Glyph], gid: usize, depth: usize) -> Option<(f64, f64, f64, f64)> {
    let pts = default_points(glyphs, gid, depth)?;
    if pts.is_empty() {
        return None;
    }
    let mut b = (f64::INFINITY, f64::INFINITY, f64::NEG_INFINITY, f64::NEG_INFINITY);
    for (x, y) in pts {
        b = (b.0.min(x), b.1.min(y), b.2.max(x), b.3.max(y));
    }
    Some(b)
}

fn default_points(glyphs: &[Glyph], gid: usize, depth: usize) -> Option<Vec<(f64, f64)>> {
    if depth > 6 {
        return None;
    }
    match glyphs.get(gid)? {
        Glyph::Empty => Some(Vec::new()),
        Glyph::Simple(s) => Some(s.points().map(|p| (p.x as f64, p.y as f64)).collect()),
        Glyph::Composite(c) => {
            let mut out = Vec::new();
            for k in &c.components {
                let child = default_points(glyphs, k.gid as usize, depth + 1)?;
                let (dx, dy) = match k.args {
                    Args::XY(x, y) => (x as f64, y as f64),
                    Args::Points(..) => (0.0, 0.0),
                };
                let m = ig::scale_matrix(k.scale);
                for (x, y) in child {
                    out.push((m.0 * x + m.2 * y + dx, m.1 * x + m.3 * y + dy));
                }
            }
            Some(out)
        }
    }
}

pub fn build_font(vf: &VFont, rng: &mut Rng) -> Built {
    build_font_with(vf, rng, None)
}

/// `cff2`: a CFF2 table to use instead of glyf/loca/gvar (all glyphs of `vf` are then Empty).
pub fn build_font_with(vf: &VFont, rng: &mut Rng, cff2: Option<Vec<u8>>) -> Built {
    let n = vf.glyphs.len();
    let enc = EncChoice::random(rng);
    let mut records = Vec::new();
    let mut font_bbox = BBox { x_min: 0, y_min: 0, x_max: 0, y_max: 0 };
    for (gid, g) in vf.glyphs.iter().enumerate() {
        records.push(match g {
            Glyph::Empty => Vec::new(),
            Glyph::Simple(s) => {
                let b = s.bbox();
                font_bbox.x_min = font_bbox.x_min.min(b.x_min);
                font_bbox.y_min = font_bbox.y_min.min(b.y_min);
                font_bbox.x_max = font_bbox.x_max.max(b.x_max);
                font_bbox.y_max = font_bbox.y_max.max(b.y_max);
                ig::write_simple(s, b, rng, &enc)
            }
            Glyph::Composite(c) => {
                let b = match default_bbox(&vf.glyphs, gid, 0) {
                    Some(b) => BBox { x_min: b.0.floor() as i16, y_min: b.1.floor() as i16, x_max: b.2.ceil() as i16, y_max: b.3.ceil() as i16 },
                    None => BBox { x_min: 0, y_min: 0, x_max: 0, y_max: 0 },
                };
                ig::write_composite(c, b)
            }
        });
    }
    let (glyf, loca, long) = ig::build_glyf_loca(&records, rng.chance(1, 4), rng.bool());
    let mut f = Font::new(if cff2.is_some() { 0x4F54_544F } else { 0x0001_0000 });
    // cmap: format 12, U+0041.. -> glyphs 1..
    let groups: Vec<(u32, u32, u32)> = if n > 1 { vec![(0x41, 0x41 + (n as u32 - 2), 1)] } else { vec![] };
    let sub = crate::sfnt::cmap::write_format12(&groups, 0);
    f.sets("cmap", crate::sfnt::cmap::write_cmap(&[crate::sfnt::cmap::Record { platform: 3, encoding: 10, subtable: 0 }], &[sub]));
    let head = it::Head { index_to_loc_format: if long { 1 } else { 0 }, x_min: font_bbox.x_min, y_min: font_bbox.y_min, x_max: font_bbox.x_max, y_max: font_bbox.y_max, ..Default::default() };
    f.sets("head", head.write());
    let b = |t: &str| vf.base.get(t).copied().unwrap_or(0);
    let hhea = it::Hhea {
        ascender: 800,
        descender: -200,
        line_gap: 10,
        advance_width_max: vf.metrics.iter().map(|m| m.0).max().unwrap_or(0),
        caret_slope_rise: b("hcrs") as i16,
        caret_slope_run: b("hcrn") as i16,
        caret_offset: b("hcof") as i16,
        num_h_metrics: vf.num_h_metrics as u16,
        ..Default::default()
    };
    f.sets("hhea", hhea.write());
    f.sets("maxp", it::write_maxp(n as u16, cff2.is_none()));
    f.sets("hmtx", it::write_hmtx(&vf.metrics, vf.num_h_metrics));
    if cff2.is_none() {
        f.sets("loca", loca);
        f.sets("glyf", glyf);
    }
    // post 3.0 with the underline fields
    let mut post = it::write_post3();
    post[8..10].copy_from_slice(&(b("undo") as i16).to_be_bytes());
    post[10..12].copy_from_slice(&(b("unds") as i16).to_be_bytes());
    f.sets("post", post);
    let axis_names: Vec<String> = (0..vf.axes.len()).map(|i| format!("Axis{}", i)).collect();
    // family / typographic family / variations PostScript prefix: usually plain, sometimes long and
    // not ASCII (instancing builds a PostScript name from them and has to cut it to 63 bytes)
    let hostile_name = |rng: &mut Rng| -> String {
        let pools: [&[char]; 5] = [
            &['A', 'b', 'Z', '9', '0', 'q'],
            &['\u{416}', '\u{44F}', '\u{401}', '\u{434}'],
            &['\u{3A9}', '\u{3B1}', '\u{3C0}'],
            &['\u{4E2D}', '\u{6587}', '\u{5B57}'],
            &[' ', '-', '(', '%', '/', '\u{E9}', '\u{DF}', '\u{10400}'],
        ];
        let n = *rng.pick(&[3usize, 20, 50, 62, 63, 64, 70, 130]) + rng.below(4);
        (0..n).map(|_| { let p = *rng.pick(&pools); *rng.pick(p) }).collect()
    };
    let mut owned_names: Vec<(u16, String)> = Vec::new();
    if rng.chance(1, 3) {
        owned_names.push((1, hostile_name(rng)));
        if rng.bool() {
            owned_names.push((16, hostile_name(rng)));
        }
        if rng.bool() {
            owned_names.push((25, hostile_name(rng)));
        }
    } else {
        owned_names.push((1, "Verif".to_string()));
    }
    let mut names: Vec<(u16, &str)> = vec![(2, "Regular"), (4, "Verif Regular"), (6, "Verif-Regular")];
    for (id, s) in &owned_names {
        names.push((*id, s.as_str()));
    }
    names.sort_by_key(|x| x.0);
    for (i, s) in axis_names.iter().enumerate() {
        names.push((256 + i as u16, s.as_str()));
    }
    f.sets("name", it::write_name(&names));
    let mut os2 = it::write_os2(vf.os2_version, 0x41, 0x41 + n as u16);
    for &(tag, table, off, _signed, minv) in MVAR_TARGETS {
        if table == "OS/2" && vf.os2_version >= minv && off + 2 <= os2.len() {
            if let Some(v) = vf.base.get(tag) {
                os2[off..off + 2].copy_from_slice(&(*v as u16).to_be_bytes());
            }
        }
    }
    f.sets("OS/2", os2);
    if vf.with_vhea {
        f.sets("vhea", write_vhea(vf, n));
        let vm: Vec<(u16, i16)> = (0..n).map(|i| (1000u16, (i as i16) * 3)).collect();
        f.sets("vmtx", it::write_hmtx(&vm, n));
    }
    f.sets("fvar", write_fvar(&vf.axes));
    if let Some(m) = &vf.avar {
        f.sets("avar", write_avar(m));
    }
    let gv = match cff2 {
        Some(t) => {
            f.sets("CFF2", t);
            GvarOut { bytes: Vec::new(), classes: Vec::new() }
        }
        None => {
            let gv = write_gvar(vf, rng);
            f.sets("gvar", gv.bytes.clone());
            gv
        }
    };
    if let Some(h) = &vf.hvar {
        f.sets("HVAR", write_hvar(h, vf.axes.len()));
    }
    if let Some(m) = &vf.mvar {
        f.sets("MVAR", write_mvar(m, vf.axes.len()));
    }
    if vf.with_stat {
        f.sets("STAT", write_stat(&vf.axes));
    }
    Built { bytes: f.build(), gvar_classes: gv.classes }
}

// =================================================================================================
// generators
// =================================================================================================

const AXIS_TAGS: &[&[u8; 4]] = &[b"wght", b"wdth", b"opsz", b"slnt", b"ital", b"AXAA", b"AXBB", b"GRAD"];

pub fn gen_axes(rng: &mut Rng) -> Vec<Axis> {
    // mostly 1-3 axes; sometimes more than the four an inline tuple holds
    let n = if rng.chance(1, 12) { 4 + rng.below(4) } else { 1 + rng.below(3) };
    let mut tags: Vec<&[u8; 4]> = AXIS_TAGS.to_vec();
    rng.shuffle(&mut tags);
    (0..n)
        .map(|i| {
            let one = 1i32 << 16;
            let (min, def, max) = match rng.below(8) {
                0 | 1 => (-one, 0, one),
                2 => (100 * one, 400 * one, 900 * one),
                3 => (0, 0, 1000 * one),
                4 => (50 * one, 100 * one, 100 * one),
                5 => (-10 * one, 0, 20 * one),
                _ => {
                    let mut v = [rng.range(-2000 * 65536, 2000 * 65536) as i32, rng.range(-2000 * 65536, 2000 * 65536) as i32, rng.range(-2000 * 65536, 2000 * 65536) as i32];
                    v.sort();
                    // keep each side at least one unit wide so that targets can be hit
                    (v[0] - one, v[1], v[2] + one)
                }
            };
            Axis { tag: *tags[i], min, def, max }
        })
        .collect()
}

pub fn gen_segmap(rng: &mut Rng) -> SegMap {
    // valid map: -1 -> -1, 0 -> 0, 1 -> 1, strictly increasing from, non-decreasing to
    let mut froms: Vec<i16> = vec![-16384, 0, 16384];
    for _ in 0..rng.below(4) {
        froms.push(-(1 + rng.below(16383) as i16));
    }
    for _ in 0..rng.below(4) {
        froms.push(1 + rng.below(16383) as i16);
    }
    froms.sort();
    froms.dedup();
    let zi = froms.iter().position(|&f| f == 0).unwrap_or(0);
    let mut neg: Vec<i16> = (1..zi).map(|_| -(rng.below(16385) as i16)).collect();
    let mut pos: Vec<i16> = (zi + 1..froms.len().saturating_sub(1)).map(|_| rng.below(16385) as i16).collect();
    neg.sort();
    pos.sort();
    let mut tos = vec![-16384i16];
    tos.extend(neg);
    tos.push(0);
    tos.extend(pos);
    tos.push(16384);
    froms.into_iter().zip(tos).collect()
}

fn gen_coord14(rng: &mut Rng) -> i16 {
    match rng.below(6) {
        0 => 16384,
        1 => 8192,
        2 => 1 + rng.below(8) as i16,
        3 => 16384 - rng.below(8) as i16,
        _ => 1 + rng.below(16384) as i16,
    }
}

/// One region as (peak tuple, optional (start, end) tuples); `invalid` requests a malformed axis.
pub fn gen_region(rng: &mut Rng, n_axes: usize, invalid: bool) -> (Vec<i16>, Option<(Vec<i16>, Vec<i16>)>) {
    let inter = invalid || rng.chance(1, 3);
    let mut peak = vec![0i16; n_axes];
    let mut start = vec![0i16; n_axes];
    let mut end = vec![0i16; n_axes];
    let bad_axis = if invalid { rng.below(n_axes) } else { usize::MAX };
    let must = rng.below(n_axes);
    for a in 0..n_axes {
        let active = a == must || a == bad_axis || rng.chance(1, 3);
        if !active {
            if inter && rng.chance(1, 4) {
                // peak 0 with arbitrary start/end: the axis is ignored all the same
                start[a] = -(rng.below(16385) as i16);
                end[a] = rng.below(16385) as i16;
            }
            continue;
        }
        let sign: i16 = if rng.bool() { 1 } else { -1 };
        let p = gen_coord14(rng);
        let (mut s, mut e);
        if inter {
            s = match rng.below(4) {
                0 => 0,
                1 => p,
                _ => rng.below(p as usize + 1) as i16,
            };
            e = match rng.below(4) {
                0 => 16384,
                1 => p,
                _ => p + rng.below((16384 - p) as usize + 1) as i16,
            };
        } else {
            s = 0;
            e = p;
        }
        if a == bad_axis {
            match rng.below(3) {
                0 => s = (p as i32 + 1 + rng.below(100) as i32).min(16384) as i16, // start > peak
                1 => e = (p as i32 - 1 - rng.below(100) as i32).max(-16384) as i16, // peak > end
                _ => {
                    // start < 0 < end with a non-zero peak
                    s = -(1 + rng.below(16384) as i16);
                    e = e.max(p).max(1);
                }
            }
            if s == p && e == p {
                s = p.saturating_add(1).min(16384);
                if s == p {
                    e = p - 1;
                }
            }
        }
        if sign > 0 {
            peak[a] = p;
            start[a] = s;
            end[a] = e;
        } else {
            peak[a] = -p;
            start[a] = -e;
            end[a] = -s;
        }
    }
    (peak, if inter { Some((start, end)) } else { None })
}

pub fn region_is_invalid(r: &Reg) -> bool {
    r.iter().any(|&(s, p, e)| s > p || p > e || (s < 0 && e > 0 && p != 0))
}

fn gen_delta(rng: &mut Rng, big: bool) -> i16 {
    match rng.below(8) {
        0 | 1 => 0,
        2 | 3 | 4 => rng.range(-128, 127) as i16,
        5 => *rng.pick(&[127i16, -128, 128, -129, 1, -1]),
        _ => {
            if big {
                rng.range(-2500, 2500) as i16
            } else {
                rng.range(-300, 300) as i16
            }
        }
    }
}

/// Point selection for a glyph with `n` real points (+4 phantom).
fn gen_pointsel(rng: &mut Rng, glyph: &Glyph, force: &[u16]) -> PointSel {
    let n = glyph_num_points(glyph);
    let total = n + 4;
    let mut sel: Vec<u16> = match rng.below(10) {
        0 | 1 => return PointSel::All,
        2 => (0..total as u16).collect(), // every point, listed explicitly
        3 => (n as u16..total as u16).collect(), // phantom points only
        4 => {
            // one referenced point per contour (or a single point)
            let mut v = Vec::new();
            if let Glyph::Simple(s) = glyph {
                let mut at = 0;
                for c in &s.contours {
                    if rng.chance(3, 4) {
                        v.push((at + rng.below(c.len())) as u16);
                    }
                    at += c.len();
                }
            }
            if v.is_empty() {
                v.push(rng.below(total) as u16);
            }
            v
        }
        5 | 6 => {
            // sparse
            let k = 1 + rng.below(total.min(6));
            (0..k).map(|_| rng.below(total) as u16).collect()
        }
        _ => {
            // dense random subset
            let p = 1 + rng.below(7) as u32;
            (0..total as u16).filter(|_| rng.chance(p, 8)).collect()
        }
    };
    if rng.chance(1, 3) {
        // often add some phantom points
        for k in 0..4 {
            if rng.bool() {
                sel.push((n + k) as u16);
            }
        }
    }
    sel.extend_from_slice(force);
    sel.sort();
    sel.dedup();
    if sel.is_empty() {
        sel.push(rng.below(total) as u16);
    }
    PointSel::List(sel)
}

fn sel_len(sel: &PointSel, glyph: &Glyph) -> usize {
    match sel {
        PointSel::All => glyph_num_points(glyph) + 4,
        PointSel::List(v) => v.len(),
    }
}

fn gen_glyph_set(rng: &mut Rng, lsb_mode: bool, big_ok: bool) -> Vec<Glyph> {
    let mut glyphs = Vec::new();
    let nbase = 1 + rng.below(5);
    for _ in 0..nbase {
        if rng.chance(1, 8) {
            glyphs.push(Glyph::Empty);
            continue;
        }
        let mut s = if big_ok && rng.chance(1, 12) {
            // many points: exercises point counts >= 128 and long runs
            // one in three: 257-420 points that are all on (or all off) the curve, i.e. a run of more
            // than 256 identical flags for a writer that uses one delta form throughout
            let uniform = if rng.chance(1, 3) { Some(rng.chance(3, 4)) } else { None };
            let np = if uniform.is_some() { 257 + rng.below(164) } else { 130 + rng.below(200) };
            let nc = if uniform.is_some() { 1 } else { 1 + rng.below(3) };
            let mut contours: Vec<Vec<Pt>> = vec![Vec::new(); nc];
            let (mut x, mut y) = (0i32, 0i32);
            for i in 0..np {
                x = (x + *rng.pick(&[0, 0, 3, -5, 40, -37, 200, -180])).clamp(-1500, 1500);
                y = (y + *rng.pick(&[0, 0, 2, -7, 33, -41, 150, -160])).clamp(-1500, 1500);
                contours[i * nc / np].push(Pt { x: x as i16, y: y as i16, on: uniform.unwrap_or_else(|| rng.chance(2, 3)) });
            }
            contours.retain(|c| !c.is_empty());
            Simple { contours, instructions: Vec::new(), overlap: false }
        } else {
            let mut s = ig::gen_simple(rng, 3, 14, 1500);
            if s.contours.is_empty() {
                s.contours.push(vec![Pt { x: 10, y: 20, on: true }, Pt { x: 300, y: 20, on: true }, Pt { x: 150, y: 400, on: false }]);
            }
            s.overlap = false;
            s
        };
        if lsb_mode {
            // anchor: point 0 is the unique leftmost point by a wide margin
            s.contours[0][0].x = -12000;
        }
        glyphs.push(Glyph::Simple(s));
    }
    if !lsb_mode {
        let ncomp = rng.below(4);
        for _ in 0..ncomp {
            let cur = glyphs.len();
            let k = 1 + rng.below(3);
            let mut components = Vec::new();
            for _ in 0..k {
                let gid = rng.below(cur) as u16;
                let args = if rng.chance(1, 10) {
                    Args::Points(rng.below(3) as u16, rng.below(3) as u16)
                } else if rng.bool() {
                    Args::XY(rng.range(-128, 127) as i16, rng.range(-128, 127) as i16)
                } else {
                    Args::XY(rng.range(-1500, 1500) as i16, rng.range(-1500, 1500) as i16)
                };
                let scale = match rng.below(10) {
                    0 => Scale::Uniform(*rng.pick(&[8192i16, 16384, 4915, 24576])),
                    1 => Scale::XY(*rng.pick(&[8192i16, 16384, 12288]), *rng.pick(&[8192i16, 16384, 20000])),
                    2 => Scale::Matrix(rng.range(-16384, 16384) as i16, rng.range(-16384, 16384) as i16, rng.range(-16384, 16384) as i16, rng.range(-16384, 16384) as i16),
                    _ => Scale::None,
                };
                let mut extra = 0u16;
                if rng.chance(1, 5) {
                    extra |= 0x4;
                }
                if rng.chance(1, 8) {
                    extra |= 0x1000;
                }
                components.push(Component { gid, args, scale, extra_flags: extra, force_words: rng.chance(1, 4) });
            }
            glyphs.push(Glyph::Composite(Composite { components, instructions: Vec::new() }));
        }
    }
    for _ in 0..rng.below(3) {
        if rng.chance(1, 2) {
            glyphs.push(Glyph::Empty);
        }
    }
    glyphs
}

/// Deltas of the four phantom points in a tuple, None where the tuple does not reference them.
fn phantom_dx(glyph: &Glyph, sel: &PointSel, deltas: &[(i16, i16)], k: usize) -> i32 {
    let n = glyph_num_points(glyph);
    match sel {
        PointSel::All => deltas[n + k].0 as i32,
        PointSel::List(v) => v.iter().position(|&p| p as usize == n + k).map_or(0, |i| deltas[i].0 as i32),
    }
}

fn point_dx(sel: &PointSel, deltas: &[(i16, i16)], pt: usize) -> i32 {
    match sel {
        PointSel::All => deltas[pt].0 as i32,
        PointSel::List(v) => v.iter().position(|&p| p as usize == pt).map_or(0, |i| deltas[i].0 as i32),
    }
}

/// Build an ItemVariationData from rows over `region_idx`, choosing the column order and widths.
pub fn make_ivdata(rng: &mut Rng, mut region_idx: Vec<u16>, mut rows: Vec<Vec<i32>>, allow_long: bool) -> IvData {
    let ncol = region_idx.len();
    // columns that need a 16-bit cell go first
    let needs_word: Vec<bool> = (0..ncol).map(|c| rows.iter().any(|r| !(-128..=127).contains(&r[c]))).collect();
    let mut order: Vec<usize> = (0..ncol).collect();
    rng.shuffle(&mut order);
    order.sort_by_key(|&c| !needs_word[c]);
    region_idx = order.iter().map(|&c| region_idx[c]).collect();
    for r in rows.iter_mut() {
        *r = order.iter().map(|&c| r[c]).collect();
    }
    let min_words = needs_word.iter().filter(|&&b| b).count();
    let long = allow_long && rng.chance(1, 8);
    let word_count = if long {
        // with LONG_WORDS the narrow cells are int16: any split works
        rng.below(ncol + 1)
    } else if rng.chance(1, 3) {
        min_words + rng.below(ncol - min_words + 1)
    } else {
        min_words
    };
    IvData { region_idx, rows, word_count: word_count as u16, long }
}

pub fn make_dsmap(rng: &mut Rng, entries: Vec<(u16, u16)>) -> DsMap {
    let max_inner = entries.iter().map(|e| e.1).max().unwrap_or(0) as u32;
    let max_outer = entries.iter().map(|e| e.0).max().unwrap_or(0) as u32;
    let need_inner = (32 - max_inner.leading_zeros()).max(1) as u8;
    // one map in eight uses the widest legal inner index (entryFormat low nibble 0xF = 16 bits)
    let inner_bits = if rng.chance(1, 8) { 16 } else { (need_inner + if rng.chance(1, 2) { rng.below(4) as u8 } else { 0 }).min(16) };
    let need_outer = 32 - max_outer.leading_zeros();
    let need_bytes = (((inner_bits as u32 + need_outer) + 7) / 8).max(1) as u8;
    let entry_size = (need_bytes + if rng.chance(1, 3) { 1 } else { 0 }).min(4);
    DsMap { entries, inner_bits, entry_size, format: if rng.chance(1, 4) { 1 } else { 0 } }
}

fn intern_region(regions: &mut Vec<Reg>, r: &Reg) -> u16 {
    if let Some(i) = regions.iter().position(|x| x == r) {
        return i as u16;
    }
    regions.push(r.clone());
    (regions.len() - 1) as u16
}

/// HVAR whose advance (and optionally lsb) deltas describe exactly what the gvar phantom points
/// (and the anchor point 0) describe.
fn gen_hvar(rng: &mut Rng, vf: &VFont, with_lsb: bool) -> Hvar {
    let n = vf.glyphs.len();
    let mut regions: Vec<Reg> = Vec::new();
    // a few unused regions in front / in between
    for _ in 0..rng.below(3) {
        let (p, i) = gen_region(rng, vf.axes.len(), false);
        let t = TupleVar { peak: p, inter: i, shared_peak: None, points: None, deltas: vec![] };
        intern_region(&mut regions, &t.region());
    }
    // per glyph: region -> (advance delta, lsb delta)
    let mut per_glyph: Vec<BTreeMap<u16, (i32, i32)>> = vec![BTreeMap::new(); n];
    for g in 0..n {
        if let Some(gv) = &vf.gvar[g] {
            for t in &gv.tuples {
                let sel = match t.points.as_ref().or(gv.shared_points.as_ref()) {
                    Some(s) => s,
                    None => continue,
                };
                let d1 = phantom_dx(&vf.glyphs[g], sel, &t.deltas, 0);
                let d2 = phantom_dx(&vf.glyphs[g], sel, &t.deltas, 1);
                let d0 = match &vf.glyphs[g] {
                    Glyph::Simple(_) => point_dx(sel, &t.deltas, 0),
                    _ => 0,
                };
                let ri = intern_region(&mut regions, &t.region());
                let e = per_glyph[g].entry(ri).or_insert((0, 0));
                e.0 += d2 - d1;
                e.1 += d0 - d1;
            }
        }
    }
    let nreg = regions.len().max(1);
    if regions.is_empty() {
        let (p, i) = gen_region(rng, vf.axes.len(), false);
        let t = TupleVar { peak: p, inter: i, shared_peak: None, points: None, deltas: vec![] };
        regions.push(t.region());
    }
    let all_regions: Vec<u16> = (0..nreg as u16).collect();
    let row_for = |g: usize, cols: &[u16], lsb: bool| -> Vec<i32> { cols.iter().map(|r| per_glyph[g].get(r).map_or(0, |e| if lsb { e.1 } else { e.0 })).collect() };
    let use_map = with_lsb || rng.bool();
    let mut h = Hvar::default();
    if !use_map {
        // implicit mapping: outer 0, inner = glyph id
        let rows: Vec<Vec<i32>> = (0..n).map(|g| row_for(g, &all_regions, false)).collect();
        h.ivs = Ivs { regions, data: vec![make_ivdata(rng, all_regions, rows, true)] };
        return h;
    }
    // explicit maps: items scattered over 1-3 subtables in random order
    let nsub = 1 + rng.below(3);
    let mut sub_rows: Vec<Vec<Vec<i32>>> = vec![Vec::new(); nsub];
    let mut adv_entries = Vec::new();
    let mut lsb_entries = Vec::new();
    // a decoy row first so that index 0 is not accidentally right
    for s in 0..nsub {
        if rng.bool() {
            sub_rows[s].push(all_regions.iter().map(|_| rng.range(-50, 50) as i32).collect());
        }
    }
    let mut order: Vec<usize> = (0..n).collect();
    rng.shuffle(&mut order);
    let mut adv_of = vec![(0u16, 0u16); n];
    let mut lsb_of = vec![(0u16, 0u16); n];
    for &g in &order {
        let s = rng.below(nsub);
        sub_rows[s].push(row_for(g, &all_regions, false));
        adv_of[g] = (s as u16, (sub_rows[s].len() - 1) as u16);
        if with_lsb {
            let s = rng.below(nsub);
            sub_rows[s].push(row_for(g, &all_regions, true));
            lsb_of[g] = (s as u16, (sub_rows[s].len() - 1) as u16);
        }
    }
    for g in 0..n {
        adv_entries.push(adv_of[g]);
        lsb_entries.push(lsb_of[g]);
    }
    // a short map is allowed when the trailing glyphs share the last entry's deltas
    let trim = |entries: &mut Vec<(u16, u16)>, lsb: bool, rng: &mut Rng| {
        let mut keep = entries.len();
        while keep > 1 && row_for(keep - 1, &all_regions, lsb) == row_for(keep - 2, &all_regions, lsb) {
            keep -= 1;
        }
        if keep < entries.len() && rng.chance(3, 4) {
            entries.truncate(keep);
        }
    };
    trim(&mut adv_entries, false, rng);
    if with_lsb {
        trim(&mut lsb_entries, true, rng);
    }
    let mut data = Vec::new();
    for rows in sub_rows {
        data.push(make_ivdata(rng, all_regions.clone(), rows, true));
    }
    // make_ivdata permutes columns per subtable only; entries stay valid
    h.ivs = Ivs { regions, data };
    h.adv_map = Some(make_dsmap(rng, adv_entries.clone()));
    if with_lsb {
        h.lsb_map = Some(make_dsmap(rng, lsb_entries));
    }
    if rng.chance(1, 4) {
        h.rsb_map = Some(make_dsmap(rng, adv_entries));
    }
    h
}

pub fn gen_mvar(rng: &mut Rng, vf: &VFont) -> Mvar {
    let n_axes = vf.axes.len();
    if rng.chance(1, 20) {
        // no records, no store
        return Mvar { ivs: None, records: Vec::new(), rec_size: if rng.bool() { 8 } else { 0 } };
    }
    let mut regions: Vec<Reg> = Vec::new();
    for _ in 0..1 + rng.below(4) {
        let (p, i) = gen_region(rng, n_axes, false);
        let t = TupleVar { peak: p, inter: i, shared_peak: None, points: None, deltas: vec![] };
        regions.push(t.region());
    }
    let nsub = 1 + rng.below(2);
    let mut data = Vec::new();
    for _ in 0..nsub {
        let mut idx: Vec<u16> = (0..regions.len() as u16).collect();
        rng.shuffle(&mut idx);
        idx.truncate(1 + rng.below(regions.len()));
        let nrows = 1 + rng.below(6);
        let rows: Vec<Vec<i32>> = (0..nrows).map(|_| idx.iter().map(|_| gen_delta(rng, false) as i32).collect()).collect();
        data.push(make_ivdata(rng, idx, rows, true));
    }
    let mut tags: Vec<&str> = MVAR_TARGETS.iter().map(|t| t.0).collect();
    tags.push("zzzz");
    tags.push("gsp0");
    rng.shuffle(&mut tags);
    tags.truncate(1 + rng.below(8));
    tags.sort();
    let records = tags
        .iter()
        .map(|t| {
            let o = rng.below(nsub);
            let i = rng.below(data[o].rows.len());
            let b = t.as_bytes();
            ([b[0], b[1], b[2], b[3]], o as u16, i as u16)
        })
        .collect();
    Mvar { ivs: Some(Ivs { regions, data }), records, rec_size: *rng.pick(&[8u16, 8, 8, 10, 12]) }
}

pub fn gen_vfont(rng: &mut Rng, quick: bool) -> VFont {
    let mut vf = VFont::default();
    vf.axes = gen_axes(rng);
    let na = vf.axes.len();
    if rng.chance(1, 3) {
        vf.avar = Some((0..na).map(|_| if rng.chance(1, 5) { vec![(-16384, -16384), (0, 0), (16384, 16384)] } else { gen_segmap(rng) }).collect());
    }
    let with_hvar = rng.chance(1, 2);
    let lsb_mode = with_hvar && rng.chance(1, 3);
    let big_ok = !quick || rng.chance(1, 2);
    vf.glyphs = gen_glyph_set(rng, lsb_mode, big_ok);
    let n = vf.glyphs.len();
    // metrics
    let lsb_is_xmin = rng.chance(2, 3);
    // one font in ten is strictly monospaced (every glyph incl. .notdef has the same advance)
    let mono: Option<u16> = if rng.chance(1, 10) { Some(200 + rng.below(1800) as u16) } else { None };
    for (gid, g) in vf.glyphs.iter().enumerate() {
        let adv = match (mono, rng.below(6)) {
            (Some(a), _) => a,
            (None, 0) => 0,
            (None, 1) => 3000,
            _ => 200 + rng.below(1800) as u16,
        };
        let xmin = match g {
            Glyph::Empty => 0,
            Glyph::Simple(s) => s.bbox().x_min,
            Glyph::Composite(_) => default_bbox(&vf.glyphs, gid, 0).map_or(0, |b| b.0.floor() as i16),
        };
        let lsb = if lsb_is_xmin || matches!(g, Glyph::Empty) { xmin } else { xmin + rng.range(-200, 200) as i16 };
        vf.metrics.push((adv, lsb));
    }
    vf.num_h_metrics = if rng.chance(1, 3) { 1 + rng.below(n) } else { n };
    for g in vf.num_h_metrics..n {
        vf.metrics[g].0 = vf.metrics[vf.num_h_metrics - 1].0;
    }
    // region pool and shared tuples
    let want_invalid = rng.chance(1, 16);
    let npool = 1 + rng.below(5);
    let mut pool: Vec<(Vec<i16>, Option<(Vec<i16>, Vec<i16>)>)> = (0..npool).map(|i| gen_region(rng, na, want_invalid && i == 0)).collect();
    if rng.chance(1, 30) {
        // a region whose peak is zero on every axis: always applies with scalar 1
        pool.push((vec![0; na], None));
    }
    let mut shared: Vec<Vec<i16>> = Vec::new();
    for (p, _) in &pool {
        if rng.chance(2, 3) && !shared.contains(p) {
            shared.push(p.clone());
        }
    }
    for _ in 0..rng.below(3) {
        shared.push((0..na).map(|_| rng.range(-16384, 16384) as i16).collect());
    }
    rng.shuffle(&mut shared);
    vf.shared_tuples = shared;
    vf.gvar_long_offsets = rng.bool();
    // per-glyph variation data
    let big = !lsb_mode && rng.chance(1, 3);
    for g in 0..n {
        let glyph = vf.glyphs[g].clone();
        if rng.chance(1, 6) {
            vf.gvar.push(None);
            continue;
        }
        let ntuples = match rng.below(10) {
            0 => 0,
            1 | 2 | 3 => 1,
            4 | 5 | 6 => 2,
            _ => 3 + rng.below(3),
        };
        let force: Vec<u16> = if lsb_mode && matches!(glyph, Glyph::Simple(_)) { vec![0] } else { vec![] };
        let shared_points = if rng.chance(1, 2) { Some(gen_pointsel(rng, &glyph, &force)) } else { None };
        let mut tuples = Vec::new();
        for _ in 0..ntuples {
            let (peak, inter) = if rng.chance(3, 4) { pool[rng.below(pool.len())].clone() } else { gen_region(rng, na, false) };
            let shared_peak = vf.shared_tuples.iter().position(|t| *t == peak).filter(|_| rng.chance(3, 4)).map(|i| i as u16);
            let points = if shared_points.is_some() && rng.chance(1, 2) { None } else { Some(gen_pointsel(rng, &glyph, &force)) };
            let nsel = sel_len(points.as_ref().or(shared_points.as_ref()).unwrap_or(&PointSel::All), &glyph);
            let zero_heavy = rng.chance(1, 4);
            let mut deltas: Vec<(i16, i16)> = (0..nsel)
                .map(|_| if zero_heavy && rng.chance(3, 4) { (0, 0) } else { (gen_delta(rng, big), gen_delta(rng, big)) })
                .collect();
            // phantom point deltas: pp1 often untouched; empty glyphs keep pp1 fixed (lsb of an
            // empty glyph is defined to be zero)
            let np = glyph_num_points(&glyph);
            let sel = points.clone().or(shared_points.clone()).unwrap_or(PointSel::All);
            let idx_of = |pt: usize| -> Option<usize> {
                match &sel {
                    PointSel::All => Some(pt),
                    PointSel::List(v) => v.iter().position(|&p| p as usize == pt),
                }
            };
            if let Some(i) = idx_of(np) {
                if matches!(glyph, Glyph::Empty) || rng.chance(1, 2) {
                    deltas[i].0 = 0;
                } else {
                    deltas[i].0 = rng.range(-60, 60) as i16;
                }
            }
            if let Some(i) = idx_of(np + 1) {
                deltas[i].0 = rng.range(-40, 300) as i16;
            }
            tuples.push(TupleVar { peak, inter, shared_peak, points, deltas });
        }
        vf.gvar.push(Some(GlyphVar { shared_points, tuples }));
    }
    vf.has_invalid_region = vf.gvar.iter().flatten().flat_map(|g| g.tuples.iter()).any(|t| region_is_invalid(&t.region()));
    // static metric fields
    vf.os2_version = *rng.pick(&[0u16, 1, 2, 3, 4, 4, 5]);
    vf.with_vhea = rng.chance(1, 4);
    vf.with_stat = rng.chance(1, 4);
    for &(tag, table, _off, signed, minv) in MVAR_TARGETS {
        let exists = match table {
            "OS/2" => vf.os2_version >= minv,
            "vhea" => vf.with_vhea,
            _ => true,
        };
        if exists {
            let v = if signed {
                rng.range(-1500, 1500) as i32
            } else if rng.chance(1, 6) {
                // usWinAscent/usWinDescent are unsigned: values beyond the int16 range are legal
                rng.range(30000, 65000) as i32
            } else {
                rng.range(0, 3000) as i32
            };
            vf.base.insert(tag.to_string(), v);
        }
    }
    if with_hvar {
        let h = gen_hvar(rng, &vf, lsb_mode);
        vf.hvar = Some(h);
    }
    if rng.chance(1, 2) {
        let m = gen_mvar(rng, &vf);
        vf.mvar = Some(m);
    }
    vf
}
