//! C12 reference model of the OpenType variation model, evaluated on the AST of `c12_gen`
//! (never on bytes written for allsorts, never through allsorts), plus an INDEPENDENT reader of
//! fvar/avar/gvar/HVAR/MVAR used for (a) the generator self-check (what was written reads back as
//! the AST) and (b) lifting real fixture fonts into the same AST.
//!
//! Spec texts followed:
//!  * OpenType Font Variations Overview, "Algorithm for interpolation of instance values"
//!    (per-axis scalar incl. the three "ignore" rules, product over axes);
//!  * gvar, "Inferred deltas for un-referenced point numbers" (IUP);
//!  * gvar, "Point numbers and processing for composite glyphs"; phantom points;
//!  * HVAR / MVAR / "Item variation store", "Associating target items to variation data".

use super::c12_gen::*;
use crate::sfnt::glyf::{self as ig, Args, Glyph};
use crate::sfnt::{be16, be32, bei16};
use std::collections::BTreeMap;

// ---- normalisation (exact rationals, as in the C13 model) ---------------------------------------

#[derive(Copy, Clone, Debug)]
struct Q {
    n: i128,
    d: i128,
}
impl Q {
    fn new(n: i128, d: i128) -> Q {
        if d < 0 {
            Q { n: -n, d: -d }
        } else {
            Q { n, d }
        }
    }
    fn lt(self, o: Q) -> bool {
        self.n * o.d < o.n * self.d
    }
    fn le(self, o: Q) -> bool {
        self.n * o.d <= o.n * self.d
    }
    fn to_f64(self) -> f64 {
        self.n as f64 / self.d as f64
    }
}

fn clamp_unit(x: Q) -> Q {
    if x.lt(Q::new(-1, 1)) {
        Q::new(-1, 1)
    } else if Q::new(1, 1).lt(x) {
        Q::new(1, 1)
    } else {
        x
    }
}

/// Exact normalised coordinate in F2Dot14 units (real number) and the avar slope in use.
pub fn normalise(a: &Axis, map: Option<&SegMap>, user: i32) -> (f64, f64) {
    let v = (user as i128).clamp(a.min as i128, a.max as i128);
    let (d, mn, mx) = (a.def as i128, a.min as i128, a.max as i128);
    let x0 = if v < d {
        Q::new(-(d - v), d - mn)
    } else if v > d {
        Q::new(v - d, mx - d)
    } else {
        Q::new(0, 1)
    };
    let x0 = clamp_unit(x0);
    let (x1, slope) = match map {
        Some(m) if m.len() >= 2 => {
            let k = |v: i16| Q::new(v as i128, 16384);
            let mut res = (x0, 1.0);
            for w in m.windows(2) {
                let (f0, t0) = w[0];
                let (f1, t1) = w[1];
                if k(f0).le(x0) && x0.le(k(f1)) {
                    if f1 == f0 {
                        res = (k(t0), 0.0);
                    } else {
                        let num = x0.n * 16384 - (f0 as i128) * x0.d;
                        let dt = (t1 as i128) - (t0 as i128);
                        let df = (f1 as i128) - (f0 as i128);
                        let den = x0.d * 16384 * df;
                        res = (Q::new((t0 as i128) * x0.d * df + num * dt, den), (dt as f64 / df as f64).abs());
                    }
                    break;
                }
            }
            (clamp_unit(res.0), res.1)
        }
        _ => (x0, 1.0),
    };
    (x1.to_f64() * 16384.0, slope)
}

/// User value (16.16 raw) whose exact normalisation is as close as possible to `target` (F2Dot14 raw).
pub fn user_for_target(a: &Axis, map: Option<&SegMap>, target: i16) -> i32 {
    let (mut lo, mut hi) = (a.min as i64, a.max as i64);
    // monotone non-decreasing: bisection for the first user value with norm >= target
    while lo < hi {
        let mid = lo + (hi - lo) / 2;
        if normalise(a, map, mid as i32).0 >= target as f64 - 1e-9 {
            hi = mid;
        } else {
            lo = mid + 1;
        }
    }
    lo as i32
}

// ---- scalars ------------------------------------------------------------------------------------

#[derive(Copy, Clone, Debug, PartialEq, Eq)]
pub enum AxisCase {
    Invalid,
    PeakZero,
    OutOfRange,
    AtPeak,
    Rising,
    Falling,
}

/// Per-axis scalar as an exact rational (num, den), den > 0.
pub fn axis_scalar(c: i16, (s, p, e): (i16, i16, i16)) -> ((i64, i64), AxisCase) {
    let (c, s, p, e) = (c as i64, s as i64, p as i64, e as i64);
    if s > p || p > e {
        return ((1, 1), AxisCase::Invalid);
    }
    if s < 0 && e > 0 && p != 0 {
        return ((1, 1), AxisCase::Invalid);
    }
    if p == 0 {
        return ((1, 1), AxisCase::PeakZero);
    }
    if c < s || c > e {
        return ((0, 1), AxisCase::OutOfRange);
    }
    if c == p {
        return ((1, 1), AxisCase::AtPeak);
    }
    if c < p {
        ((c - s, p - s), AxisCase::Rising)
    } else {
        ((e - c, e - p), AxisCase::Falling)
    }
}

/// Region scalar (product over axes). Also reports the per-axis cases and whether the instance
/// sits within one F2Dot14 unit of a region edge or peak on some axis.
pub fn region_scalar(coords: &[i16], reg: &Reg) -> (f64, Vec<AxisCase>, bool) {
    let (mut n, mut d) = (1i128, 1i128);
    let mut cases = Vec::with_capacity(reg.len());
    let mut near = false;
    for (i, &r) in reg.iter().enumerate() {
        let c = coords.get(i).copied().unwrap_or(0);
        let ((an, ad), case) = axis_scalar(c, r);
        n *= an as i128;
        d *= ad as i128;
        cases.push(case);
        if r.1 != 0 {
            for k in [r.0, r.1, r.2] {
                if (c as i32 - k as i32).abs() <= 1 {
                    near = true;
                }
            }
        }
    }
    (n as f64 / d as f64, cases, near)
}

// ---- IUP ----------------------------------------------------------------------------------------

/// One direction of the inferred-delta rule.
fn infer1(pc: i16, tc: i16, nc: i16, pd: i16, nd: i16, cls: &mut Vec<&'static str>) -> f64 {
    if pc == nc {
        if pd == nd {
            cls.push("iup:equal-coords-same-delta");
            pd as f64
        } else {
            cls.push("iup:equal-coords-different-delta");
            0.0
        }
    } else {
        let (lo_c, lo_d, hi_c, hi_d) = if pc < nc { (pc, pd, nc, nd) } else { (nc, nd, pc, pd) };
        if tc <= lo_c {
            cls.push(if tc == lo_c { "iup:at-neighbour-coord" } else { "iup:outside-below" });
            lo_d as f64
        } else if tc >= hi_c {
            cls.push(if tc == hi_c { "iup:at-neighbour-coord" } else { "iup:outside-above" });
            hi_d as f64
        } else {
            cls.push("iup:interpolate");
            let t = (tc as f64 - pc as f64) / (nc as f64 - pc as f64);
            (1.0 - t) * pd as f64 + t * nd as f64
        }
    }
}

/// Full delta vector (n real points + 4 phantom) of ONE tuple: explicit deltas plus, for simple
/// glyphs, the inferred deltas of un-referenced points, computed on the ORIGINAL coordinates.
pub fn tuple_deltas(glyph: &Glyph, sel: &PointSel, deltas: &[(i16, i16)], cls: &mut Vec<&'static str>) -> Option<Vec<(f64, f64)>> {
    let n = glyph_num_points(glyph);
    let total = n + 4;
    let mut explicit: Vec<Option<(i16, i16)>> = vec![None; total];
    match sel {
        PointSel::All => {
            if deltas.len() != total {
                return None;
            }
            for i in 0..total {
                explicit[i] = Some(deltas[i]);
            }
        }
        PointSel::List(v) => {
            if deltas.len() != v.len() {
                return None;
            }
            for (k, &p) in v.iter().enumerate() {
                if p as usize >= total || explicit[p as usize].is_some() {
                    return None; // out of range / duplicate: outside the judged core
                }
                explicit[p as usize] = Some(deltas[k]);
            }
        }
    }
    let mut out: Vec<(f64, f64)> = explicit.iter().map(|e| e.map_or((0.0, 0.0), |d| (d.0 as f64, d.1 as f64))).collect();
    if let Glyph::Simple(s) = glyph {
        let pts: Vec<_> = s.points().copied().collect();
        let mut start = 0usize;
        for c in &s.contours {
            let end = start + c.len(); // exclusive
            let refd: Vec<usize> = (start..end).filter(|&i| explicit[i].is_some()).collect();
            if refd.is_empty() {
                cls.push("iup:contour-unreferenced");
            } else if refd.len() == c.len() {
                cls.push("iup:contour-all-referenced");
            } else if refd.len() == 1 {
                cls.push("iup:single-referenced-point");
                let d = out[refd[0]];
                for i in start..end {
                    out[i] = d;
                }
            } else {
                for i in start..end {
                    if explicit[i].is_some() {
                        continue;
                    }
                    // nearest referenced point before / after in point-number order, wrapping
                    let prev = match refd.iter().rev().find(|&&r| r < i) {
                        Some(&r) => r,
                        None => {
                            cls.push("iup:wrap-prev");
                            *refd.last()?
                        }
                    };
                    let next = match refd.iter().find(|&&r| r > i) {
                        Some(&r) => r,
                        None => {
                            cls.push("iup:wrap-next");
                            *refd.first()?
                        }
                    };
                    let pd = explicit[prev]?;
                    let nd = explicit[next]?;
                    let dx = infer1(pts[prev].x, pts[i].x, pts[next].x, pd.0, nd.0, cls);
                    let dy = infer1(pts[prev].y, pts[i].y, pts[next].y, pd.1, nd.1, cls);
                    out[i] = (dx, dy);
                }
            }
            start = end;
        }
    }
    Some(out)
}

pub struct GlyphDeltas {
    /// total delta per point (n + 4)
    pub total: Vec<(f64, f64)>,
    /// scalar per tuple
    pub scalars: Vec<f64>,
    pub near_edge: bool,
    pub cases: Vec<AxisCase>,
    pub iup_classes: Vec<&'static str>,
}

pub fn glyph_deltas(glyph: &Glyph, gv: &GlyphVar, coords: &[i16]) -> Option<GlyphDeltas> {
    let n = glyph_num_points(glyph);
    let mut total = vec![(0.0f64, 0.0f64); n + 4];
    let mut scalars = Vec::new();
    let mut near_edge = false;
    let mut cases = Vec::new();
    let mut iup_classes = Vec::new();
    for t in &gv.tuples {
        let (s, c, near) = region_scalar(coords, &t.region());
        scalars.push(s);
        near_edge |= near;
        cases.extend(c);
        if s == 0.0 {
            continue;
        }
        let sel = t.points.as_ref().or(gv.shared_points.as_ref())?;
        let d = tuple_deltas(glyph, sel, &t.deltas, &mut iup_classes)?;
        for i in 0..n + 4 {
            total[i].0 += s * d[i].0;
            total[i].1 += s * d[i].1;
        }
    }
    Some(GlyphDeltas { total, scalars, near_edge, cases, iup_classes })
}

// ---- item variation store -----------------------------------------------------------------------

pub fn ivs_delta(ivs: &Ivs, outer: u16, inner: u16, coords: &[i16]) -> Option<f64> {
    let d = ivs.data.get(outer as usize)?;
    let row = d.rows.get(inner as usize)?;
    let mut sum = 0.0;
    for (c, &ri) in d.region_idx.iter().enumerate() {
        let reg = ivs.regions.get(ri as usize)?;
        let (s, _, _) = region_scalar(coords, reg);
        sum += s * *row.get(c)? as f64;
    }
    Some(sum)
}

pub fn dsmap_entry(m: &DsMap, i: usize) -> Option<(u16, u16)> {
    if m.entries.is_empty() {
        return None;
    }
    Some(m.entries[i.min(m.entries.len() - 1)])
}

pub fn hvar_advance_delta(h: &Hvar, gid: usize, coords: &[i16]) -> Option<f64> {
    let (o, i) = match &h.adv_map {
        Some(m) => dsmap_entry(m, gid)?,
        None => (0, gid as u16),
    };
    ivs_delta(&h.ivs, o, i, coords)
}

pub fn hvar_lsb_delta(h: &Hvar, gid: usize, coords: &[i16]) -> Option<Option<f64>> {
    match &h.lsb_map {
        Some(m) => {
            let (o, i) = dsmap_entry(m, gid)?;
            Some(Some(ivs_delta(&h.ivs, o, i, coords)?))
        }
        None => Some(None),
    }
}

pub fn mvar_delta(m: &Mvar, tag: &str, coords: &[i16]) -> Option<f64> {
    let ivs = m.ivs.as_ref()?;
    let rec = m.records.iter().find(|r| &r.0 == tag.as_bytes())?;
    ivs_delta(ivs, rec.1, rec.2, coords)
}

// ---- varied outlines (for xMin of composites) -------------------------------------------------------

/// All outline points of glyph `gid` after variation, composites flattened with their varied
/// offsets. `transformed` is set when a component transform was involved, `unsupported` when the
/// geometry cannot be modelled (point-matching arguments, excessive nesting, broken references).
pub fn varied_points(vf: &VFont, gid: usize, coords: &[i16], depth: usize, transformed: &mut bool, unsupported: &mut bool) -> Vec<(f64, f64)> {
    if depth > 6 {
        *unsupported = true;
        return Vec::new();
    }
    let glyph = match vf.glyphs.get(gid) {
        Some(g) => g,
        None => {
            *unsupported = true;
            return Vec::new();
        }
    };
    let n = glyph_num_points(glyph);
    let total = match vf.gvar.get(gid).and_then(|g| g.as_ref()) {
        Some(gv) => match glyph_deltas(glyph, gv, coords) {
            Some(d) => d.total,
            None => {
                *unsupported = true;
                vec![(0.0, 0.0); n + 4]
            }
        },
        None => vec![(0.0, 0.0); n + 4],
    };
    match glyph {
        Glyph::Empty => Vec::new(),
        Glyph::Simple(s) => s.points().enumerate().map(|(i, p)| (p.x as f64 + total[i].0, p.y as f64 + total[i].1)).collect(),
        Glyph::Composite(c) => {
            let mut out = Vec::new();
            for (k, comp) in c.components.iter().enumerate() {
                let child = varied_points(vf, comp.gid as usize, coords, depth + 1, transformed, unsupported);
                let (dx, dy) = match comp.args {
                    Args::XY(x, y) => (x as f64 + total[k].0, y as f64 + total[k].1),
                    Args::Points(..) => {
                        *unsupported = true;
                        (0.0, 0.0)
                    }
                };
                if comp.scale != ig::Scale::None {
                    *transformed = true;
                }
                if comp.extra_flags & 0x800 != 0 {
                    *unsupported = true;
                }
                let m = ig::scale_matrix(comp.scale);
                for (x, y) in child {
                    out.push((m.0 * x + m.2 * y + dx, m.1 * x + m.3 * y + dy));
                }
            }
            out
        }
    }
}

pub fn composite_depth(glyphs: &[Glyph], gid: usize, guard: usize) -> usize {
    if guard > 8 {
        return 99;
    }
    match glyphs.get(gid) {
        Some(Glyph::Composite(c)) => 1 + c.components.iter().map(|k| composite_depth(glyphs, k.gid as usize, guard + 1)).max().unwrap_or(0),
        _ => 0,
    }
}

// =================================================================================================
// independent reader
// =================================================================================================

pub fn read_fvar(d: &[u8]) -> Option<Vec<Axis>> {
    let off = be16(d, 4)? as usize;
    let count = be16(d, 8)? as usize;
    let size = be16(d, 10)? as usize;
    let mut axes = Vec::new();
    for i in 0..count {
        let o = off + i * size;
        let t = d.get(o..o + 4)?;
        axes.push(Axis { tag: [t[0], t[1], t[2], t[3]], min: be32(d, o + 4)? as i32, def: be32(d, o + 8)? as i32, max: be32(d, o + 12)? as i32 });
    }
    Some(axes)
}

pub fn read_avar(d: &[u8]) -> Option<Vec<SegMap>> {
    let n = be16(d, 6)? as usize;
    let mut o = 8;
    let mut maps = Vec::new();
    for _ in 0..n {
        let k = be16(d, o)? as usize;
        o += 2;
        let mut m = Vec::new();
        for _ in 0..k {
            m.push((bei16(d, o)?, bei16(d, o + 2)?));
            o += 4;
        }
        maps.push(m);
    }
    Some(maps)
}

/// Packed point numbers: (selection, bytes consumed)
fn read_points(d: &[u8], mut o: usize) -> Option<(PointSel, usize)> {
    let start = o;
    let b0 = *d.get(o)? as usize;
    o += 1;
    if b0 == 0 {
        return Some((PointSel::All, 1));
    }
    let count = if b0 & 0x80 != 0 {
        let b1 = *d.get(o)? as usize;
        o += 1;
        ((b0 & 0x7F) << 8) | b1
    } else {
        b0
    };
    let mut v: Vec<u16> = Vec::with_capacity(count);
    let mut cur = 0u32;
    while v.len() < count {
        let c = *d.get(o)?;
        o += 1;
        let run = (c & 0x7F) as usize + 1;
        for _ in 0..run {
            let diff = if c & 0x80 != 0 {
                let x = be16(d, o)? as u32;
                o += 2;
                x
            } else {
                let x = *d.get(o)? as u32;
                o += 1;
                x
            };
            cur += diff;
            if cur > 0xFFFF {
                return None;
            }
            v.push(cur as u16);
        }
    }
    if v.len() != count {
        return None; // a run overshooting the count: not something the model is defined on
    }
    Some((PointSel::List(v), o - start))
}

fn read_deltas(d: &[u8], mut o: usize, n: usize) -> Option<(Vec<i16>, usize)> {
    let start = o;
    let mut v = Vec::with_capacity(n);
    while v.len() < n {
        let c = *d.get(o)?;
        o += 1;
        let run = (c & 0x3F) as usize + 1;
        for _ in 0..run {
            if c & 0x80 != 0 {
                v.push(0);
            } else if c & 0x40 != 0 {
                v.push(bei16(d, o)?);
                o += 2;
            } else {
                v.push(*d.get(o)? as i8 as i16);
                o += 1;
            }
        }
    }
    if v.len() != n {
        return None;
    }
    Some((v, o - start))
}

fn read_tuple(d: &[u8], o: usize, n: usize) -> Option<Vec<i16>> {
    (0..n).map(|i| bei16(d, o + 2 * i)).collect()
}

/// gvar -> (shared tuples, per-glyph variation data, long offsets)
pub fn read_gvar(d: &[u8], glyphs: &[Glyph]) -> Option<(Vec<Vec<i16>>, Vec<Option<GlyphVar>>, bool)> {
    let axis_count = be16(d, 4)? as usize;
    let shared_count = be16(d, 6)? as usize;
    let shared_off = be32(d, 8)? as usize;
    let glyph_count = be16(d, 12)? as usize;
    let long = be16(d, 14)? & 1 != 0;
    let array_off = be32(d, 16)? as usize;
    if glyph_count != glyphs.len() {
        return None;
    }
    let shared: Vec<Vec<i16>> = (0..shared_count).map(|i| read_tuple(d, shared_off + i * axis_count * 2, axis_count)).collect::<Option<_>>()?;
    let off = |i: usize| -> Option<usize> {
        if long {
            be32(d, 20 + 4 * i).map(|v| v as usize)
        } else {
            be16(d, 20 + 2 * i).map(|v| v as usize * 2)
        }
    };
    let mut out = Vec::new();
    for g in 0..glyph_count {
        let (a, b) = (off(g)?, off(g + 1)?);
        if b <= a {
            out.push(None);
            continue;
        }
        let gd = d.get(array_off + a..array_off + b)?;
        let total = glyph_num_points(&glyphs[g]) + 4;
        let fc = be16(gd, 0)?;
        let count = (fc & 0x0FFF) as usize;
        let data_off = be16(gd, 2)? as usize;
        let mut ho = 4;
        let mut dofs = data_off;
        let mut gv = GlyphVar::default();
        if fc & 0x8000 != 0 {
            let (sel, used) = read_points(gd, dofs)?;
            gv.shared_points = Some(sel);
            dofs += used;
        }
        for _ in 0..count {
            let size = be16(gd, ho)? as usize;
            let flags = be16(gd, ho + 2)?;
            ho += 4;
            let (peak, shared_peak) = if flags & 0x8000 != 0 {
                let p = read_tuple(gd, ho, axis_count)?;
                ho += 2 * axis_count;
                (p, None)
            } else {
                let i = flags & 0x0FFF;
                (shared.get(i as usize)?.clone(), Some(i))
            };
            let inter = if flags & 0x4000 != 0 {
                let s = read_tuple(gd, ho, axis_count)?;
                let e = read_tuple(gd, ho + 2 * axis_count, axis_count)?;
                ho += 4 * axis_count;
                Some((s, e))
            } else {
                None
            };
            let td = gd.get(dofs..dofs + size)?;
            dofs += size;
            let mut to = 0;
            let points = if flags & 0x2000 != 0 {
                let (sel, used) = read_points(td, 0)?;
                to += used;
                Some(sel)
            } else {
                None
            };
            let nsel = match points.as_ref().or(gv.shared_points.as_ref())? {
                PointSel::All => total,
                PointSel::List(v) => v.len(),
            };
            let (vals, _) = read_deltas(td, to, 2 * nsel)?;
            let deltas = (0..nsel).map(|i| (vals[i], vals[nsel + i])).collect();
            gv.tuples.push(TupleVar { peak, inter, shared_peak, points, deltas });
        }
        out.push(Some(gv));
    }
    Some((shared, out, long))
}

pub fn read_ivs(d: &[u8]) -> Option<Ivs> {
    if be16(d, 0)? != 1 {
        return None;
    }
    let rl = be32(d, 2)? as usize;
    let n = be16(d, 6)? as usize;
    let axis_count = be16(d, rl)? as usize;
    let region_count = be16(d, rl + 2)? as usize;
    let mut regions = Vec::new();
    for r in 0..region_count {
        let mut reg = Vec::new();
        for a in 0..axis_count {
            let o = rl + 4 + (r * axis_count + a) * 6;
            reg.push((bei16(d, o)?, bei16(d, o + 2)?, bei16(d, o + 4)?));
        }
        regions.push(reg);
    }
    let mut data = Vec::new();
    for i in 0..n {
        let o = be32(d, 8 + 4 * i)? as usize;
        let item_count = be16(d, o)? as usize;
        let wdc = be16(d, o + 2)?;
        let ric = be16(d, o + 4)? as usize;
        let long = wdc & 0x8000 != 0;
        let word_count = (wdc & 0x7FFF) as usize;
        let region_idx: Vec<u16> = (0..ric).map(|k| be16(d, o + 6 + 2 * k)).collect::<Option<_>>()?;
        let mut p = o + 6 + 2 * ric;
        let mut rows = Vec::new();
        for _ in 0..item_count {
            let mut row = Vec::new();
            for c in 0..ric {
                let word = c < word_count;
                let v = match (long, word) {
                    (false, true) => {
                        let v = bei16(d, p)? as i32;
                        p += 2;
                        v
                    }
                    (false, false) => {
                        let v = *d.get(p)? as i8 as i32;
                        p += 1;
                        v
                    }
                    (true, true) => {
                        let v = be32(d, p)? as i32;
                        p += 4;
                        v
                    }
                    (true, false) => {
                        let v = bei16(d, p)? as i32;
                        p += 2;
                        v
                    }
                };
                row.push(v);
            }
            rows.push(row);
        }
        data.push(IvData { region_idx, rows, word_count: word_count as u16, long });
    }
    Some(Ivs { regions, data })
}

pub fn read_dsmap(d: &[u8]) -> Option<DsMap> {
    let format = *d.first()?;
    let ef = *d.get(1)?;
    let (count, mut o) = match format {
        0 => (be16(d, 2)? as usize, 4),
        1 => (be32(d, 2)? as usize, 6),
        _ => return None,
    };
    let inner_bits = (ef & 0x0F) + 1;
    let entry_size = ((ef & 0x30) >> 4) + 1;
    let mut entries = Vec::new();
    for _ in 0..count {
        let mut v = 0u32;
        for _ in 0..entry_size {
            v = (v << 8) | *d.get(o)? as u32;
            o += 1;
        }
        entries.push(((v >> inner_bits) as u16, (v & ((1u32 << inner_bits) - 1)) as u16));
    }
    Some(DsMap { entries, inner_bits, entry_size, format })
}

pub fn read_hvar(d: &[u8]) -> Option<Hvar> {
    if be16(d, 0)? != 1 {
        return None;
    }
    let ivs = read_ivs(d.get(be32(d, 4)? as usize..)?)?;
    let m = |slot: usize| -> Option<Option<DsMap>> {
        let o = be32(d, slot)? as usize;
        if o == 0 {
            Some(None)
        } else {
            Some(Some(read_dsmap(d.get(o..)?)?))
        }
    };
    Some(Hvar { ivs, adv_map: m(8)?, lsb_map: m(12)?, rsb_map: m(16)? })
}

pub fn read_mvar(d: &[u8]) -> Option<Mvar> {
    if be16(d, 0)? != 1 {
        return None;
    }
    let rec_size = be16(d, 6)?;
    let count = be16(d, 8)? as usize;
    let ivs_off = be16(d, 10)? as usize;
    let mut records = Vec::new();
    for i in 0..count {
        let o = 12 + i * rec_size as usize;
        let t = d.get(o..o + 4)?;
        records.push(([t[0], t[1], t[2], t[3]], be16(d, o + 4)?, be16(d, o + 6)?));
    }
    let ivs = if ivs_off != 0 { Some(read_ivs(d.get(ivs_off..)?)?) } else { None };
    Some(Mvar { ivs, records, rec_size })
}

/// Base values of the MVAR-controllable fields present in a font (independent reader).
pub fn read_base_metrics(f: &crate::sfnt::Font) -> BTreeMap<String, i32> {
    let mut m = BTreeMap::new();
    for &(tag, table, off, signed, minv) in MVAR_TARGETS {
        if let Some(d) = f.gets(table) {
            if table == "OS/2" && be16(d, 0).map_or(true, |v| v < minv) {
                continue;
            }
            if let Some(v) = be16(d, off) {
                m.insert(tag.to_string(), if signed { v as i16 as i32 } else { v as i32 });
            }
        }
    }
    m
}

/// All glyphs of a TrueType font (independent reader); None when glyf/loca are malformed.
pub fn read_glyphs(f: &crate::sfnt::Font) -> Option<Vec<Glyph>> {
    let n = crate::sfnt::tables::maxp_num_glyphs(f.gets("maxp")?)? as usize;
    let head = crate::sfnt::tables::Head::read(f.gets("head")?)?;
    let loca = ig::read_loca(f.gets("loca")?, n, head.index_to_loc_format != 0)?;
    let glyf = f.gets("glyf")?;
    let mut out = Vec::new();
    for g in 0..n {
        let (a, b) = (loca[g] as usize, loca[g + 1] as usize);
        if b < a {
            return None;
        }
        let rec = glyf.get(a..b)?;
        let (gl, _) = ig::read_glyph(rec)?;
        // a record with zero contours is an empty glyph for the model
        out.push(match gl {
            Glyph::Simple(s) if s.contours.is_empty() => Glyph::Empty,
            g => g,
        });
    }
    Some(out)
}

pub fn read_metrics(f: &crate::sfnt::Font, n: usize) -> Option<Vec<(u16, i16)>> {
    let hhea = crate::sfnt::tables::Hhea::read(f.gets("hhea")?)?;
    crate::sfnt::tables::read_hmtx(f.gets("hmtx")?, n, hhea.num_h_metrics as usize)
}

/// Lift a real variable TrueType font into the AST.
pub fn read_vfont(bytes: &[u8]) -> Option<VFont> {
    let f = crate::sfnt::Font::parse(bytes)?;
    let mut vf = VFont::default();
    vf.axes = read_fvar(f.gets("fvar")?)?;
    vf.avar = match f.gets("avar") {
        Some(d) => Some(read_avar(d)?),
        None => None,
    };
    vf.glyphs = read_glyphs(&f)?;
    vf.metrics = read_metrics(&f, vf.glyphs.len())?;
    let (shared, gvar, long) = read_gvar(f.gets("gvar")?, &vf.glyphs)?;
    vf.shared_tuples = shared;
    vf.gvar = gvar;
    vf.gvar_long_offsets = long;
    vf.hvar = match f.gets("HVAR") {
        Some(d) => Some(read_hvar(d)?),
        None => None,
    };
    vf.mvar = match f.gets("MVAR") {
        Some(d) => Some(read_mvar(d)?),
        None => None,
    };
    vf.base = read_base_metrics(&f);
    vf.has_invalid_region = vf.gvar.iter().flatten().flat_map(|g| g.tuples.iter()).any(|t| region_is_invalid(&t.region()));
    Some(vf)
}
