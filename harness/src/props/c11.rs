//! C11 — (stub, under construction)

use super::Prop;
use crate::rt::*;

pub struct C11 {}

impl C11 {
    pub fn new(_cx: &mut Ctx) -> C11 {
        C11 {}
    }
}

impl Prop for C11 {
    fn case(&mut self, cx: &mut Ctx, _rng: &mut Rng) {
        cx.inconclusive("not-implemented");
    }
}
