//! C11 — WOFF2 decoding reconstructs the original font.

use super::Prop;
use crate::rt::*;
use crate::sfnt::glyf::{self as ig, Args, Component, Composite, EncChoice, Glyph, Scale};
use crate::sfnt::tables as it;
use crate::sfnt::woff2::{self as w2, GlyfChoices, W2Table};
use crate::sfnt::{self, tag};
use allsorts::binary::read::ReadScope;
use allsorts::font_data::FontData;
use allsorts::tables::{FontTableProvider, SfntVersion};
use allsorts::woff2::{PackedU16, U32Base128};

pub struct C11 {
    seeds: Vec<SeedFont>,
}

impl C11 {
    pub fn new(cx: &mut Ctx) -> C11 {
        let max = if cx.quick() { 120_000 } else { 700_000 };
        let seeds = load_seed_fonts(max, true)
            .into_iter()
            .filter(|f| f.data.len() >= 4 && (&f.data[..4] == [0, 1, 0, 0] || &f.data[..4] == b"OTTO" || &f.data[..4] == b"true"))
            .collect();
        C11 { seeds }
    }
}

/// A TrueType font in abstract form.
#[derive(Clone)]
pub struct TtFont {
    pub flavor: u32,
    pub glyphs: Vec<(Glyph, ig::BBox)>,
    pub metrics: Vec<(u16, i16)>,
    pub num_h_metrics: usize,
    pub head: Vec<u8>,
    pub hhea: Vec<u8>,
    pub maxp: Vec<u8>,
    pub loca_long: bool,
    /// remaining tables, byte-exact
    pub others: Vec<(u32, Vec<u8>)>,
    pub name: String,
}

fn xmin_of(g: &(Glyph, ig::BBox)) -> i16 {
    match &g.0 {
        Glyph::Empty => 0,
        Glyph::Simple(s) if s.contours.is_empty() => 0,
        _ => g.1.x_min,
    }
}

pub fn gen_ttfont(rng: &mut Rng, quick: bool) -> TtFont {
    // glyph counts: small, or exactly a multiple of 32 (the bounding-box bitmap of the transformed glyf
    // table is padded to 32 glyphs: a boundary of its length formula)
    let n = if rng.chance(1, 10) { *rng.pick(&[32usize, 64, 32, 96]) } else { 1 + rng.below(if quick { 14 } else { 40 }) };
    let range = *rng.pick(&[200i32, 2000, 16000, 32767]);
    let mut glyphs: Vec<(Glyph, ig::BBox)> = Vec::new();
    for i in 0..n {
        let g = if rng.chance(1, 8) {
            Glyph::Empty
        } else if i >= 2 && rng.chance(1, 5) {
            let nc = 1 + rng.below(3);
            let components = (0..nc)
                .map(|_| Component {
                    gid: rng.below(i) as u16,
                    args: if rng.chance(1, 6) { Args::Points(rng.below(5) as u16, rng.below(5) as u16) } else { Args::XY(rng.range(-500, 500) as i16, rng.range(-500, 500) as i16) },
                    scale: match rng.below(4) {
                        0 => Scale::Uniform(rng.range(-32768, 32767) as i16),
                        1 => Scale::XY(rng.range(-32768, 32767) as i16, 16384),
                        2 => Scale::Matrix(16384, rng.range(-100, 100) as i16, rng.range(-100, 100) as i16, 16384),
                        _ => Scale::None,
                    },
                    extra_flags: *rng.pick(&[0u16, 0x200, 0x4, 0x1000, 0x400]),
                    force_words: rng.chance(1, 4),
                })
                .collect();
            let il = if rng.chance(1, 3) { 1 + rng.below(12) } else { 0 };
            let mut components: Vec<Component> = components;
            if il > 0 && nc >= 2 && rng.chance(1, 2) {
                // WE_HAVE_INSTRUCTIONS on a component other than (or in addition to) the last one
                let k = rng.below(nc - 1);
                components[k].extra_flags |= 0x100;
                if rng.chance(1, 3) {
                    components[nc - 1].extra_flags |= 0x100;
                }
            }
            Glyph::Composite(Composite { components, instructions: rng.bytes(il) })
        } else if rng.chance(1, 14) {
            // deltas of exactly -32768 / +32767 between consecutive points (the extreme 16-bit triplets)
            let m = 16384i16;
            let pts = vec![
                ig::Pt { x: m, y: m, on: true },
                ig::Pt { x: -m, y: m, on: rng.bool() },
                ig::Pt { x: -m, y: -m, on: true },
                ig::Pt { x: m - 1, y: -m, on: rng.bool() },
            ];
            Glyph::Simple(ig::Simple { contours: vec![pts], instructions: Vec::new(), overlap: false })
        } else {
            let mut s = ig::gen_simple(rng, 5, 30, range);
            if rng.chance(1, 30) {
                // > 255 instructions / many points to reach the multi-byte 255UInt16 forms
                let il = 250 + rng.below(600);
                s.instructions = rng.bytes(il);
            }
            if s.contours.is_empty() {
                Glyph::Empty
            } else {
                Glyph::Simple(s)
            }
        };
        let bb = match &g {
            Glyph::Simple(s) => {
                if rng.chance(1, 6) {
                    ig::BBox { x_min: rng.range(-100, 0) as i16, y_min: rng.range(-100, 0) as i16, x_max: rng.range(0, 100) as i16, y_max: rng.range(0, 100) as i16 }
                } else {
                    s.bbox()
                }
            }
            Glyph::Composite(_) => ig::BBox { x_min: rng.range(-300, 0) as i16, y_min: rng.range(-300, 0) as i16, x_max: rng.range(0, 900) as i16, y_max: rng.range(0, 900) as i16 },
            Glyph::Empty => ig::BBox { x_min: 0, y_min: 0, x_max: 0, y_max: 0 },
        };
        glyphs.push((g, bb));
    }
    let num_h_metrics = match rng.below(3) {
        0 => n,
        1 => 1,
        _ => 1 + rng.below(n),
    };
    let lsb_is_xmin = rng.chance(2, 3);
    let mut metrics: Vec<(u16, i16)> = Vec::new();
    let mut last_adv = 0;
    for (i, g) in glyphs.iter().enumerate() {
        let adv = if i < num_h_metrics { rng.below(3000) as u16 } else { last_adv };
        last_adv = adv;
        let lsb = if lsb_is_xmin || rng.bool() { xmin_of(g) } else { rng.range(-500, 500) as i16 };
        metrics.push((adv, lsb));
    }
    let mut others: Vec<(u32, Vec<u8>)> = Vec::new();
    let mut used = vec![tag("head"), tag("hhea"), tag("maxp"), tag("hmtx"), tag("glyf"), tag("loca")];
    for _ in 0..rng.below(8) {
        let t = match rng.below(3) {
            0 => tag(w2::KNOWN_TAGS[rng.below(63)]),
            1 => rng.u32() | 0x2020_2020,
            _ => u32::from_be_bytes([b'x', b'y', b'a' + rng.below(26) as u8, b'0' + rng.below(10) as u8]),
        };
        if used.contains(&t) || t == tag("CFF ") || t == tag("CFF2") {
            continue;
        }
        used.push(t);
        let len = match rng.below(6) {
            0 => 0,
            1 => 1,
            2 => 65_536 + rng.below(70_000),
            _ => rng.below(400),
        };
        others.push((t, rng.bytes(len)));
    }
    let loca_long = rng.chance(1, 3);
    let head = it::Head { index_to_loc_format: loca_long as i16, ..Default::default() }.write();
    let hhea = it::Hhea { num_h_metrics: num_h_metrics as u16, ascender: 800, descender: -200, ..Default::default() }.write();
    TtFont { flavor: 0x0001_0000, glyphs, metrics, num_h_metrics, head, hhea, maxp: it::write_maxp(n as u16, true), loca_long, others, name: "generated".into() }
}

/// Abstract form of a real TrueType font (independent reader).
pub fn read_ttfont(data: &[u8], name: &str) -> Option<TtFont> {
    let f = sfnt::Font::parse(data)?;
    let head = f.gets("head")?.to_vec();
    let hhea = f.gets("hhea")?.to_vec();
    let maxp = f.gets("maxp")?.to_vec();
    let n = it::maxp_num_glyphs(&maxp)? as usize;
    let h = it::Head::read(&head)?;
    let long = h.index_to_loc_format != 0;
    let loca = ig::read_loca(f.gets("loca")?, n, long)?;
    let glyf = f.gets("glyf")?;
    let mut glyphs = Vec::new();
    for i in 0..n {
        let (a, b) = (loca[i] as usize, loca[i + 1] as usize);
        if b < a {
            return None;
        }
        let rec = glyf.get(a..b)?;
        glyphs.push(ig::read_glyph(rec)?);
    }
    let nhm = it::Hhea::read(&hhea)?.num_h_metrics as usize;
    let metrics = it::read_hmtx(f.gets("hmtx")?, n, nhm)?;
    let skip = [tag("head"), tag("hhea"), tag("maxp"), tag("hmtx"), tag("glyf"), tag("loca")];
    let others = f.tables.iter().filter(|(t, _)| !skip.contains(t)).cloned().collect();
    Some(TtFont { flavor: f.version, glyphs, metrics, num_h_metrics: nhm, head, hhea, maxp, loca_long: long, others, name: name.to_string() })
}

fn same_glyph(a: &Glyph, b: &Glyph) -> bool {
    let norm = |g: &Glyph| -> Glyph {
        match g {
            Glyph::Simple(s) if s.contours.is_empty() => Glyph::Empty,
            Glyph::Simple(s) => {
                let mut s = s.clone();
                s.overlap = false;
                Glyph::Simple(s)
            }
            Glyph::Composite(c) => {
                let mut c = c.clone();
                for k in &mut c.components {
                    k.force_words = false;
                    k.extra_flags &= !(0x400 | 0x100);
                }
                Glyph::Composite(c)
            }
            Glyph::Empty => Glyph::Empty,
        }
    };
    norm(a) == norm(b)
}

pub(crate) struct Encoded {
    pub(crate) bytes: Vec<u8>,
    pub(crate) desc: String,
    pub(crate) glyf_transformed: bool,
    pub(crate) hmtx_transformed: bool,
    pub(crate) elide: (bool, bool),
}

pub(crate) fn encode(font: &TtFont, rng: &mut Rng, cx: &mut Ctx) -> Encoded {
    let (tables, mut e) = encode_tables(font, rng, cx);
    let chunk = *rng.pick(&[65536usize, 65536, 1000, 17, 4096]);
    let with_meta = rng.chance(1, 5);
    e.bytes = w2::build_woff2(font.flavor, &tables, None, chunk, rng, with_meta);
    e.desc = format!("{} tables={} chunk={}", e.desc, tables.len(), chunk);
    e
}

/// The WOFF2 table list (transformed payloads, directory attributes) for `font` with random encoder
/// choices; `Encoded::bytes` is left empty. Also used by C01 to inject faults before wrapping.
pub(crate) fn encode_tables(font: &TtFont, rng: &mut Rng, cx: &mut Ctx) -> (Vec<W2Table>, Encoded) {
    let glyf_t = rng.chance(3, 4);
    let enc = EncChoice::random(rng);
    let records: Vec<Vec<u8>> = font
        .glyphs
        .iter()
        .map(|(g, bb)| match g {
            Glyph::Empty => Vec::new(),
            Glyph::Simple(s) if s.contours.is_empty() => Vec::new(),
            Glyph::Simple(s) => ig::write_simple(s, *bb, rng, &enc),
            Glyph::Composite(c) => ig::write_composite(c, *bb),
        })
        .collect();
    let (glyf_raw, loca_raw, long) = ig::build_glyf_loca(&records, font.loca_long, rng.bool());
    let mut head = font.head.clone();
    if head.len() >= 52 {
        head[50..52].copy_from_slice(&(long as i16).to_be_bytes());
    }
    let mut tables: Vec<W2Table> = Vec::new();
    let plain = |t: u32, d: Vec<u8>, rng: &mut Rng| W2Table { tag: t, orig_length: d.len() as u32, payload: d, transform_version: 0, has_transform_length: false, force_arbitrary_tag: rng.chance(1, 8) };
    tables.push(plain(tag("head"), head, rng));
    tables.push(plain(tag("hhea"), font.hhea.clone(), rng));
    tables.push(plain(tag("maxp"), font.maxp.clone(), rng));
    for (t, d) in &font.others {
        tables.push(plain(*t, d.clone(), rng));
    }
    // hmtx
    let can_elide_lsb = font.metrics[..font.num_h_metrics].iter().zip(font.glyphs.iter()).all(|(m, g)| m.1 == xmin_of(g));
    let can_elide_tail = font.metrics[font.num_h_metrics..].iter().zip(font.glyphs[font.num_h_metrics..].iter()).all(|(m, g)| m.1 == xmin_of(g));
    let hmtx_raw = it::write_hmtx(&font.metrics, font.num_h_metrics);
    let hmtx_t = glyf_t && (can_elide_lsb || can_elide_tail) && rng.chance(3, 4);
    let mut elide = (false, false);
    if hmtx_t {
        elide = (can_elide_lsb && rng.chance(3, 4), can_elide_tail && rng.chance(3, 4));
        if !elide.0 && !elide.1 {
            if can_elide_lsb {
                elide.0 = true;
            } else {
                elide.1 = true;
            }
        }
        let payload = w2::transform_hmtx(&font.metrics, font.num_h_metrics, elide.0, elide.1);
        tables.push(W2Table { tag: tag("hmtx"), orig_length: hmtx_raw.len() as u32, payload, transform_version: 1, has_transform_length: true, force_arbitrary_tag: false });
    } else {
        tables.push(plain(tag("hmtx"), hmtx_raw, rng));
    }
    rng.shuffle(&mut tables);
    // glyf immediately followed by loca, at a random position
    let pos = rng.below(tables.len() + 1);
    let mut classes = Vec::new();
    if glyf_t {
        let ch = GlyfChoices { explicit_bbox: rng.below(9) as u32, overlap_bitmap: rng.bool() };
        let payload = w2::transform_glyf(&font.glyphs, long as u16, &ch, rng, &mut classes);
        tables.insert(pos, W2Table { tag: tag("glyf"), orig_length: glyf_raw.len() as u32, payload, transform_version: 0, has_transform_length: true, force_arbitrary_tag: false });
        tables.insert(pos + 1, W2Table { tag: tag("loca"), orig_length: loca_raw.len() as u32, payload: Vec::new(), transform_version: 0, has_transform_length: true, force_arbitrary_tag: false });
    } else {
        tables.insert(pos, W2Table { tag: tag("glyf"), orig_length: glyf_raw.len() as u32, payload: glyf_raw, transform_version: 3, has_transform_length: false, force_arbitrary_tag: false });
        tables.insert(pos + 1, W2Table { tag: tag("loca"), orig_length: loca_raw.len() as u32, payload: loca_raw, transform_version: 3, has_transform_length: false, force_arbitrary_tag: false });
    }
    for f in classes {
        cx.class(&format!("triplet-flag:{:03}", f));
    }
    let e = Encoded {
        bytes: Vec::new(),
        desc: format!("glyf_transformed={} hmtx_transformed={} elide={:?} loca_long={}", glyf_t, hmtx_t, elide, long),
        glyf_transformed: glyf_t,
        hmtx_transformed: hmtx_t,
        elide,
    };
    (tables, e)
}

fn compare<P: FontTableProvider + SfntVersion>(cx: &mut Ctx, font: &TtFont, p: &P, enc_desc: &str, woff2: &[u8]) -> bool {
    let wit = |what: String| {
        J::obj(vec![("what", J::s(what)), ("font", J::s(font.name.clone())), ("encoding", J::s(enc_desc)), ("num_glyphs", J::U(font.glyphs.len() as u64)), ("woff2_head", J::hex(&woff2[..woff2.len().min(300)])), ("woff2_len", J::U(woff2.len() as u64))])
    };
    let get = |t: u32| -> Option<Vec<u8>> { p.table_data(t).ok().flatten().map(|c| c.into_owned()) };
    // (the flavour reported for members of a collection is not part of C11's statement)
    if !enc_desc.starts_with("collection") && p.sfnt_version() != font.flavor {
        cx.violation("flavour", "flavour", wit(format!("flavour {:#x} expected {:#x}", p.sfnt_version(), font.flavor)));
        return false;
    }
    // untransformed tables byte-identical
    for (t, d) in font.others.iter().chain([(tag("hhea"), font.hhea.clone()), (tag("maxp"), font.maxp.clone())].iter()) {
        match get(*t) {
            Some(got) if got == *d => {}
            other => {
                cx.violation("untransformed-table", "untransformed-table-differs", wit(format!("table {} differs: {:?} bytes vs {} stored", sfnt::tag_str(*t), other.map(|o| o.len()), d.len())));
                return false;
            }
        }
    }
    let mut tags = p.table_tags().unwrap_or_default();
    tags.sort();
    let mut want: Vec<u32> = font.others.iter().map(|t| t.0).chain([tag("head"), tag("hhea"), tag("maxp"), tag("hmtx"), tag("glyf"), tag("loca")]).collect();
    want.sort();
    if tags != want {
        cx.violation("table-set", "table-set-differs", wit(format!("tags {:x?} expected {:x?}", tags, want)));
        return false;
    }
    // head: identical apart from checkSumAdjustment and indexToLocFormat
    let head = match get(tag("head")) {
        Some(h) if h.len() == font.head.len() && h.len() >= 54 => h,
        other => {
            cx.violation("head", "head-missing", wit(format!("head {:?}", other.map(|o| o.len()))));
            return false;
        }
    };
    for (i, (a, b)) in head.iter().zip(font.head.iter()).enumerate() {
        if a != b && !(8..12).contains(&i) && !(50..52).contains(&i) {
            cx.violation("head", "head-differs", wit(format!("head byte {} is {:#x} expected {:#x}", i, a, b)));
            return false;
        }
    }
    let long = i16::from_be_bytes([head[50], head[51]]) != 0;
    let n = font.glyphs.len();
    let (glyf, loca) = match (get(tag("glyf")), get(tag("loca"))) {
        (Some(g), Some(l)) => (g, l),
        _ => {
            cx.violation("glyf", "glyf-or-loca-missing", wit("glyf/loca missing".into()));
            return false;
        }
    };
    let offs = match ig::read_loca(&loca, n, long) {
        Some(o) => o,
        None => {
            cx.violation("loca", "loca-too-short", wit(format!("loca has {} bytes for {} glyphs (long={})", loca.len(), n, long)));
            return false;
        }
    };
    for i in 0..n {
        let (a, b) = (offs[i] as usize, offs[i + 1] as usize);
        if b < a || b > glyf.len() {
            cx.violation("loca", "loca-inconsistent", wit(format!("glyph {}: loca {}..{} outside glyf of {} bytes", i, a, b, glyf.len())));
            return false;
        }
        let (g, bb) = match ig::read_glyph(&glyf[a..b]) {
            Some(x) => x,
            None => {
                cx.violation("glyph", "glyph-unparsable", wit(format!("reconstructed glyph {} does not parse", i)));
                return false;
            }
        };
        let (eg, ebb) = &font.glyphs[i];
        if !same_glyph(&g, eg) {
            let sig = match eg {
                Glyph::Composite(_) => "composite-differs",
                Glyph::Simple(_) => "simple-glyph-differs",
                Glyph::Empty => "empty-glyph-differs",
            };
            cx.violation("glyph", sig, wit(format!("glyph {}: reconstructed {:?} expected {:?}", i, g, eg).chars().take(2500).collect()));
            return false;
        }
        let is_empty = matches!(eg, Glyph::Empty) || matches!(eg, Glyph::Simple(s) if s.contours.is_empty());
        if !is_empty && bb != *ebb {
            cx.violation("bbox", "bbox-differs", wit(format!("glyph {}: bbox {:?} expected {:?}", i, bb, ebb)));
            return false;
        }
    }
    // metrics of every glyph
    let nhm = font.num_h_metrics;
    let hmtx = get(tag("hmtx")).unwrap_or_default();
    match it::read_hmtx(&hmtx, n, nhm) {
        Some(m) => {
            for i in 0..n {
                if m[i] != font.metrics[i] {
                    // Narrow signature for the tail: the known defect rebuilds an elided leftSideBearing[]
                    // array from the xMin of glyphs 0.. instead of glyphs numberOfHMetrics..
                    let tail_elided = enc_desc.contains("elide=(true, true)") || enc_desc.contains("elide=(false, true)");
                    let sig = if i >= nhm {
                        if m[i].0 != font.metrics[i].0 {
                            "hmtx-tail-advance-differs"
                        } else if tail_elided && m[i].1 == xmin_of(&font.glyphs[i - nhm]) {
                            "hmtx-tail-lsb-differs:elided-array-rebuilt-from-first-glyphs"
                        } else if tail_elided {
                            "hmtx-tail-lsb-differs:elided-array"
                        } else {
                            "hmtx-tail-lsb-differs:explicit-array"
                        }
                    } else if m[i].0 != font.metrics[i].0 { "hmtx-advance-differs" } else { "hmtx-lsb-differs" };
                    cx.violation("hmtx", sig, wit(format!("glyph {} (numberOfHMetrics {}): metrics {:?} expected {:?}", i, nhm, m[i], font.metrics[i])));
                    return false;
                }
            }
        }
        None => {
            cx.violation("hmtx", "hmtx-too-short", wit(format!("hmtx has {} bytes for {} glyphs / {} long metrics", hmtx.len(), n, nhm)));
            return false;
        }
    }
    true
}

impl Prop for C11 {
    fn exhaustive(&mut self, cx: &mut Ctx, shard: u64, of: u64) {
        // 255UInt16: every value x every legal encoding
        let mut n = 0u64;
        for v in 0..=u16::MAX {
            if v as u64 % of != shard {
                continue;
            }
            for e in w2::enc_255_all(v) {
                n += 1;
                let mut bytes = e.clone();
                bytes.push(0xAA); // trailing byte must not be consumed
                let mut c = ReadScope::new(&bytes).ctxt();
                match c.read::<PackedU16>() {
                    Ok(got) if got == v => {
                        if c.scope().data().len() != 1 {
                            cx.violation("varint", "255uint16-length", J::s(format!("encoding {:x?} consumed {} bytes", e, bytes.len() - c.scope().data().len())));
                        }
                    }
                    other => cx.violation("varint", "255uint16-value", J::s(format!("encoding {:x?} of {} decoded to {:?}", e, v, other))),
                }
            }
        }
        cx.class_n("exhaustive:255uint16-encodings", n);
        cx.evals += n;
        if shard == 0 {
            let mut rng = Rng::new(0xB128);
            let mut vals: Vec<u32> = vec![0, 1, 127, 128, 16383, 16384, 2097151, 2097152, 268435455, 268435456, u32::MAX, u32::MAX - 1];
            for _ in 0..200_000 {
                vals.push(rng.u32() >> rng.below(32));
            }
            for v in vals {
                let mut e = w2::enc_base128(v);
                e.push(0x55);
                let mut c = ReadScope::new(&e).ctxt();
                match c.read::<U32Base128>() {
                    Ok(got) if got == v && c.scope().data().len() == 1 => {}
                    other => cx.violation("varint", "uintbase128-value", J::s(format!("{:x?} (value {}) decoded to {:?}", e, v, other))),
                }
            }
            // rejection rules
            for bad in [vec![0x80u8, 0x01], vec![0xFF, 0xFF, 0xFF, 0xFF, 0xFF, 0x01], vec![0x90, 0x80, 0x80, 0x80, 0x00], vec![0xFF, 0xFF, 0xFF, 0xFF, 0x7F]] {
                if let Ok(v) = ReadScope::new(&bad).read::<U32Base128>() {
                    cx.violation("varint", "uintbase128-accepts-invalid", J::s(format!("{:x?} decoded to {}", bad, v)));
                }
            }
            cx.class("exhaustive:uintbase128");
            cx.evals += 200_016;
        }
    }

    fn case(&mut self, cx: &mut Ctx, rng: &mut Rng) {
        let use_real = !self.seeds.is_empty() && rng.chance(1, if cx.quick() { 12 } else { 6 });
        if use_real {
            let s = &self.seeds[rng.below(self.seeds.len())];
            if &s.data[..4] == b"OTTO" {
                // CFF flavoured: nothing is transformed, everything must come back byte-identical
                let f = match sfnt::Font::parse(&s.data) {
                    Some(f) => f,
                    None => return,
                };
                let mut tables: Vec<W2Table> = f.tables.iter().map(|(t, d)| W2Table { tag: *t, orig_length: d.len() as u32, payload: d.clone(), transform_version: 0, has_transform_length: false, force_arbitrary_tag: rng.chance(1, 8) }).collect();
                rng.shuffle(&mut tables);
                let bytes = w2::build_woff2(f.version, &tables, None, 65536, rng, false);
                let fd = ReadScope::new(&bytes).read::<FontData<'_>>();
                let p = fd.ok().and_then(|fd| fd.table_provider(0).ok());
                match p {
                    Some(p) => {
                        for (t, d) in &f.tables {
                            if p.table_data(*t).ok().flatten().map(|c| c.into_owned()).as_deref() != Some(d.as_slice()) {
                                cx.violation("untransformed-table", "cff-font-table-differs", J::s(format!("{} table {}", s.name, sfnt::tag_str(*t))));
                                return;
                            }
                        }
                        cx.class("real:cff-flavoured");
                        cx.nontrivial(hash_bytes(&bytes));
                    }
                    None => cx.violation("rejected", "cff-font-rejected", J::s(s.name.clone())),
                }
                return;
            }
            let font = match read_ttfont(&s.data, &s.name) {
                Some(f) => f,
                None => {
                    cx.class("real:skipped-unreadable");
                    return;
                }
            };
            self.roundtrip(cx, rng, &font, "real");
            return;
        }
        if rng.chance(1, 8) {
            self.collection(cx, rng);
            return;
        }
        let font = gen_ttfont(rng, cx.quick());
        self.roundtrip(cx, rng, &font, "gen");
    }
}

impl C11 {
    fn roundtrip(&self, cx: &mut Ctx, rng: &mut Rng, font: &TtFont, kind: &str) {
        let e = encode(font, rng, cx);
        let fd = match ReadScope::new(&e.bytes).read::<FontData<'_>>() {
            Ok(f) => f,
            Err(err) => {
                cx.violation("rejected", "woff2-rejected", J::obj(vec![("error", J::s(format!("{:?}", err))), ("font", J::s(font.name.clone())), ("encoding", J::s(e.desc.clone())), ("woff2_head", J::hex(&e.bytes[..e.bytes.len().min(300)]))]));
                return;
            }
        };
        let p = match fd.table_provider(0) {
            Ok(p) => p,
            Err(err) => {
                cx.violation("rejected", if e.glyf_transformed { "woff2-transformed-provider-rejected" } else { "woff2-provider-rejected" }, J::obj(vec![("error", J::s(format!("{:?}", err))), ("font", J::s(font.name.clone())), ("encoding", J::s(e.desc.clone())), ("woff2_head", J::hex(&e.bytes[..e.bytes.len().min(400)]))]));
                return;
            }
        };
        if compare(cx, font, &p, &e.desc, &e.bytes) {
            cx.class(&format!("{}:ok", kind));
            cx.class(if e.glyf_transformed { "glyf:transformed" } else { "glyf:null-transform" });
            if e.hmtx_transformed {
                cx.class("hmtx:transformed");
                if e.elide.0 {
                    cx.class("hmtx:lsb-elided");
                }
                if e.elide.1 {
                    cx.class(if font.num_h_metrics < font.glyphs.len() { "hmtx:tail-elided-with-tail" } else { "hmtx:tail-elided-empty-tail" });
                }
            }
            if font.num_h_metrics < font.glyphs.len() {
                cx.class("numberOfHMetrics<numGlyphs");
            }
            if font.glyphs.len() % 32 == 0 {
                cx.class("numGlyphs:multiple-of-32");
            }
            if font.glyphs.iter().any(|(g, _)| matches!(g, Glyph::Simple(s) if s.contours.iter().any(|c| c.windows(2).any(|w| w[1].x as i32 - w[0].x as i32 == -32768 || w[1].y as i32 - w[0].y as i32 == -32768)))) {
                cx.class("delta:-32768");
            }
            if font.glyphs.iter().any(|g| matches!(g.0, Glyph::Composite(_))) {
                cx.class("has-composite");
                if font.glyphs.iter().any(|(g, _)| matches!(g, Glyph::Composite(c) if !c.instructions.is_empty() && c.components.len() >= 2 && c.components[..c.components.len() - 1].iter().any(|k| k.extra_flags & 0x100 != 0) && c.components[c.components.len() - 1].extra_flags & 0x100 == 0)) {
                    cx.class("composite:instructions-flag-on-non-last-component-only");
                }
            }
        }
        cx.nontrivial(hash_bytes(&e.bytes));
        if cx.want_sample() {
            cx.sample(J::obj(vec![("font", J::s(font.name.clone())), ("glyphs", J::U(font.glyphs.len() as u64)), ("encoding", J::s(e.desc))]));
        }
    }

    /// Collection of two or three generated fonts, glyf/loca shared or not.
    fn collection(&self, cx: &mut Ctx, rng: &mut Rng) {
        let base = gen_ttfont(rng, true);
        let nfonts = 2 + rng.below(2);
        let share_glyf = rng.bool();
        let mut fonts: Vec<TtFont> = vec![base.clone()];
        for _ in 1..nfonts {
            if share_glyf {
                let mut f = base.clone();
                f.others = gen_ttfont(rng, true).others;
                fonts.push(f);
            } else {
                fonts.push(gen_ttfont(rng, true));
            }
        }
        // table list: per font its tables, shared glyf/loca/head/hhea/maxp/hmtx when share_glyf
        let mut tables: Vec<W2Table> = Vec::new();
        let mut members: Vec<(u32, Vec<u16>)> = Vec::new();
        let mut shared_idx: Vec<u16> = Vec::new();
        let mut dummy = Vec::new();
        // the flat table directory need not list the fonts' tables in font order: the first entry of
        // a tag may belong to any member
        let mut order: Vec<usize> = (0..nfonts).collect();
        let shuffled = rng.chance(1, 2);
        if shuffled {
            rng.shuffle(&mut order);
        }
        let mut member_idx: Vec<Vec<u16>> = vec![Vec::new(); nfonts];
        let mut built_shared = false;
        for &k in &order {
            let f = &fonts[k];
            let mut idx: Vec<u16> = Vec::new();
            if !(share_glyf && built_shared) {
                built_shared = true;
                let enc = EncChoice::compact();
                let records: Vec<Vec<u8>> = f
                    .glyphs
                    .iter()
                    .map(|(g, bb)| match g {
                        Glyph::Empty => Vec::new(),
                        Glyph::Simple(s) if s.contours.is_empty() => Vec::new(),
                        Glyph::Simple(s) => ig::write_simple(s, *bb, rng, &enc),
                        Glyph::Composite(c) => ig::write_composite(c, *bb),
                    })
                    .collect();
                let (glyf_raw, loca_raw, long) = ig::build_glyf_loca(&records, f.loca_long, false);
                let mut head = f.head.clone();
                head[50..52].copy_from_slice(&(long as i16).to_be_bytes());
                let start = tables.len() as u16;
                let push_plain = |tables: &mut Vec<W2Table>, t: u32, d: Vec<u8>| tables.push(W2Table { tag: t, orig_length: d.len() as u32, payload: d, transform_version: 0, has_transform_length: false, force_arbitrary_tag: false });
                push_plain(&mut tables, tag("head"), head);
                push_plain(&mut tables, tag("hhea"), f.hhea.clone());
                push_plain(&mut tables, tag("maxp"), f.maxp.clone());
                push_plain(&mut tables, tag("hmtx"), it::write_hmtx(&f.metrics, f.num_h_metrics));
                let ch = GlyfChoices { explicit_bbox: 0, overlap_bitmap: false };
                let payload = w2::transform_glyf(&f.glyphs, long as u16, &ch, rng, &mut dummy);
                tables.push(W2Table { tag: tag("glyf"), orig_length: glyf_raw.len() as u32, payload, transform_version: 0, has_transform_length: true, force_arbitrary_tag: false });
                tables.push(W2Table { tag: tag("loca"), orig_length: loca_raw.len() as u32, payload: Vec::new(), transform_version: 0, has_transform_length: true, force_arbitrary_tag: false });
                let core: Vec<u16> = (start..tables.len() as u16).collect();
                if share_glyf {
                    shared_idx = core.clone();
                }
                idx.extend(core);
            } else {
                idx.extend(shared_idx.iter().copied());
            }
            for (t, d) in &f.others {
                idx.push(tables.len() as u16);
                tables.push(W2Table { tag: *t, orig_length: d.len() as u32, payload: d.clone(), transform_version: 0, has_transform_length: false, force_arbitrary_tag: false });
            }
            member_idx[k] = idx;
        }
        for (k, f) in fonts.iter().enumerate() {
            members.push((f.flavor, std::mem::take(&mut member_idx[k])));
        }
        let bytes = w2::build_woff2(tag("ttcf"), &tables, Some(&members), 65536, rng, false);
        let fd = match ReadScope::new(&bytes).read::<FontData<'_>>() {
            Ok(f) => f,
            Err(err) => {
                cx.violation("rejected", "woff2-collection-rejected", J::obj(vec![("error", J::s(format!("{:?}", err))), ("woff2_head", J::hex(&bytes[..bytes.len().min(400)]))]));
                return;
            }
        };
        let mut ok = true;
        for (k, f) in fonts.iter().enumerate() {
            match fd.table_provider(k) {
                Ok(p) => ok &= compare(cx, f, &p, &format!("collection member {} of {} shared_glyf={}", k, nfonts, share_glyf), &bytes),
                Err(err) => {
                    cx.violation("rejected", "woff2-collection-member-rejected", J::obj(vec![("member", J::U(k as u64)), ("error", J::s(format!("{:?}", err))), ("shared_glyf", J::Bool(share_glyf)), ("woff2_head", J::hex(&bytes[..bytes.len().min(400)]))]));
                    ok = false;
                }
            }
        }
        if fd.table_provider(nfonts).is_ok() {
            cx.violation("index-beyond-end", "woff2-collection-index-beyond-end", J::s(format!("table_provider({}) on a {}-font collection succeeded", nfonts, nfonts)));
        }
        if ok {
            cx.class(if share_glyf { "collection:shared-glyf" } else { "collection:separate-glyf" });
            if shuffled && order[0] != 0 && !share_glyf {
                cx.class("collection:first-directory-entries-belong-to-a-later-member");
            }
        }
        cx.nontrivial(hash_bytes(&bytes));
    }
}
